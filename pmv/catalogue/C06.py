M = 'mininec.Mininec.'
MUTANTS = [
    ('nf helper: direction of other half', [(M + 'nf_helper', "u * d2 [pidx] * v7", "u * d1 [pidx] * v7")], ['coherent-product', 'complete-term']),
    ('nf helper: positive scale for negative half', [(M + 'nf_helper', "self.psi (v2, vv, k, -0.5, pidx, exact = False)", "self.psi (v2, vv, k, 0.5, pidx, exact = False)")], ['potential-half']),
    ('fill: sign of other half', [(M + 'compute_impedance_matrix', "v [compu]  = vp [compu] * sg [..., 0] [compu]", "v [compu]  = vp [compu] * sg [..., 1] [compu]")], ['coherent-product', 'complete-term']),
    ('junction end 2 overwrites', [(M + 'currents_as_mininec', "                        c += s * self.current [p]", "                        c = s * self.current [p]")], ['junction-accumulate']),
    ('junction end 2 drops sign', [(M + 'currents_as_mininec', "                        c += s * self.current [p]", "                        c += self.current [p]")], ['junction-accumulate']),
    ('zins from the load owner', [('mininec.Insulation_Load.impedance', "np.log (ld.radius / geobj.r_orig)", "np.log (ld.radius / self.geobj.r_orig)")], ['CACHE']),
    ('zint unkeyed again', [('mininec.Skin_Effect_Load.impedance', "if w.zint is None or w.zint [0] != f:", "if w.zint is None:")], ['CACHE']),
    ('add_conn one direction only', [('mininec.Geobj._add_conn', "        other.conn [n2].add (self,  self, n1, s, s)\n", "")], ['add-conn']),
    ('add_conn sign inverted', [('mininec.Geobj._add_conn', "s = -1 if (n2 == n1) else 1", "s = 1 if (n2 == n1) else -1")], ['add-conn']),
    ('end-2 neighbour segment chosen by the end-1 sign', [('mininec.Geobj.compute_connections', "            if sgn [1] < 0:\n                oseg = other.segments [-1]", "            if sgn [0] < 0:\n                oseg = other.segments [-1]")], ['neighbour-segment']),
    ('end-1 neighbour segment always the last', [('mininec.Geobj.compute_connections', "            if sgn [0] < 0:\n                oseg = other.segments [0]", "            if sgn [0] < 0:\n                oseg = other.segments [-1]")], ['neighbour-segment']),
    ('outer point of end 1 on the inner side', [('mininec.Geobj.compute_connections', "prev = self.p1 - oinc", "prev = self.p1 + oinc")], ['neighbour-segment']),
    ('outer point of end 2 ignores the direction', [('mininec.Geobj.compute_connections', "oinc = oseg.dirvec * oseg.seg_len * sgn [1]", "oinc = oseg.dirvec * oseg.seg_len")], ['neighbour-segment']),
    ('junction pulse sign ignores direction', [('mininec.Geobj.compute_connections', "sgn   = [1, np.sign (self.idx_2)]", "sgn   = [1, 1]")], ['add-conn', 'pulse-signs']),
    ('vector self term with the length of the observing pulse', [('mininec.Mininec.vector_potential', "            wl = self.pulses.matrix_seg_len [1].T [widx].T [co2]", "            wl = self.pulses.matrix_seg_len [0].T [widx].T [co2]")], ['self-term']),
]
REFACTORS = [
    ('neighbour segment by conditional expression', [('mininec.Geobj.compute_connections', "            if sgn [1] < 0:\n                oseg = other.segments [-1]\n            else:\n                oseg = other.segments [0]", "            oseg = other.segments [-1] if sgn [1] < 0 else other.segments [0]")]),
    ('junction accumulate as c = c + term', [(M + 'currents_as_mininec', "                        c += s * self.current [p]", "                        c = c + self.current [p] * s")]),
    ('zins via local radius', [('mininec.Insulation_Load.impedance', "                    * np.log (ld.radius / geobj.r_orig)", "                    * np.log (ld.radius / geobj._r)")]),
]
