"""C10  Far field: dBi and V/m tables describe the same field.

Decided:
 D1 R-DEP   the dBi array handed to Far_Field_Pattern depends on self.power and self.current and
            NOT on the requested power / distance (pwr, dist, ff_power, ff_dist); the V/m arrays
            depend on the distance only through one division each, under the same guard; the
            power ratio is ff_power / power with ff_power = pwr or self.power, and both V/m
            arrays are multiplied by the same sqrt(ratio) in Far_Field_Pattern.__init__.
 D2 R-SIB   vertical and horizontal gain use the same normalisation; total = vertical +
            horizontal; column order (vertical, horizontal, total) matches the row writer.
 D3 R-LIT   k9 * 2 * g0 == 1 within 1e-4 (the 59.96 of the statement); dB = 10 log10.
 D4 R-EXH   every (image, azimuth) iteration accumulates into the field sum exactly once; the row
            writers emit exactly one row per flattened entry (no filter).
Not decided: agreement with the radiation integral, periodicity, zenith independence (numeric).
"""
import ast
from ..model import AnalysisError, walk_no_nested, parent, dotted, norm, const_value, is_const
from ..dataflow import product_of, sum_terms
from ..rules import assigns_to_attr, loop_reaches_on_all_paths, loops_in

FAR = 'mininec.Mininec.compute_far_field'
FFP = 'mininec.Far_Field_Pattern.__init__'


def _ffp_call(ctx):
    f = ctx.flat(FAR)           # compute_far_field with its private helpers written back in place
    asg = assigns_to_attr(f, 'self.far_field')
    calls = [a for a in asg if isinstance(a.value, ast.Call) and
             isinstance(a.value.func, ast.Name) and a.value.func.id == 'Far_Field_Pattern']
    if len(calls) != 1:
        raise AnalysisError('expected exactly one `self.far_field = Far_Field_Pattern(...)` in '
                            'compute_far_field, found %d' % len(calls))
    st = calls[0]
    init = ctx.func(FFP)
    params = init.params[1:]
    amap = {}
    for i, a in enumerate(st.value.args):
        if i < len(params):
            amap[params[i]] = a
    for kw in st.value.keywords:
        amap[kw.arg] = kw.value
    for need in ('gain', 'e_theta', 'e_phi', 'pwr_ratio', 'azi', 'zen'):
        if need not in amap:
            raise AnalysisError('Far_Field_Pattern(...) call lacks argument %s' % need)
    return f, st, amap


def far_field_creations(ctx):
    """[(path, {parameter of Far_Field_Pattern.__init__: closed argument expression})] from the symbolic
    walk of compute_far_field (private helpers looked through; large arrays kept as dependency summaries)"""
    cache = ctx.__dict__.get('_ffp_creations')
    if cache is not None:
        return cache
    from ..symx import SymExec
    f = ctx.func(FAR)
    init = ctx.func(FFP)
    params = init.params[1:]
    out = []
    for p in SymExec(ctx, f, bind_loops=True, private_only=True, effects=True, objects=True,
                     max_paths=20000, depth=3).run():
        if p.end == 'raise':
            continue
        for ev in p.events:
            if ev[0] == 'create' and norm(ev[2].func) == 'Far_Field_Pattern':
                amap = {}
                for i, a in enumerate(ev[2].args):
                    if i < len(params):
                        amap[params[i]] = a
                for kw in ev[2].keywords:
                    amap[kw.arg] = kw.value
                out.append((p, amap))
    if not out:
        raise AnalysisError('compute_far_field: no Far_Field_Pattern(...) creation on the symbolic paths')
    ctx.__dict__['_ffp_creations'] = out
    return out


def find_integrator(ctx, entry_qual):
    """the function that holds the loop over self.image_iter(): the entry point with its private helpers
    inlined, or a (non-private) helper method reachable from it through self-calls"""
    m = ctx.model
    prog = ctx.program
    entry = m.func(entry_qual)
    flat = ctx.flat(entry)
    if any(isinstance(l, ast.For) and norm(l.iter) == 'self.image_iter()' for l in loops_in(flat.node)):
        return [flat]
    seen = prog.closure([entry], edge_filter=lambda e: e.kind == 'call' and e.callee.cls is entry.cls)
    cands = []
    for q in seen:
        g = ctx.flat(m.funcs[q])
        if any(isinstance(l, ast.For) and norm(l.iter) == 'self.image_iter()' for l in loops_in(g.node)):
            cands.append(g)
    return cands


def check_dbi_normalisation(ctx, ck, rule='R-DEP.dbi-normalised'):
    f, st, amap = _ffp_call(ctx)
    fl = ctx.flow(f)
    nid = fl.node_id_of(st)
    from ..dataflow import expand_call_roots
    r = fl.roots(amap['gain'], nid)
    for _ in range(2):
        for x in list(r):
            if x[0] == 'attr' and x[1].startswith('self.') and x[1].count('.') == 1:
                for a_ in assigns_to_attr(f, x[1]):
                    r |= fl.roots(a_.value, fl.node_id_of(a_))
    r = expand_call_roots(ctx, f, r)
    banned = {('param', 'pwr'), ('param', 'dist'), ('attr', 'self.ff_power'),
              ('attr', 'self.ff_dist'), ('attr', 'self.nf_power')}
    # any parameter other than the angle objects is banned as well
    extra = {x for x in r if x[0] == 'param' and x[1] not in ('self', 'zenith_angle', 'azimuth_angle')}
    hit = sorted((r & banned) | extra)
    ck.ob(rule, FAR + '|gain-independent-of-request', not hit, f.loc(st),
          'dBi array depends on %s' % hit if hit else
          'dBi array has no requested power / distance among its %d roots' % len(r))
    need = {('attr', 'self.power'), ('attr', 'self.current')}
    miss = sorted(need - r)
    if miss:
        # a value that came through a callable held in a local (a partial, a bound method picked per image,
        # an element of a generator of callables) is not followed by the roots: nothing can be concluded
        opaque = sorted(x[1] for x in r if x[0] == 'call' and '.' not in x[1] and
                        (x[1] in fl.rd.names or x[1] in f.all_params))
        if opaque:
            raise AnalysisError('%s: the dBi array is computed through the local callable(s) %s, its dependencies '
                                'are not followed there' % (FAR, opaque))
    ck.ob(rule, FAR + '|gain-normalised-by-power', not miss, f.loc(st),
          'dBi array lacks roots %s' % miss if miss else 'dBi array depends on self.power and self.current')
    return r


def check_row_writers(ctx, ck, rule_rows='R-EXH.accumulate', rule_cols='R-SIB.polarisations'):
    m = ctx.model
    # row writers: one row per entry of the flattened angle grid; the columns are, in this order,
    # zenith, azimuth and the stacked gain columns (vertical, horizontal, total) resp. magnitude and
    # phase of E_theta then E_phi.  Decided on the symbolic walk (any loop / comprehension / helper form).
    from ..symx import SymExec, line_exprs, canon_k, row_values
    want_cols = {
        'mininec.Far_Field_Pattern.db_as_mininec':
            [('self.zen',), ('self.azi',), ('self.gain.T[0]',), ('self.gain.T[1]',), ('self.gain.T[2]',)],
        'mininec.Far_Field_Pattern.abs_gain_as_mininec':
            [('self.zen',), ('self.azi',), ('np.abs', 'self.e_theta'), ('np.angle', 'self.e_theta'),
             ('np.abs', 'self.e_phi'), ('np.angle', 'self.e_phi')]}
    for q, want_ in want_cols.items():
        g = m.func(q)
        rows = []
        per_path = []
        for p_ in SymExec(ctx, g, bind_loops=True).run():
            if p_.end == 'raise':
                continue
            ent = [t_ for k_, t_ in p_.conds if k_ == 'loop']
            n_ = 0
            for e_, st_, it_ in line_exprs(p_, with_iter=True):
                if row_values(e_) is None:
                    continue
                src = norm(it_) if it_ is not None else (ent[-1] if ent else None)
                rows.append((e_, st_, src))
                n_ += 1
            skipped = any(k_ == 'loop-skipped' for k_, t_ in p_.conds)
            per_path.append((n_, 0 if (skipped and not ent) else 1, p_.conds))
        badp = [x_ for x_ in per_path if x_[0] != x_[1]]
        ck.ob(rule_rows, q + '|rows-per-entry', not badp, g.loc(),
              'exactly one row per grid entry on every path' if not badp else
              '%d rows instead of %d for an entry on the path %s' % (badp[0][0], badp[0][1], [c_ for c_ in badp[0][2] if c_[0] != 'loop']))
        ck.floor('row expressions in ' + q, len(rows), 1)
        for e_, st_, src in rows:
            vals = [canon_k(norm(v_)) for v_ in row_values(e_)]
            ok = len(vals) == len(want_)
            if ok:
                for v_, w_ in zip(vals, want_):
                    ok = ok and all(x_ in v_ for x_ in w_) and v_.endswith('[_k0]')
                    if len(w_) == 1:
                        ok = ok and v_ == w_[0] + '[_k0]'
            flat_ok = src is not None and src.startswith('zip(') and src.count('.flat') == len(want_)
            ck.ob(rule_rows, q + '|one-row-per-entry', ok and flat_ok, g.loc(st_),
                  'row per entry of zip of %d flattened arrays, columns %s' % (len(want_), vals) if ok and flat_ok else
                  'row columns %s over %s; expected %s over the flattened grid' % (vals, src, want_))
            if q.endswith('db_as_mininec'):
                ck.ob(rule_cols, q + '|three-columns', ok, g.loc(st_),
                      'gain columns printed in stacking order (vertical, horizontal, total)' if ok else
                      'gain columns printed as %s' % vals[2:])


def run(ctx, ck):
    m = ctx.model
    ck.rule('R-DEP.dbi-normalised', 'dBi depends on total source power and currents, not on requested power/distance')
    ck.rule('R-DEP.vm-scaling', 'V/m arrays: / distance once, * sqrt(ff_power/power)')
    ck.rule('R-SIB.polarisations', 'vertical/horizontal treated alike; total = v + h; column order')
    ck.rule('R-LIT.k9-g0', 'k9 * 2 * g0 == 1 (1e-4); dB = 10 log10')
    ck.rule('R-EXH.accumulate', 'each (image, azimuth) iteration accumulates once; one row per entry')

    f, st, amap = _ffp_call(ctx)
    fl = ctx.flow(f)
    nid = fl.node_id_of(st)
    check_dbi_normalisation(ctx, ck)

    # ---------------------------------------------------------------- D1 V/m
    # distance: find in-place / re-assignments of the names that feed e_theta / e_phi which have
    # `dist` among the roots of their right-hand side
    def base_name(e):
        while isinstance(e, (ast.Attribute, ast.Subscript)):
            e = e.value
        return e.id if isinstance(e, ast.Name) else None

    names = {}
    for pol in ('e_theta', 'e_phi'):
        b = base_name(amap[pol])
        if b is None:
            raise AnalysisError('V/m argument %s is not a (transposed) local array' % pol)
        names[pol] = b
    divs = {}
    for pol, nm in names.items():
        found = []
        for n in fl.cfg.nodes:
            s = n.stmt
            if n.kind != 'stmt' or s is None:
                continue
            tgt = None
            val = None
            form = None
            if isinstance(s, ast.AugAssign) and isinstance(s.target, ast.Name) and s.target.id == nm:
                tgt, val = s.target, s.value
                form = 'aug-' + type(s.op).__name__
            elif isinstance(s, ast.Assign) and len(s.targets) == 1 and \
                    isinstance(s.targets[0], ast.Name) and s.targets[0].id == nm:
                tgt, val = s.targets[0], s.value
                form = 'assign'
            if tgt is None:
                continue
            rr = fl.roots(val, n.id)
            if ('param', 'dist') in rr:
                found.append((n, s, val, form))
        divs[pol] = found
    for pol in ('e_theta', 'e_phi'):
        found = divs[pol]
        ok, why = True, ''
        if len(found) != 1:
            ok, why = False, '%d statements make %s depend on the distance (expected 1)' % (
                len(found), names[pol])
        else:
            n, s, val, form = found[0]
            if form == 'aug-Div':
                why = '%s /= %s' % (names[pol], norm(val))
            elif form == 'assign':
                p = product_of(val)
                nn, dd = p.texts()
                if nn == [names[pol]] and len(dd) == 1 and p.coef == 1:
                    why = '%s = %s / %s' % (names[pol], names[pol], dd[0])
                else:
                    ok, why = False, 'distance enters %s other than by one division: %s' % (
                        names[pol], norm(s))
            else:
                ok, why = False, 'distance enters %s through %s' % (names[pol], form)
        ck.ob('R-DEP.vm-scaling', FAR + '|distance|' + pol, ok,
              f.loc(found[0][1]) if found else f.loc(st), why)
    # sibling: same guard, same divisor
    if all(len(divs[p]) == 1 for p in divs):
        from ..cfg import if_chain_preds
        def divisor(entry):
            n_, s_, val_, form_ = entry
            if form_ == 'assign':
                dd_ = product_of(val_).texts()[1]
                return dd_[0] if len(dd_) == 1 else norm(val_)
            return norm(val_)
        g = {p: (if_chain_preds(fl.cfg, divs[p][0][0].id), divisor(divs[p][0])) for p in divs}
        same = g['e_theta'] == g['e_phi']
        ck.ob('R-SIB.polarisations', FAR + '|distance-siblings', same, f.loc(divs['e_theta'][0][1]),
              'both polarisations divided by %s under guard %s' % (g['e_theta'][1], g['e_theta'][0])
              if same else 'e_theta: %s  e_phi: %s' % (g['e_theta'], g['e_phi']))
        # the division must come after the dBi conversion has read the arrays: the gain argument
        # must not depend on the distance - covered by dbi-normalised.
    # power ratio
    ratio = fl.inline(amap['pwr_ratio'], nid)
    p = product_of(ratio)
    nn, dd = p.texts()
    ok = nn == ['self.ff_power'] and dd == ['self.power'] and p.coef == 1
    ck.ob('R-DEP.vm-scaling', FAR + '|power-ratio', ok, f.loc(st),
          'power ratio = %s' % norm(ratio))
    ffp_asg = assigns_to_attr(f, 'self.ff_power')
    ck.floor('assignments of self.ff_power', len(ffp_asg), 1)
    for a in ffp_asg:
        v = fl.inline(a.value, fl.node_id_of(a))
        ok = False
        if isinstance(v, ast.BoolOp) and isinstance(v.op, ast.Or) and len(v.values) == 2:
            ok = norm(v.values[0]) == 'pwr' and norm(v.values[1]) == 'self.power'
        elif isinstance(v, ast.IfExp):
            ok = {norm(v.body), norm(v.orelse)} == {'pwr', 'self.power'}
        ck.ob('R-DEP.vm-scaling', FAR + '|ff_power-default', ok, f.loc(a),
              'self.ff_power = %s' % norm(v))
    # Far_Field_Pattern.__init__: both fields times sqrt(pwr_ratio)
    init = m.func(FFP)
    ifl = ctx.flow(init)
    facs = {}
    for pol in ('e_theta', 'e_phi'):
        asg = assigns_to_attr(init, 'self.' + pol)
        if len(asg) != 1:
            raise AnalysisError('Far_Field_Pattern.__init__ assigns self.%s %d times' % (pol, len(asg)))
        a = asg[0]
        v = ifl.inline(a.value, ifl.node_id_of(a))
        pr = product_of(v)
        nn, dd = pr.texts()
        other = [t for t in nn if t != pol]
        ok = pol in nn and not dd and pr.coef == 1 and len(other) == 1
        why = 'self.%s = %s' % (pol, norm(v))
        if ok:
            # the other factor is sqrt(pwr_ratio) (possibly via self.pwr_ratio)
            fac = [x for t, x in pr.num if t != pol][0]
            if isinstance(fac, ast.Attribute) and dotted(fac) == 'self.pwr_ratio':
                d = assigns_to_attr(init, 'self.pwr_ratio')
                fac = d[0].value if len(d) == 1 else fac
            okf = isinstance(fac, ast.Call) and (dotted(fac.func) or '').endswith('sqrt') and \
                len(fac.args) == 1 and norm(fac.args[0]) == 'pwr_ratio'
            if not okf and isinstance(fac, ast.BinOp) and isinstance(fac.op, ast.Pow):
                okf = norm(fac.left) == 'pwr_ratio' and is_const(fac.right) and \
                    abs(const_value(fac.right) - 0.5) < 1e-12
            ok = okf
            why += ' with factor %s' % norm(fac)
            facs[pol] = norm(fac)
        ck.ob('R-DEP.vm-scaling', FFP + '|' + pol, ok, init.loc(a), why)
    # gain stored unscaled
    ga = assigns_to_attr(init, 'self.gain')
    ok = len(ga) == 1 and norm(ga[0].value) == 'gain'
    ck.ob('R-DEP.vm-scaling', FFP + '|gain-unscaled', ok, init.loc(ga[0] if ga else None),
          'self.gain = %s' % (norm(ga[0].value) if ga else '?'))

    # ---------------------------------------------------------------- D2 / D3
    garg = amap['gain']
    gname = base_name(garg)
    # find the stacking  np.array([a.T, b.T, c.T]).T  that feeds the masked dB conversion
    stack = None
    for n in walk_no_nested(f.node):
        if isinstance(n, ast.Call) and (dotted(n.func) or '') in ('np.array', 'numpy.array', 'np.stack', 'numpy.stack',
                                                                   'np.dstack', 'numpy.dstack') and n.args \
           and isinstance(n.args[0], (ast.List, ast.Tuple)) and len(n.args[0].elts) == 3:
            els = [base_name(e) for e in n.args[0].elts]
            tot_expr = None
            if els[2] is None:
                # the total written in place: (v + h).T
                e3 = n.args[0].elts[2]
                while isinstance(e3, ast.Attribute) and e3.attr == 'T':
                    e3 = e3.value
                if isinstance(e3, ast.BinOp):
                    tot_expr = e3
                    els[2] = '<sum>'
            if all(els) and all(e in fl.rd.names for e in els if e != '<sum>'):
                if stack is not None:
                    raise AnalysisError('more than one candidate for the (v, h, total) stack')
                stack = (n, els, tot_expr)
    if stack is None:
        raise AnalysisError('stack of (vertical, horizontal, total) gain arrays not found')
    sn, (tv, th, tt), tot_expr = stack
    snid = fl.node_id_of(sn)
    dt = fl.single_def(tt, snid) if tot_expr is None else (tot_expr, snid)
    ok, why = False, 'total is not a single assignment'
    if dt is not None:
        terms = sum_terms(dt[0])
        names_t = sorted(norm(t) for s, t in terms if s == 1)
        ok = len(terms) == 2 and names_t == sorted([tv, th])
        why = 'total %s = %s ; stacked as (%s, %s, %s)' % (tt, norm(dt[0]), tv, th, tt)
    ck.ob('R-SIB.polarisations', FAR + '|total=v+h', ok, f.loc(sn), why)
    # each polarisation: k9 * (X.real**2 + X.imag**2)
    shapes = {}
    for nm in (tv, th):
        d = fl.single_def(nm, snid)
        ok, why = False, '%s is not a single assignment' % nm
        if d is not None:
            pr = product_of(fl.inline(d[0], d[1], depth=1) if False else d[0])
            nn = [x for t, x in pr.num]
            coef_names = [norm(x) for x in nn if isinstance(x, ast.Name)]
            sq = [x for x in nn if not isinstance(x, ast.Name)]
            src = None
            if len(sq) == 1 and not pr.den:
                ts = sum_terms(sq[0])
                parts = set()
                for s_, t_ in ts:
                    if s_ == 1 and isinstance(t_, ast.BinOp) and isinstance(t_.op, ast.Pow) and \
                       is_const(t_.right) and const_value(t_.right) == 2 and \
                       isinstance(t_.left, ast.Attribute) and t_.left.attr in ('real', 'imag'):
                        parts.add((norm(t_.left.value), t_.left.attr))
                bases = {b for b, a in parts}
                if len(ts) == 2 and len(bases) == 1 and {a for b, a in parts} == {'real', 'imag'}:
                    src = bases.pop()
            if src is None and len(sq) == 1 and isinstance(sq[0], ast.BinOp) and \
                    isinstance(sq[0].op, ast.Pow):
                # abs(X) ** 2
                b = sq[0].left
                if isinstance(b, ast.Call) and (dotted(b.func) or '') in ('np.abs', 'abs', 'np.absolute') \
                   and is_const(sq[0].right) and const_value(sq[0].right) == 2:
                    src = norm(b.args[0])
            ok = src is not None and len(coef_names) == 1
            shapes[nm] = (tuple(coef_names), pr.coef, src)
            why = '%s = %s * |%s|^2' % (nm, coef_names, src)
        ck.ob('R-SIB.polarisations', FAR + '|gain-form|' + nm, ok, f.loc(sn), why)
    if len(shapes) == 2:
        a, b = shapes[tv], shapes[th]
        same = a[0] == b[0] and a[1] == b[1] and a[2] != b[2]
        ck.ob('R-SIB.polarisations', FAR + '|same-normalisation', same, f.loc(sn),
              'vertical %s, horizontal %s' % (a, b))
        # the field arrays squared here are the ones handed out as e_theta / e_phi
        ck.ob('R-SIB.polarisations', FAR + '|fields-match-vm', (a[2], b[2]) == (names['e_theta'], names['e_phi']),
              f.loc(st), 'dBi from (%s, %s); V/m from (%s, %s)' % (a[2], b[2], names['e_theta'], names['e_phi']))
        # D3 literal relation
        kname = a[0][0] if a[0] else None
        kd = fl.single_def(kname, snid) if kname else None
        ok, why = False, 'normalisation constant not found'
        if kd is not None:
            pr = product_of(kd[0])
            nn, dd = pr.texts()
            g0 = m.cls('Mininec').class_attrs.get('g0')
            if g0 is not None and is_const(g0) and not nn and dd == ['self.power']:
                val = pr.coef * 2 * const_value(g0)
                ok = abs(val - 1) < 1e-4
                why = 'k9 = %r / self.power ; k9 * 2 * g0 = %.6f' % (pr.coef, val)
            else:
                why = 'k9 = %s (expected literal / self.power)' % norm(kd[0])
        ck.ob('R-LIT.k9-g0', FAR + '|k9*2*g0', ok, f.loc(sn), why)
    # both field sums carry the factor g0 (the definition may live in the helper that computes the
    # radiation integral: follow `a, b = self.helper(...)` / a cached tuple of it)
    def primary_def(nm):
        ds = [d for d in fl.def_exprs(nm, nid) if d[0] == 'assign' and
              not any(isinstance(x, ast.Name) and x.id == nm for x in ast.walk(d[1]))]
        if len(ds) == 1:
            return f, ds[0][1]
        un = [d for d in fl.def_exprs(nm, nid) if d[0] == 'unpack']
        if len(un) == 1:
            src = un[0][1]
            idx = un[0][3] if len(un[0]) > 3 else None
            calls_ = [c for c in ast.walk(src) if isinstance(c, ast.Call) and isinstance(c.func, ast.Attribute)
                      and isinstance(c.func.value, ast.Name) and c.func.value.id == 'self']
            off = 0
            if not calls_:
                # through an attribute:  self.cache = (key,) + self.helper(...)  ;  a, b = self.cache[1:]
                base = src
                while isinstance(base, ast.Subscript):
                    if isinstance(base.slice, ast.Slice) and isinstance(base.slice.lower, ast.Constant):
                        off = base.slice.lower.value
                    base = base.value
                d_ = dotted(base)
                if d_ and d_.startswith('self.'):
                    for a_ in assigns_to_attr(f, d_):
                        for c in ast.walk(a_.value):
                            if isinstance(c, ast.Call) and isinstance(c.func, ast.Attribute) and \
                               isinstance(c.func.value, ast.Name) and c.func.value.id == 'self':
                                calls_.append(c)
                                lead = a_.value.left if isinstance(a_.value, ast.BinOp) else None
                                if isinstance(lead, ast.Tuple):
                                    off -= len(lead.elts)
            if len(calls_) == 1 and idx is not None:
                g_ = m.resolve_method(f.cls.name, calls_[0].func.attr)
                if g_ is not None:
                    rets = [r_ for r_ in walk_no_nested(g_.node) if isinstance(r_, ast.Return)]
                    if len(rets) == 1 and isinstance(rets[0].value, ast.Tuple):
                        k_ = idx + off
                        if 0 <= k_ < len(rets[0].value.elts):
                            e_ = rets[0].value.elts[k_]
                            gfl_ = ctx.flow(g_)
                            if isinstance(e_, ast.Name):
                                dd = [d for d in gfl_.def_exprs(e_.id, gfl_.node_id_of(rets[0])) if d[0] == 'assign'
                                      and not any(isinstance(x, ast.Name) and x.id == e_.id for x in ast.walk(d[1]))]
                                if len(dd) == 1:
                                    return g_, dd[0][1]
                            else:
                                return g_, e_
        raise AnalysisError('definition of the field array %s not found (neither in compute_far_field nor '
                            'in a helper it unpacks from)' % nm)
    for pol, nm in names.items():
        df, de = primary_def(nm)
        if isinstance(de, ast.Name) and df is f:
            # a plain copy of a helper's result: the expression behind it
            de = fl.inline(de, nid, depth=3)
        pr = product_of(de)
        nn = [t for t, _ in pr.num]
        ok = 'self.g0' in nn and not pr.den and abs(abs(pr.coef) - 1) < 1e-12
        ck.ob('R-LIT.k9-g0', FAR + '|g0-factor|' + pol, ok, df.loc(de), '%s = %s' % (nm, norm(de)[:90]))
    # dB conversion: weak (masked) definitions of the gain array
    # (a plain copy `gain = other` - a helper's result handed back - is followed to `other`)
    gn_, at_ = gname, nid
    for _i in range(6):
        ds_ = fl.def_exprs(gn_, at_)
        if len(ds_) == 1 and ds_[0][0] == 'assign' and isinstance(ds_[0][1], ast.Name) and ds_[0][1].id in fl.rd.names:
            gn_, at_ = ds_[0][1].id, ds_[0][2]
        else:
            break
    conv = [d for d in fl.def_exprs(gn_, at_) if d[0] == 'weak']
    ck.floor('masked dB conversion stores', len(conv), 1)
    for d in conv:
        v = d[1]
        pr = product_of(v)
        ok = False
        form = norm(v)
        logs = [x for t, x in pr.num if isinstance(x, ast.Call) and (dotted(x.func) or '') in ('np.log', 'np.log10')]
        dlogs = [x for t, x in pr.den if isinstance(x, ast.Call) and (dotted(x.func) or '') == 'np.log']
        if len(logs) == 1 and dotted(logs[0].func) == 'np.log10' and pr.coef == 10 and not pr.den:
            ok = True
        elif len(logs) == 1 and dotted(logs[0].func) == 'np.log' and len(dlogs) == 1 and \
                is_const(dlogs[0].args[0]) and const_value(dlogs[0].args[0]) == 10 and pr.coef == 10 \
                and len(pr.num) == 1 and len(pr.den) == 1:
            ok = True
        ck.ob('R-LIT.k9-g0', FAR + '|dB=10log10', ok, f.loc(fl.cfg.nodes[d[2]].stmt), form)

    # ---------------------------------------------------------------- D4
    # accumulation into the field sum in every (image, azimuth) iteration (in compute_far_field or
    # in the helper it delegates the radiation integral to)
    azimuth_loops = []
    integ = find_integrator(ctx, FAR)
    ck.ob('R-EXH.accumulate', FAR + '|integrator', len(integ) == 1, f.loc(),
          'radiation integral with image loop in %s' % [g_.qual for g_ in integ])
    for g_ in integ:
        gfl_ = ctx.flow(g_)
        img_loops = [l for l in loops_in(g_.node) if isinstance(l, ast.For) and
                     norm(l.iter) == 'self.image_iter()']
        for l in img_loops:
            # the loops directly inside the image loop (not the ones nested deeper; the one-pass
            # `for __once in (0,)` wrappers that inlining an early-returning helper leaves are looked through)
            def outer_loops(stmts):
                out_ = []
                for s_ in stmts:
                    if isinstance(s_, ast.For) and isinstance(s_.target, ast.Name) and s_.target.id.startswith('__once'):
                        out_ += outer_loops(s_.body)
                    elif isinstance(s_, ast.For):
                        out_.append(s_)
                    elif isinstance(s_, (ast.If, ast.With, ast.Try)):
                        out_ += outer_loops(getattr(s_, 'body', []) + getattr(s_, 'orelse', []) + getattr(s_, 'finalbody', []))
                return out_
            inner = outer_loops(l.body)
            ck.floor('azimuth loops inside image loop', len(inner), 1)
            azimuth_loops.append((g_, gfl_, inner))
            body_ids = gfl_.cfg.loops[gfl_.cfg.node_of(l)][0]
            for il in inner:
                def is_acc(n):
                    s_ = n.stmt
                    if not (n.kind == 'stmt' and isinstance(s_, ast.AugAssign) and isinstance(s_.op, ast.Add)):
                        return False
                    bn = base_name(s_.target)
                    if bn is None or bn not in gfl_.rd.names:
                        return False
                    defs = [d for d in gfl_.def_exprs(bn, gfl_.cfg.node_of(l)) if d[0] == 'assign']
                    return bool(defs) and all(d[2] not in body_ids for d in defs)
                mn, mx = loop_reaches_on_all_paths(gfl_, il, is_acc)
                ck.ob('R-EXH.accumulate', g_.qual + '|accumulate-per-(image,azimuth)', (mn, mx) == (1, 1),
                      g_.loc(il), 'accumulations per iteration: min %s max %s' % (mn, mx))
    check_row_writers(ctx, ck)
    # ---------------------------------------------------------------- direction vectors
    # rvec = r_hat + 1j * theta_hat, vv = phi_hat: an orthonormal triad for every direction
    # (symbolic: polynomial identities in cos/sin of the two angles, sin^2 = 1 - cos^2)
    from ..poly import Poly, poly_sym, reduce_trig, cancel
    ck.rule('R-POLY.triad', 'far-field direction vectors (radial, theta, phi) are orthonormal for all angles')
    integ_f = integ[0] if integ else f
    ifl = ctx.flow(integ_f)
    exps = {}
    for s_ in walk_no_nested(integ_f.node):
        if isinstance(s_, ast.Assign) and isinstance(s_.targets[0], ast.Name) and \
           isinstance(s_.value, ast.BinOp) and isinstance(s_.value.op, ast.Pow) and \
           norm(s_.value.left) == 'np.e':
            ex = ifl.inline(s_.value.right, ifl.node_id_of(s_), depth=3)
            pr_ = product_of(ex)
            arg = [t for t, x in pr_.num]
            if len(arg) == 1 and arg[0].endswith('.angle_rad()') and not pr_.den:
                exps[s_.targets[0].id] = (pr_.coef, arg[0])
            elif len(arg) == 1 and not pr_.den and isinstance(pr_.num[0][1], ast.Call) and \
                    (dotted(pr_.num[0][1].func) or '').split('.')[-1] in ('deg_to_rad', 'deg2rad', 'radians') and \
                    len(pr_.num[0][1].args) == 1 and norm(pr_.num[0][1].args[0]).endswith('.angle_deg()'):
                # the same angle, converted from degrees in place
                exps[s_.targets[0].id] = (pr_.coef, norm(pr_.num[0][1].args[0])[:-len('.angle_deg()')] + '.angle_rad()')
            elif len(arg) == 2 and not pr_.den and 'np.pi' in arg and [a_ for a_ in arg if a_.endswith('.angle_deg()')] and \
                    abs(abs(pr_.coef) - 1 / 180) < 1e-15:
                a_ = [a_ for a_ in arg if a_.endswith('.angle_deg()')][0]
                exps[s_.targets[0].id] = (pr_.coef * 180, a_[:-len('.angle_deg()')] + '.angle_rad()')
    # names: azimuth -> (c_p, s_p), zenith -> (c_t, s_t);  e^{-j a} = cos a - j sin a
    trig = {}
    okexp = True
    for nm, (coef, arg) in exps.items():
        which = 'p' if 'azimuth' in arg else ('t' if 'zenith' in arg else None)
        if which is None or coef not in (-1j, 1j):
            okexp = False
            continue
        sgn = -1 if coef == -1j else 1
        trig[nm] = (Poly.var('c_' + which), Poly.var('s_' + which) * Poly.const(sgn))
    ck.ob('R-POLY.triad', integ_f.qual + '|phasors', okexp and len(trig) == 2, integ_f.loc(),
          'angle phasors %s' % {k: v for k, v in exps.items()})
    # every azimuth of the grid is integrated: the azimuth loop ranges over the complete azimuth phasor
    # array (not a slice, a selection or an alias that may be either)
    from ..dataflow import value_alternatives
    azi_names = {nm for nm, (coef, arg) in exps.items() if 'azimuth' in arg}
    ck.floor('azimuth loops checked for completeness', sum(len(inner) for g_, gfl_, inner in azimuth_loops if g_ is integ_f), 1)
    for g_, gfl_, inner in azimuth_loops:
        if g_ is not integ_f:
            continue
        for il in inner:
            it_ = il.iter
            if isinstance(it_, ast.Call) and isinstance(it_.func, ast.Name) and it_.func.id == 'enumerate' and len(it_.args) == 1:
                it_ = it_.args[0]
            alts = []

            def follow(e_, at_, d_=6):
                # aliases are followed back to the phasor array itself (or to whatever else they hold)
                if isinstance(e_, ast.Name) and e_.id not in azi_names and e_.id in gfl_.rd.names and d_ > 0:
                    ds_ = gfl_.def_exprs(e_.id, at_)
                    plain = [x_ for x_ in ds_ if x_[0] == 'assign' and x_[1] is not None]
                    if plain and len(plain) == len(ds_):
                        for x_ in plain:
                            follow(x_[1], x_[2], d_ - 1)
                        return
                alts.append((e_, at_))
            follow(it_, gfl_.cfg.node_of(il))
            full = bool(alts) and all(isinstance(a_, ast.Name) and a_.id in azi_names for a_, at_ in alts)
            if not full and not any(isinstance(a_, (ast.Subscript, ast.Call, ast.List, ast.Tuple, ast.IfExp)) for a_, at_ in alts):
                # the iterable is held in something this rule does not look into (a field of a record, a parameter)
                raise AnalysisError('%s: what the azimuth loop ranges over (%s) could not be traced to the azimuth phasor array'
                                    % (g_.qual, sorted({norm(a_) for a_, at_ in alts})))
            ck.ob('R-EXH.accumulate', g_.qual + '|all-azimuths', full, g_.loc(il),
                  'the azimuth loop ranges over the whole azimuth grid %s' % sorted(azi_names) if full else
                  'the azimuth loop ranges over %s: not (always) the whole azimuth grid %s - directions left out '
                  'are not integrated' % (sorted({norm(a_) for a_, at_ in alts}), sorted(azi_names)))
    mesh = [s_ for s_ in walk_no_nested(integ_f.node) if isinstance(s_, ast.Assign) and
            isinstance(s_.value, ast.Call) and (dotted(s_.value.func) or '').endswith('meshgrid') and
            all(isinstance(a_, ast.Name) and a_.id in trig for a_ in s_.value.args)]
    alias = {}
    for s_ in mesh:
        if isinstance(s_.targets[0], ast.Tuple):
            for t_, a_ in zip(s_.targets[0].elts, s_.value.args):
                alias[t_.id] = trig[a_.id]
    alias.update(trig)

    def resolve(e):
        if isinstance(e, ast.Attribute) and e.attr in ('real', 'imag') and isinstance(e.value, ast.Name) \
           and e.value.id in alias:
            return alias[e.value.id][0 if e.attr == 'real' else 1]
        return None

    def complex_parts(e):
        """(real Poly, imag Poly) of  A + 1j*B  /  A - 1j*B  /  a phasor name"""
        if isinstance(e, ast.Name) and e.id in alias:
            return alias[e.id]
        if isinstance(e, ast.BinOp) and isinstance(e.op, (ast.Add, ast.Sub)):
            sign = 1 if isinstance(e.op, ast.Add) else -1
            r_ = e.right
            pr_ = product_of(r_)
            if pr_.coef in (1j, -1j) and not pr_.den:
                im = Poly.const(1)
                for t, x in pr_.num:
                    im = im * poly_sym(x, {}, resolve)
                k_ = 1 if pr_.coef == 1j else -1
                return poly_sym(e.left, {}, resolve), im * Poly.const(sign * k_)
        return poly_sym(e, {}, resolve), Poly()
    rv = [s_ for s_ in walk_no_nested(integ_f.node) if isinstance(s_, ast.Assign) and
          isinstance(s_.targets[0], ast.Name) and isinstance(s_.value, ast.Attribute) and s_.value.attr == 'T'
          and isinstance(s_.value.value, ast.Call) and (dotted(s_.value.value.func) or '').endswith('array')
          and isinstance(s_.value.value.args[0], ast.List) and len(s_.value.value.args[0].elts) == 3
          and any(isinstance(x_, ast.Name) and x_.id in alias for x_ in ast.walk(s_.value))]
    pairs = [('c_p', 's_p'), ('c_t', 's_t')]
    if len(rv) == 1 and len(alias) >= 2:
        try:
            comps = [complex_parts(e_) for e_ in rv[0].value.value.args[0].elts]
            R = [c_[0] for c_ in comps]
            T = [c_[1] for c_ in comps]

            def dot(a_, b_):
                out = Poly()
                for x_, y_ in zip(a_, b_):
                    out = out + x_ * y_
                return reduce_trig(out, pairs)
            one = Poly.const(1)
            zero = Poly()
            tests = [('|r|^2 = 1', dot(R, R), one), ('|theta|^2 = 1', dot(T, T), one), ('r . theta = 0', dot(R, T), zero)]
            ct, st_, cp, sp = Poly.var('c_t'), Poly.var('s_t'), Poly.var('c_p'), Poly.var('s_p')
            std_r = [st_ * cp, st_ * sp, ct]
            std_t = [ct * cp, ct * sp, -st_]
            for i_, nm_ in enumerate('xyz'):
                tests.append(('r_%s = standard spherical unit vector' % nm_, cancel(R[i_]), cancel(std_r[i_])))
                tests.append(('theta_%s = standard spherical unit vector' % nm_, cancel(T[i_]), cancel(std_t[i_])))
            vvs = [s_ for s_ in walk_no_nested(f.node) if isinstance(s_, ast.Assign) and
                   isinstance(s_.value, ast.Attribute) and s_.value.attr == 'T' and
                   isinstance(s_.value.value, ast.Call) and isinstance(s_.value.value.args[0], ast.List)
                   and len(s_.value.value.args[0].elts) == 2
                   and any(isinstance(x_, ast.Name) and x_.id in alias for x_ in ast.walk(s_.value))]
            if len(vvs) == 1:
                P = [poly_sym(e_, {}, resolve) for e_ in vvs[0].value.value.args[0].elts] + [Poly()]
                tests += [('|phi|^2 = 1', dot(P, P), one), ('phi . r = 0', dot(P, R), zero),
                          ('phi . theta = 0', dot(P, T), zero)]
                # right-handed: r x theta = phi
                cx = [R[1] * T[2] - R[2] * T[1], R[2] * T[0] - R[0] * T[2], R[0] * T[1] - R[1] * T[0]]
                for i_, nm_ in enumerate('xyz'):
                    tests.append(('(r x theta)_%s = phi_%s' % (nm_, nm_), reduce_trig(cx[i_], pairs), reduce_trig(P[i_], pairs)))
            for name_, got, want_ in tests:
                ok_ = cancel(got - want_).t == {}
                ck.ob('R-POLY.triad', '%s|%s' % (integ_f.qual, name_), ok_, integ_f.loc(rv[0]),
                      '%s holds identically' % name_ if ok_ else '%s fails: left side is %s' % (name_, got))
            ck.floor('triad identities', len(tests), 3)
        except ValueError as e_:
            raise AnalysisError('direction vector literal not understood: %s' % e_)
    else:
        raise AnalysisError('direction vector literal rvec not found (%d candidates; integrator %s, phasors %s, mesh names %s)'
                            % (len(rv), integ_f.qual, sorted(trig), sorted(alias)))
    # the phase uses the radial vector (.real), the polarisation projections theta (.imag) and phi
    ph = [s_ for s_ in walk_no_nested(integ_f.node) if isinstance(s_, ast.Assign) and 'self.w * np.sum' in norm(s_.value)
          and '.point' in norm(s_.value) or (isinstance(s_, ast.Assign) and 'self.w * np.sum' in norm(s_.value))]
    okp = bool(ph) and all('.real' in norm(s_.value) and '.imag' not in norm(s_.value) for s_ in ph)
    ck.ob('R-POLY.triad', integ_f.qual + '|phase-uses-radial', okp, integ_f.loc(ph[0] if ph else None),
          'phase factors use the radial unit vector (real part of the direction literal): %d sites' % len(ph))

    # a far-field request must not depend on earlier requests: memo sites in the far-field closure
    from .C14 import run_cache_rule
    from ..cache import find_memo_sites
    prog = ctx.program
    far_cl = prog.closure([f])
    keys = {s_.key for s_ in find_memo_sites(m, ctx) if s_.func.qual in far_cl}
    ck.rule('R-CACHE.owner-only', 'memo sites in the far-field closure cache owner/key-only values')
    ck.rule('R-CACHE.no-inplace', 'values read from a cache are not updated in place')
    run_cache_rule(ctx, ck, only=keys)
    ck.info('memo_sites_in_far_field_closure', len(keys))
    # a mask taken from one column of the (vertical, horizontal, total) stack is applied to the field of that column
    ck.rule('R-SIB.polarisation-index', 'a field array masked by column k of the gain stack is the field that column was computed from')
    ff_ = ctx.flat('mininec.Mininec.compute_far_field')
    ffl_ = ctx.flow(ff_)
    stacks_ = {}
    for st_ in walk_no_nested(ff_.node):
        if isinstance(st_, ast.Assign) and len(st_.targets) == 1 and isinstance(st_.targets[0], ast.Name):
            v_ = st_.value
            while isinstance(v_, ast.Attribute) and v_.attr == 'T':
                v_ = v_.value
            if isinstance(v_, ast.Call) and (dotted(v_.func) or '').split('.')[-1] in ('array', 'stack', 'dstack') and v_.args and \
               isinstance(v_.args[0], (ast.List, ast.Tuple)) and len(v_.args[0].elts) == 3:
                cols_ = []
                for e_ in v_.args[0].elts:
                    r_ = ffl_.roots(e_, ffl_.node_id_of(st_))
                    cols_.append({x_[1] for x_ in r_ if x_[0] in ('local', 'name')} |
                                 {n_.id for n_ in ast.walk(e_) if isinstance(n_, ast.Name)})
                stacks_[st_.targets[0].id] = (st_, cols_)
    n_pi = 0
    if stacks_:
        # names derived from a stack by elementwise operations (cond = t123 > ..., floor = np.logical_not(cond))
        derived_ = {k_: k_ for k_ in stacks_}
        for _ in range(4):
            for st_ in walk_no_nested(ff_.node):
                if isinstance(st_, ast.Assign) and len(st_.targets) == 1 and isinstance(st_.targets[0], ast.Name) and \
                   st_.targets[0].id not in derived_:
                    srcs_ = {derived_[n_.id] for n_ in ast.walk(st_.value) if isinstance(n_, ast.Name) and n_.id in derived_}
                    if len(srcs_) == 1 and not any(isinstance(x_, ast.Subscript) and isinstance(x_.value, ast.Name) and x_.value.id in derived_
                                                   for x_ in ast.walk(st_.value)):
                        derived_[st_.targets[0].id] = srcs_.pop()
        # what each column is computed from, followed back to the field arrays (t1 <- h12, t2 <- x34)
        def field_roots(names_, depth=0):
            out_ = set(names_)
            for nm_ in list(names_):
                for st_ in walk_no_nested(ff_.node):
                    if isinstance(st_, ast.Assign) and len(st_.targets) == 1 and isinstance(st_.targets[0], ast.Name) and \
                       st_.targets[0].id == nm_ and depth < 3:
                        out_ |= field_roots({n_.id for n_ in ast.walk(st_.value) if isinstance(n_, ast.Name)}, depth + 1)
            return out_
        for st_ in walk_no_nested(ff_.node):
            tg_ = st_.targets[0] if isinstance(st_, ast.Assign) and len(st_.targets) == 1 else (st_.target if isinstance(st_, ast.AugAssign) else None)
            if not (isinstance(tg_, ast.Subscript) and isinstance(tg_.value, ast.Name)):
                continue
            for x_ in ast.walk(tg_.slice):
                if isinstance(x_, ast.Subscript) and isinstance(x_.value, ast.Name) and x_.value.id in derived_ and \
                   isinstance(x_.slice, ast.Tuple) and x_.slice.elts and isinstance(x_.slice.elts[-1], ast.Constant) and \
                   x_.slice.elts[-1].value in (0, 1, 2) and not isinstance(x_.slice.elts[-1].value, bool):
                    k_ = x_.slice.elts[-1].value
                    cols_ = stacks_[derived_[x_.value.id]][1]
                    fr_ = field_roots(cols_[k_])
                    others_ = set().union(*[field_roots(c_) for i_, c_ in enumerate(cols_) if i_ != k_ and i_ != 2]) - fr_
                    n_pi += 1
                    bad_ = tg_.value.id in others_ and tg_.value.id not in fr_
                    ck.ob('R-SIB.polarisation-index', '%s|%s' % (ff_.qual, norm(st_)[:50]), not bad_, ff_.loc(st_),
                          'column %d of the stack belongs to %s' % (k_, tg_.value.id) if not bad_ else
                          '`%s`: column %d of the gain stack is computed from %s, the array that is changed is %s (the field of the '
                          'other polarisation)' % (norm(st_)[:50], k_, sorted(fr_ & {'h12', 'x34'} or fr_)[:3], tg_.value.id))
    ck.info('masks_taken_from_a_column_of_the_gain_stack', n_pi)
    # the per-half weights of the far field treat both halves of a grounded pulse alike
    ck.rule('R-SYM.half-weights', 'a store into the per-half far-field weights that picks the half by a literal index is made for both halves')
    from ._sym import check_half_weight_symmetry
    # (no floor: a far field that builds its weights with np.where has no such array; the positive example of the
    # catalogue shows on every thorough run that the rule fires on today's layout)
    ck.info('per_half_weight_arrays_in_the_far_field', check_half_weight_symmetry(ctx, ck))
    ck.undecided += ['agreement with the radiation integral (1e-4 / 2 %)', '360-degree periodicity',
                     'zenith gain independent of azimuth']
