M = 'mininec.Mininec.'
MUTANTS = [
    ('load overwrites diagonal', [(M + 'compute_impedance_matrix_loads', "self.Z [j][j] += -f2 * l.impedance (self.f, pulse) * 1j", "self.Z [j][j] = self.Z [j][j] * 0 - f2 * l.impedance (self.f, pulse) * 1j")], ['diagonal', 'weight']),
    ('load on wrong column', [(M + 'compute_impedance_matrix_loads', "self.Z [j][j] +=", "self.Z [j][j - 1] +=")], ['diagonal']),
    ('load weight without j rotation', [(M + 'compute_impedance_matrix_loads', "l.impedance (self.f, pulse) * 1j", "l.impedance (self.f, pulse)")], ['weight']),
    ('load weight sign', [(M + 'compute_impedance_matrix_loads', "+= -f2 * l.impedance", "+= f2 * l.impedance")], ['weight']),
    ('load not doubled on ground', [(M + 'compute_impedance_matrix_loads', "                    f2 *= 2\n", "                    pass\n")], ['weight']),
    ('load doubled when only end 1 grounded', [(M + 'compute_impedance_matrix_loads', "if pulse.ground.any () and self.media is not None:", "if pulse.ground [0] and self.media is not None:")], ['weight']),
    ('only first pulse of a load', [(M + 'compute_impedance_matrix_loads', "for pulse in l.pulses:", "for pulse in l.pulses [:1]:")], ['diagonal']),
    ('load impedance at fixed frequency', [(M + 'compute_impedance_matrix_loads', "l.impedance (self.f, pulse)", "l.impedance (7.0, pulse)")], ['weight', 'payload']),
    ('trap coefficients swapped', [('mininec.Trap_Load.__init__', "a = (1, R*C, L*C), b = (R, L)", "a = (R, L), b = (1, R*C, L*C)")], ['POLY']),
    ('trap L and R mixed', [('mininec.Trap_Load.__init__', "a = (1, R*C, L*C)", "a = (1, L*C, R*C)")], ['POLY']),
    ('rlc with C: missing L term', [('mininec.Series_RLC_Load.__init__', "b = np.array ([1.0, r * self.c, l * self.c])", "b = np.array ([1.0, r * self.c, l])")], ['POLY']),
    ('rlc without C: swapped', [('mininec.Series_RLC_Load.__init__', "b = np.array ([r, l])", "b = np.array ([l, r])")], ['POLY']),
    ('laplace s without 2 pi', [('mininec.Laplace_Load.impedance', "w = 2 * np.pi * f * 1e6", "w = f * 1e6")], ['POLY']),
    ('laplace ratio inverted', [('mininec.Laplace_Load.impedance', "return u / d", "return d / u")], ['POLY']),
    ('conductivity squared', [('mininec.Skin_Effect_Load.__init__', "self.conductivity = 1 / self.resistivity", "self.conductivity = 1 / self.resistivity ** 2")], ['skin']),
    ('attach all skips junction pulses', [(M + 'register_load', "                for geobj in self.geo:\n                    for p in geobj.pulse_iter ():", "                for geobj in self.geo:\n                    for p in geobj.pulse_iter (False):")], ['attach']),
    ('load registered twice', [(M + 'register_load', "            load.add_pulse (self.pulses [p])\n            # Avoid adding same load several times\n            if load.n is None:\n                load.n = len (self.loads)\n                self.loads.append (load)", "            load.add_pulse (self.pulses [p])\n            load.n = len (self.loads)\n            self.loads.append (load)")], ['attach']),
    ('impedance load class loses as_basic_input', [('mininec.Impedance_Load.as_basic_input', "def as_basic_input (self, args, is_s = False):", "def as_basic_input (self, is_s = False):")], ['IFACE']),
    ('zint unkeyed', [('mininec.Skin_Effect_Load.impedance', "if w.zint is None or w.zint [0] != f:", "if w.zint is None:")], ['CACHE']),
]
REFACTORS = [
    ('diagonal via tuple index', [(M + 'compute_impedance_matrix_loads', "self.Z [j][j] +=", "self.Z [j, j] +=")]),
    ('weight factor reordered', [(M + 'compute_impedance_matrix_loads', "self.Z [j][j] += -f2 * l.impedance (self.f, pulse) * 1j", "self.Z [j][j] += -1j * l.impedance (self.f, pulse) * f2")]),
    ('trap coefficients as lists', [('mininec.Trap_Load.__init__', "a = (1, R*C, L*C), b = (R, L)", "a = [1, C*R, C*L], b = [R, L]")]),
]
