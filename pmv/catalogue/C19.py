MUTANTS = [
    ('magnitude with %d', [('mininec.Excitation.as_mininec_short', "r.append ('%2d ,%s ,%s' % ((self.idx + 1,) + mp))", "r.append ('%2d ,%2d ,%s' % ((self.idx + 1, self.magnitude) + mp [1:]))")], ['int-conversion']),
    ('radials count from float', [('mininec.Medium.as_mininec', "                % self.nradials\n", "                % (self.radius / 0.001)\n")], ['int-conversion']),
    ('laplace degree as float', [('mininec.Laplace_Load.as_mininec', "% (pulse.idx + 1, self.degree)", "% (pulse.idx + 1, self.degree / 1)")], ['int-conversion']),
    ('current magnitude of other value', [('mininec.Mininec.currents_as_mininec', "((k + 1, c.real, c.imag, np.abs (c), a), use_e = True)", "((k + 1, c.real, c.imag, np.abs (self.current [k - 1]), a), use_e = True)")], ['same-complex']),
    ('near field phase of conjugate source', [('mininec.Mininec.near_field_e_as_mininec', "                a   = np.angle (value)\n", "                a   = np.angle (v [0])\n")], ['same-complex']),
    ('far V/m phase from other polarisation', [('mininec.Far_Field_Pattern.abs_gain_as_mininec', "e_p_ang = np.angle (self.e_phi)   / np.pi * 180", "e_p_ang = np.angle (self.e_theta) / np.pi * 180")], ['same-complex']),
    ('geometry rows skip junction pulses', [('mininec.Mininec.wires_as_mininec', "            for p in geobj.pulse_iter ():\n                r.append (p.as_mininec ())", "            for p in geobj.pulse_iter ():\n                if p.geo [0] is not p.geo [1]:\n                    continue\n                r.append (p.as_mininec ())")], ['rows']),
    ('source data only first', [('mininec.Mininec.source_data_as_mininec', "for s in self.sources:", "for s in self.sources [:1]:")], ['rows']),
    ('load lines skip zero loads', [('mininec._Load.as_mininec', "            imp = self.impedance (parent.f, pulse)\n", "            imp = self.impedance (parent.f, pulse)\n            if not imp:\n                continue\n")], ['rows']),
    ('report without load section', [('mininec.Mininec.as_mininec', "        r.append (self.loads_as_mininec ())\n", "")], ['rows', 'section']),
    ('truncate integers too', [('util.format_float', "            if '.' in s:\n                s = s [:9]", "            s = s [:9]\n            if '.' in s:")], ['truncate-guard']),
    ('new low precision column', [('mininec.Excitation.as_mininec', "                r.append \\\n            ( '%sPOWER = %s  WATTS'", "                r.append \\\n            ( '%sPOWER = %s  WATTS'")], []),
]
MUTANTS = [m_ for m_ in MUTANTS if m_[2]]
MUTANTS += [
    ('load count counts loads not pulses', [('mininec.Mininec.loads_as_mininec', "            n += len (l.pulses)", "            n += 1")], ['count']),
    ('source count off by one', [('mininec.Mininec.sources_as_mininec', "len (self.sources))", "len (self.sources) - 1)")], ['count']),
    ('media table skips the first medium', [('mininec.Mininec.environment_as_mininec', "for n, m in enumerate (self.media):", "for n, m in enumerate (self.media [1:]):")], ['for self']),
    ('source block prints the total power', [('mininec.Excitation.as_mininec', "format_float ([self.power], 1) [0]", "format_float ([self.parent.power], 1) [0]")], ['labelled-value']),
    ('source block: current line prints the voltage', [('mininec.Excitation.as_mininec', "format_float ([self.current.real], 1) [0]", "format_float ([self.voltage.real], 1) [0]")], ['labelled-value']),
    ('source block: impedance parts swapped', [('mininec.Excitation.as_mininec', "              , format_float ([self.impedance.real], use_e = True) [0]\n              , format_float ([self.impedance.imag], use_e = True) [0]", "              , format_float ([self.impedance.imag], use_e = True) [0]\n              , format_float ([self.impedance.real], use_e = True) [0]")], ['labelled-value']),
    ('load writer called twice', [('mininec.Mininec.loads_as_mininec', "            r.append (l.as_mininec (self))", "            r.append (l.as_mininec (self))\n            r.append (l.as_mininec (self))")], ['for self']),
    ('load lines memoised per object', [('mininec._Load.as_mininec', "            imp = self.impedance (parent.f, pulse)", "            if pulse.geobj.n not in zc:\n                zc [pulse.geobj.n] = self.impedance (parent.f, pulse)\n            imp = zc [pulse.geobj.n]"), ('mininec._Load.as_mininec', "        r = []\n", "        r = []\n        zc = {}\n")], ['local-memo']),
]
REFACTORS = [
    ('magnitude via abs builtin', [('mininec.Mininec.currents_as_mininec', "((k + 1, c.real, c.imag, np.abs (c), a), use_e = True)", "((k + 1, c.real, c.imag, abs (c), a), use_e = True)")]),
]
