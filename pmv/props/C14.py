"""C14  Results depend only on the inputs: no history, no run-to-run variation.

Decided:
 D1 R-CACHE   every memo site of the package caches a value that depends only on its owner,
              constants and its cache key; the geometry caches of Pulse_Container / Pulse have no
              volatile solver state (frequency constants, Z, rhs, current, power, fields) in the
              closure of the cached computation.
 D2 R-FRESH   result attributes are plainly assigned by their entry point before any in-place
              update; `compute` runs fill -> loads -> rhs -> solve -> power in this order and is
              the only caller of the load accumulation; the frequency setter derives all wavelength
              constants and its resets name attributes that exist.
 D3 R-ORDER   sweep loop of main: set frequency -> compute -> fields -> print, on every path.
 D4 R-DET     no iteration over a set with an order-sensitive body and no clock / random / id /
              environment read anywhere reachable from main or the writers, unless guarded by a
              flag that is off by default.
Not decided: bit-for-bit floating-point equality (BLAS).
"""
import ast
from ..model import AnalysisError, walk_no_nested, norm, dotted, parent, enclosing_stmt
from ..cache import find_memo_sites, hazards, inplace_on_cached
from ..rules import (assigns_to_attr, first_touch_is_plain_assign, forbidden_effects,
                     describe_path, loops_in, calls_in)
from ..resolve import atoms, is_kind

# memo-shaped sites that are not caches (one line of reason each)
NOT_A_CACHE = {
    'mininec.Mininec.register_load|<obj>.n':
        'registration number of a load (first attachment order), assigned once; not a cached value',
}
SOLVE_ORDER = ['compute_impedance_matrix', 'compute_impedance_matrix_loads', 'compute_rhs',
               'compute_currents']
WRITER_ENTRIES = ['mininec.Mininec.as_mininec', 'mininec.Mininec.as_cmdline',
                  'mininec.Mininec.as_basic_input', 'mininec.Mininec.frq_independent_as_mininec',
                  'mininec.Mininec.frq_dependent_as_mininec', 'mininec.main']
NONDET_CALLS = ('time.time', 'time.perf_counter', 'time.monotonic', 'time.ctime', 'datetime.now',
                'datetime.utcnow', 'datetime.today', 'random.', 'np.random.', 'os.getpid',
                'os.urandom', 'uuid.', 'id', 'hash', 'os.environ', 'os.getenv', 'os.listdir',
                'glob.')


def volatile_attrs(ctx):
    """Mininec attributes (re)assigned by the frequency setter or a compute entry point"""
    m = ctx.model
    out = set()
    srcs = ['mininec.Mininec.f@setter', 'mininec.Mininec.compute', 'mininec.Mininec.compute_currents',
            'mininec.Mininec.compute_rhs', 'mininec.Mininec.compute_impedance_matrix',
            'mininec.Mininec.compute_far_field', 'mininec.Mininec.compute_near_field']
    for q in srcs:
        f = m.func(q)
        for n in walk_no_nested(f.node):
            if isinstance(n, ast.Attribute) and isinstance(n.ctx, ast.Store) and \
               isinstance(n.value, ast.Name) and n.value.id == 'self':
                out.add(n.attr)
    return out


def is_first_seen_idiom(ctx, site):
    """`o.a = None` ... for x in xs: if o.a is None: o.a = f(x)`: the attribute is reset by the same call
    before the guard on every path, so nothing survives from an earlier call - the value of the first
    element, not a cache"""
    if site.kind != 'attr-none' or site.guard is None:
        return False
    fl = ctx.flow(site.func)
    gid = fl.cfg.node_of(site.guard)
    if gid is None:
        return False
    resets = set()
    for st in walk_no_nested(site.func.node):
        if isinstance(st, ast.Assign) and isinstance(st.value, ast.Constant) and st.value.value is None and \
           any(isinstance(t, ast.Attribute) and t.attr == site.attr and norm(t.value) == site.owner for t in st.targets):
            nid = fl.node_id_of(st)
            if nid is not None and nid != gid:
                resets.add(nid)
    # the reset lies outside the guarded loop and every path to the guard passes it
    inside = set()
    for hid, (body_ids, after) in fl.cfg.loops.items():
        if gid in body_ids:
            inside |= body_ids
    resets -= inside
    return bool(resets) and fl.cfg.must_pass(gid, resets)


def run_cache_rule(ctx, ck, only=None, rule='R-CACHE.owner-only', within=None):
    """R-CACHE over all memo sites (or those whose key is in `only`, or that live in one of the functions `within`)"""
    sites = find_memo_sites(ctx.model, ctx)
    n = 0
    seen = {}
    for s in sites:
        key = s.key
        if within is not None:
            if s.func.qual not in within:
                continue
        elif only is not None and key not in only and (s.func.qual, s.attr) not in only and ('*', s.attr) not in only:
            continue        # (`only` names sites by key or by (function, attribute) - whatever object holds it)
        if is_registration_idiom(s) or is_first_seen_idiom(ctx, s):
            continue
        c = seen.get(key, 0)
        seen[key] = c + 1
        k2 = key if c == 0 else '%s#%d' % (key, c)
        bad, roots = hazards(ctx, s)
        ck.ob(rule, k2, not bad, s.func.loc(s.store),
              'cached value depends on %s (not owner %s, not a key %s)' % (bad, s.owner, sorted(s.keys))
              if bad else '%s cache of %s depends only on owner/key' % (s.kind, s.owner))
        n += 1
        # a value cached on self that is computed from solver state (currents, matrix, power ...) is stale as
        # soon as that state is recomputed: every function that assigns the state must drop the cache too
        if s.kind in ('attr-none', 'getattr-none') and s.owner == 'self' and s.func.cls is not None:
            vol_ = volatile_attrs(ctx) - {s.attr}
            deps = sorted({x[1].split('.')[1] for x in roots if x[0] == 'attr' and x[1].startswith('self.') and
                           x[1].count('.') >= 1 and x[1].split('.')[1] in vol_})
            prog_ = ctx.program
            for d_ in deps:
                writers = sorted({e.func.qual for q_, es in prog_.effects.items() for e in es
                                  if e.attr == d_ and e.mode not in ('read',) and e.cls in (s.func.cls.name, '?')
                                  and e.func.name != '__init__'})
                for w_ in writers:
                    wf = ctx.model.funcs.get(w_)
                    if wf is None:
                        continue
                    from ..rules import self_closure
                    resets = any(isinstance(n_, ast.Assign) and isinstance(n_.value, ast.Constant) and n_.value.value is None and
                                 any(isinstance(t_, ast.Attribute) and t_.attr == s.attr for t_ in n_.targets)
                                 for h_ in self_closure(ctx, wf) for n_ in ast.walk(h_.node))
                    ck.ob('R-CACHE.invalidate', '%s|%s<-%s' % (k2, d_, w_), resets, wf.loc(),
                          '%s assigns self.%s and drops the cached self.%s' % (w_, d_, s.attr) if resets else
                          '%s assigns self.%s, from which the cached self.%s is computed, without resetting the cache: '
                          'the next reader gets the value of the previous solution' % (w_, d_, s.attr))
        mut = inplace_on_cached(ctx, s)
        if mut or s.kind in ('attr-none', 'dict-key', 'getattr-none'):
            ck.ob('R-CACHE.no-inplace', k2, not mut, s.func.loc(mut[0] if mut else s.store),
                  'a local bound to the cached value is updated in place (%s): the cache is corrupted for '
                  'the next request' % norm(mut[0])[:50] if mut else 'cached value is not updated in place')
    return sites, n


def is_registration_idiom(site):
    """`if o.n is None: o.n = len(X); X.append(o)`: numbering an object when it is first added to a
    list (a registration index), not a cached computation"""
    if site.kind == 'dict-key':
        # `if key not in reg: reg[key] = (n, self)`: an object entering itself into a registry under a key (the
        # end-point dictionary), or copying an existing entry to a second key - not a cached computation
        v = site.value
        if isinstance(v, ast.Tuple) and any(isinstance(x_, ast.Name) and x_.id == 'self' for x_ in v.elts):
            return True
        if isinstance(v, ast.Subscript) and isinstance(v.value, ast.Attribute) and v.value.attr == site.attr and \
           norm(v.value.value) == site.owner:
            return True
        return False
    if site.kind != 'attr-none' or site.guard is None:
        return False
    v = site.value
    # `if o.tag is None: counter += 1; o.tag = counter`: handing out the next number of a running
    # counter to an object that has none (numbering, decided by C17), not a cached computation
    if isinstance(v, ast.Call) and isinstance(v.func, ast.Name) and v.func.id == 'next' and len(v.args) == 1 and \
       isinstance(v.args[0], ast.Name):
        cn = v.args[0].id
        defs = [s_ for s_ in ast.walk(site.func.node) if isinstance(s_, ast.Assign) and
                any(isinstance(t_, ast.Name) and t_.id == cn for t_ in s_.targets)]
        if defs and all(isinstance(s_.value, ast.Call) and (dotted(s_.value.func) or '') in ('count', 'itertools.count')
                        for s_ in defs):
            return True         # `if o.tag is None: o.tag = next(counter)`: the same numbering with itertools.count
    if isinstance(v, ast.Name) and any(isinstance(st, ast.AugAssign) and isinstance(st.target, ast.Name) and
                                        st.target.id == v.id and isinstance(st.op, ast.Add) and
                                        isinstance(st.value, ast.Constant) and st.value.value == 1
                                        for st in site.guarded):
        return True
    if not (isinstance(v, ast.Call) and isinstance(v.func, ast.Name) and v.func.id == 'len' and len(v.args) == 1):
        return False
    lst = norm(v.args[0])
    body = site.guarded
    for st in body:
        if isinstance(st, ast.Expr) and isinstance(st.value, ast.Call) and \
           isinstance(st.value.func, ast.Attribute) and st.value.func.attr == 'append' and \
           norm(st.value.func.value) == lst and [norm(a) for a in st.value.args] == [site.owner]:
            return True
    return False


def is_set_typed(prog, expr, env, f):
    t = prog.type_of(expr, env, f)
    ats = atoms(t)
    return any(a[0] == 'set' for a in ats)


def order_sensitive_body(prog, loop, env, f):
    """statements in the loop body whose effect depends on iteration order"""
    out = []
    body = loop.body if isinstance(loop, ast.For) else [loop]
    for st in body:
        for n in [st] + list(walk_no_nested(st)):
            if isinstance(n, ast.Call) and isinstance(n.func, ast.Attribute):
                if n.func.attr in ('append', 'extend', 'insert', 'write', 'writelines'):
                    out.append(n)
                elif n.func.attr in ('add', 'update', 'discard') and not is_set_typed(prog, n.func.value, env, f):
                    rt = prog.type_of(n.func.value, env, f)
                    if not any(a[0] in ('set', 'dict') for a in atoms(rt)):
                        out.append(n)
            elif isinstance(n, ast.Call) and isinstance(n.func, ast.Name) and n.func.id == 'print':
                out.append(n)
            elif isinstance(n, (ast.Yield, ast.YieldFrom)):
                out.append(n)
            elif isinstance(n, ast.AugAssign) and not isinstance(n.target, ast.Subscript):
                # string / list building or float accumulation (order changes rounding)
                out.append(n)
            elif isinstance(n, (ast.Break, ast.Return)):
                out.append(n)
    return out


def run_det_rule(ctx, ck, rule_set='R-DET.set-order', rule_src='R-DET.no-ambient'):
    prog = ctx.program
    m = ctx.model
    ents = [m.func(q) for q in WRITER_ENTRIES]
    seen = prog.closure(ents)
    ck.info('functions_reachable_from_main_and_writers', len(seen))
    n_sets = 0
    n_loops = 0
    for q in sorted(seen):
        f = m.funcs[q]
        env = prog.env[q]
        for n in walk_no_nested(f.node):
            loops = []
            if isinstance(n, ast.For):
                loops.append((n.iter, n))
            elif isinstance(n, (ast.ListComp, ast.GeneratorExp)):
                for g in n.generators:
                    loops.append((g.iter, n))
            for it, node in loops:
                n_loops += 1
                if not is_set_typed(prog, it, env, f):
                    continue
                n_sets += 1
                if isinstance(node, ast.For):
                    sens = order_sensitive_body(prog, node, env, f)
                else:
                    # a list / generator built from a set is ordered by the set unless consumed
                    # by an order-insensitive reducer
                    p = parent(node)
                    sens = [node]
                    if isinstance(p, ast.Call) and isinstance(p.func, ast.Name) and \
                       p.func.id in ('sorted', 'set', 'frozenset', 'min', 'max', 'any', 'all', 'len'):
                        sens = []
                key = '%s|for %s in <set %s>' % (q, norm(node.target) if isinstance(node, ast.For) else '_',
                                                 norm(it))
                ck.ob(rule_set, key, not sens, f.loc(node),
                      'iterates the set %s and %s in iteration order' % (
                          norm(it), norm(sens[0])[:60]) if sens else
                      'iteration over set %s has an order-insensitive body' % norm(it))
        # ambient non-determinism
        for n in walk_no_nested(f.node):
            if isinstance(n, ast.Call):
                d = dotted(n.func) or ''
                hit = None
                for pat in NONDET_CALLS:
                    if (pat.endswith('.') and d.startswith(pat)) or d == pat or \
                       (not pat.endswith('.') and '.' in pat and d.endswith('.' + pat)):
                        hit = pat
                if hit is None:
                    continue
                guard = off_by_default_guard(ctx, f, n)
                ck.ob(rule_src, '%s|%s' % (q, d), guard is not None, f.loc(n),
                      'call of %s guarded by `%s` (off by default)' % (d, guard) if guard else
                      'call of %s on an unguarded path of a reachable function' % d)
    ck.info('loops_inspected', n_loops)
    ck.info('set_iterations_found', n_sets)
    return n_sets


def off_by_default_guard(ctx, f, node, depth=0):
    """text of an enclosing `if self.<flag>:` whose flag is initialised False and never set True; a helper that is
    called only from such guarded places is guarded by them"""
    g_ = _local_guard(ctx, f, node)
    if g_ is not None or depth >= 3:
        return g_
    sites = [(ctx.model.funcs[q], e.node) for q, es in ctx.program.edges.items() for e in es
             if e.callee.qual == f.qual and q in ctx.model.funcs]
    if not sites:
        return None
    gs = [off_by_default_guard(ctx, cf, cn, depth + 1) if cn is not None else None for cf, cn in sites]
    if all(x is not None for x in gs):
        return gs[0]
    return None


def _local_guard(ctx, f, node):
    m = ctx.model
    p = parent(node)
    child = node
    while p is not None and p is not f.node:
        if isinstance(p, ast.If) and any(child is x or _contains(x, child) for x in p.body):
            t = p.test
            if isinstance(t, ast.Attribute) and isinstance(t.value, ast.Name) and t.value.id == 'self':
                flag = t.attr
                vals = []
                for g in m.all_funcs():
                    for a in walk_no_nested(g.node):
                        if isinstance(a, ast.Assign):
                            for tg in a.targets:
                                if isinstance(tg, ast.Attribute) and tg.attr == flag:
                                    vals.append(a.value)
                if vals and all(isinstance(v, ast.Constant) and v.value is False for v in vals):
                    return norm(t)
        child = p
        p = parent(p)
    return None


def _contains(a, b):
    for x in ast.walk(a):
        if x is b:
            return True
    return False


def check_f_setter(ctx, ck, rule='R-FRESH.setter', with_resets=True):
    prog = ctx.program
    m = ctx.model
    # frequency setter
    # on the symbolic walk of the setter (tables of (name, factor) rows with setattr, helpers that do the
    # resets looked through): every attribute of self it stores, as a closed expression of the new frequency
    from ..symx import SymExec
    st = m.func('mininec.Mininec.f@setter')
    fparam = st.params[1] if len(st.params) > 1 else 'frq'
    spaths = [p_ for p_ in SymExec(ctx, st, bind_loops=True, effects=True, depth=3, max_paths=500).run() if p_.end != 'raise']
    if len(spaths) != 1:
        raise AnalysisError('%s: %d paths through the frequency setter' % (st.qual, len(spaths)))
    derived = {}
    resets = []
    for ev in spaths[0].events:
        if ev[0] != 'store' or not ev[1].startswith('self.') or '[' in ev[1] or ev[1].count('.') != 1:
            continue
        a_ = ev[1][len('self.'):]
        if isinstance(ev[2], ast.Constant) and ev[2].value is None:
            resets.append((a_, ev[3]))
        else:
            derived[a_] = (ev[2], ev[3])
    ck.floor('wavelength constants derived in the f setter', len(derived), 5)
    freq_attrs = set(derived)
    for a, (val_, n) in sorted(derived.items()):
        ext = sorted({norm(x_) for x_ in ast.walk(val_) if isinstance(x_, ast.Attribute) and isinstance(x_.value, ast.Name)
                      and x_.value.id == 'self' and x_.attr not in freq_attrs | {'f', '_f'}})
        ext += sorted({x_.id for x_ in ast.walk(val_) if isinstance(x_, ast.Name) and isinstance(x_.ctx, ast.Load) and
                       x_.id not in (fparam, 'self', 'np', 'math', 'numpy') and x_.id in st.all_params})
        ck.ob(rule, '%s|%s' % (st.qual, a), not ext, st.loc(n) if n is not None else st.loc(),
              'self.%s derives from the frequency only' % a if not ext else
              'self.%s depends on %s' % (a, ext))
    # single writer of the frequency constants
    for a in sorted(freq_attrs):
        writers = sorted({e.func.qual for q, es in prog.effects.items() for e in es
                          if e.cls == 'Mininec' and e.attr == a and e.mode != 'read'})
        # (the setter itself, or private helpers that nothing but the setter calls)
        only_setter = {st.qual}
        grown = True
        while grown:
            grown = False
            for w_ in writers:
                if w_ in only_setter:
                    continue
                callers = {q for q, es in prog.edges.items() for e in es if e.callee.qual == w_}
                if callers and callers <= only_setter and w_.split('.')[-1].startswith('_'):
                    only_setter.add(w_)
                    grown = True
        ck.ob(rule, 'single-writer|%s' % a, bool(writers) and set(writers) <= only_setter, st.loc(),
              'writers of Mininec.%s: %s' % (a, writers))
    # resets must name attributes that some other function reads or writes
    for a, n in (resets if with_resets else []):
        users = sorted({e.func.qual for q, es in prog.effects.items() for e in es
                        if e.attr == a and e.func.qual != st.qual})
        ck.ob(rule, '%s|reset %s' % (st.qual, a), bool(users), st.loc(n),
              'reset of self.%s, which is used by %d other functions' % (a, len(users)) if users else
              'the frequency setter resets self.%s, an attribute nothing else reads or writes '
              '(stale results of the intended attribute survive a frequency change)' % a)
    ck.floor('resets in the f setter', len(resets), 2)
    # anything else the model keeps that is computed from the frequency must be recomputed when the frequency
    # changes: it is stored by the setter (or something it calls) or by a per-solution entry point, not by code
    # that only runs when the model is built
    if not with_resets:
        return          # (C05 shares the wavelength clauses only)
    frule = 'R-EFFECT.frequency-state'
    ck.rule(frule, 'state derived from the frequency is stored where every frequency change / every solve recomputes it')
    cls = m.classes['Mininec']
    entries = [g_ for nm_, g_ in cls.methods.items() if nm_.startswith('compute')]
    recomputed = prog.closure([st] + entries, edge_filter=lambda e: e.kind in ('call', 'getter', 'setter'))
    fkeys = {'self.f', 'self._f'} | {'self.' + a_ for a_ in freq_attrs}
    n_fs = 0
    for g_ in sorted(cls.methods.values(), key=lambda x: x.qual):
        if g_.qual == st.qual or g_.kind in ('property', 'cached_property'):
            continue
        gfl_ = ctx.flow(g_)
        for s_ in walk_no_nested(g_.node):
            if not (isinstance(s_, ast.Assign) and any(isinstance(t_, ast.Attribute) and isinstance(t_.value, ast.Name) and
                                                       t_.value.id == 'self' for t_ in s_.targets)):
                continue
            r_ = gfl_.roots(s_.value, gfl_.node_id_of(s_))
            dep = sorted(x_[1] for x_ in r_ if x_[0] == 'attr' and x_[1] in fkeys)
            if not dep:
                continue
            n_fs += 1
            for t_ in s_.targets:
                if isinstance(t_, ast.Attribute) and isinstance(t_.value, ast.Name) and t_.value.id == 'self':
                    okf = g_.qual in recomputed
                    ck.ob(frule, '%s|self.%s' % (g_.qual, t_.attr), okf, g_.loc(s_),
                          'self.%s (from %s) is stored by a function that runs at every frequency change / solve' % (t_.attr, dep)
                          if okf else
                          'self.%s is computed from %s in %s, which is reached neither from the frequency setter nor from a '
                          'compute entry point: after a frequency change the value of the old frequency is used' % (
                              t_.attr, dep, g_.qual))
    ck.info('frequency_derived_stores', n_fs)
    check_frequency_cached(ctx, ck, frule, st, fkeys)



def frequency_keys(ctx):
    """(setter, {'self.f', 'self._f', 'self.<attribute the setter derives from the frequency>', ...})"""
    m = ctx.model
    st = m.func('mininec.Mininec.f@setter')
    keys = {'self.f', 'self._f'}
    for n in ast.walk(st.node):
        if isinstance(n, ast.Attribute) and isinstance(n.ctx, ast.Store) and isinstance(n.value, ast.Name) and n.value.id == 'self':
            p_ = parent(n)
            if isinstance(p_, (ast.Assign, ast.AugAssign)) and not (isinstance(getattr(p_, 'value', None), ast.Constant)
                                                                    and p_.value.value is None):
                keys.add('self.' + n.attr)
    return st, keys


def check_frequency_cached(ctx, ck, rule, st=None, fkeys=None):
    """a value of the model that is computed from the frequency (or from a constant the setter derives from it) and
    kept by functools.cached_property is computed once per object: after a frequency change it is the value of the
    first frequency - unless the setter drops it from the instance dictionary"""
    m = ctx.model
    if st is None:
        st, fkeys = frequency_keys(ctx)
    cls = m.classes['Mininec']
    dropped = set()
    for n in ast.walk(st.node):
        if isinstance(n, ast.Call) and isinstance(n.func, ast.Attribute) and n.func.attr == 'pop' and \
           norm(n.func.value) == 'self.__dict__' and n.args and isinstance(n.args[0], ast.Constant):
            dropped.add(n.args[0].value)
        if isinstance(n, ast.Delete):
            for t_ in n.targets:
                if isinstance(t_, ast.Subscript) and norm(t_.value) == 'self.__dict__' and isinstance(t_.slice, ast.Constant):
                    dropped.add(t_.slice.value)
                elif isinstance(t_, ast.Attribute) and isinstance(t_.value, ast.Name) and t_.value.id == 'self':
                    dropped.add(t_.attr)
        if isinstance(n, ast.Call) and isinstance(n.func, ast.Name) and n.func.id == 'delattr' and len(n.args) == 2 and \
           isinstance(n.args[1], ast.Constant):
            dropped.add(n.args[1].value)
    n_c = 0
    for g_ in sorted(cls.methods.values(), key=lambda x: x.qual):
        if g_.kind != 'cached_property':
            continue
        gfl_ = ctx.flow(g_)
        dep = set()
        for r_ in walk_no_nested(g_.node):
            if isinstance(r_, ast.Return) and r_.value is not None:
                dep |= {x_[1] for x_ in gfl_.roots(r_.value, gfl_.node_id_of(r_)) if x_[0] == 'attr' and x_[1] in fkeys}
        if not dep:
            continue
        n_c += 1
        ok = g_.name in dropped
        ck.ob(rule, '%s|cached' % g_.qual, ok, g_.loc(),
              'the cached self.%s (from %s) is dropped by the frequency setter' % (g_.name, sorted(dep)) if ok else
              'self.%s is a cached_property computed from %s: it keeps the value of the first frequency for the life of '
              'the object (the setter does not drop it)' % (g_.name, sorted(dep)))
    ck.info('frequency_dependent_cached_properties', n_c)
    return n_c


def check_solve_order(ctx, ck, rule='R-FRESH.solve-order'):
    """compute(): order of the pipeline, decided on the symbolic walk (literal loops over method-name
    tables, getattr with constant names and private helpers are resolved): on every path the four
    steps are called exactly once, in order, and self.power is stored after the solve; the loads are
    accumulated into a freshly filled matrix (shared by C14 / C01 / C08: a matrix kept across solves
    collects the loads again and again)"""
    m = ctx.model
    prog = ctx.program
    from ..symx import SymExec
    f = m.func('mininec.Mininec.compute')
    paths = [p_ for p_ in SymExec(ctx, f, bind_loops=True, private_only=True, effects=True, max_paths=2000).run() if p_.end != 'raise']
    ck.floor('paths through compute', len(paths), 1)
    seqs = set()
    pw_ok = True
    for p_ in paths:
        seq = []
        for i_, ev in enumerate(p_.events):
            if ev[0] == 'call' and isinstance(ev[1].func, ast.Attribute) and norm(ev[1].func.value) == 'self' and \
               ev[1].func.attr in SOLVE_ORDER:
                seq.append(ev[1].func.attr)
            if ev[0] == 'store' and ev[1] == 'self.power':
                seq.append('<power>')
        seqs.add(tuple(seq))
    want_seq = tuple(SOLVE_ORDER) + ('<power>',)
    for name in SOLVE_ORDER:
        counts = sorted({sq.count(name) for sq in seqs})
        ck.ob(rule, f.qual + '|' + name, counts == [1], f.loc(),
              '%s is called exactly once on every path' % name if counts == [1] else
              '%s calls of %s in compute depending on the path (expected exactly 1)' % (counts, name))
    for a_, b_ in zip(want_seq, want_seq[1:]):
        ok = all(a_ in sq and b_ in sq and sq.index(a_) < sq.index(b_) for sq in seqs) and bool(seqs)
        key = '%s|%s<%s' % (f.qual, a_, b_) if b_ != '<power>' else f.qual + '|power-after-solve'
        ck.ob(rule, key, ok, f.loc(),
              ('%s precedes %s on every path' % (a_, b_)) if b_ != '<power>' else 'self.power is computed after the currents')
    # loads are accumulated with += : exactly one caller, which first refills the matrix
    callers = [q for q, es in prog.edges.items() for e in es
               if e.callee.qual == 'mininec.Mininec.compute_impedance_matrix_loads']
    ck.ob(rule, 'compute_impedance_matrix_loads|single-caller',
          sorted(set(callers)) == ['mininec.Mininec.compute'], f.loc(),
          'callers of the load accumulation: %s' % sorted(set(callers)))


def run(ctx, ck):
    prog = ctx.program
    m = ctx.model
    ck.rule('R-CACHE.owner-only', 'cached value depends only on owner, constants and key')
    ck.rule('R-CACHE.no-inplace', 'locals aliasing a cached value are never updated in place')
    ck.rule('R-CACHE.invalidate', 'a cache computed from solver state is dropped by every function that assigns that state')
    ck.rule('R-CACHE.geometry-only', 'geometry caches have no volatile solver state in their closure')
    ck.rule('R-FRESH.assign-before-update', 'result attribute plainly assigned before in-place update')
    ck.rule('R-FRESH.solve-order', 'compute(): fill -> loads -> rhs -> solve -> power; loads added once')
    ck.rule('R-FRESH.setter', 'f setter derives all wavelength constants; resets name real attributes')
    ck.rule('R-ORDER.sweep', 'sweep loop: set f -> compute -> fields -> print on every path')
    ck.rule('R-DET.set-order', 'no order-sensitive iteration over a set')
    ck.rule('R-DET.no-ambient', 'no clock/random/id/environment read unless behind an off-by-default flag')

    # a cached value is not taken while what it is computed from is still being filled
    ck.rule('R-CACHE.read-while-built', 'no cached_property is read by code from which its sources are still being filled in place')
    from ..cache import cached_read_while_built
    hz_, n_cp = cached_read_while_built(ctx)
    for g_, rf_, ms_ in hz_:
        ck.ob('R-CACHE.read-while-built', '%s|%s' % (g_.qual, rf_.qual), False, rf_.loc(),
              '%s reads the cached %s while %s (reachable from it) still fills the collections it is computed from: '
              'what is added later never shows up in the cached value' % (rf_.qual, g_.qual, ms_[0]))
    ck.ob('R-CACHE.read-while-built', 'package', True, 'mininec', '%d cached properties examined' % n_cp)
    ck.floor('cached properties', n_cp, 10)
    # ---------------------------------------------------------------- D1
    sites, n = run_cache_rule(ctx, ck)
    ck.floor('memo sites', n, 26)
    vol = volatile_attrs(ctx)
    ck.info('volatile_mininec_attrs', sorted(vol))
    forbidden = {('Mininec', a) for a in vol} | {('Mininec', 'f')}
    geo_cache_funcs = sorted({s.func.qual for s in sites if s.func.module.name == 'pulse'})
    for q in geo_cache_funcs:
        f = m.func(q)
        seen = prog.closure([f])
        off = forbidden_effects(prog, seen, forbidden)
        unres = [e for qq in seen for e in prog.effects.get(qq, []) if not e.resolved and e.attr in vol]
        if unres:
            e = unres[0]
            raise AnalysisError('unresolved receiver reads volatile-named attribute .%s in %s'
                                % (e.attr, e.func.qual))
        why = 'closure of %d functions touches no volatile solver state' % len(seen)
        if off:
            e = off[0]
            why = '%s %s.%s via %s' % (e.mode, e.cls, e.attr, describe_path(prog, seen, e.func.qual))
        ck.ob('R-CACHE.geometry-only', q, not off, f.loc(), why)
    ck.floor('geometry cache functions', len(geo_cache_funcs), 20)

    # ---------------------------------------------------------------- D2
    for q, attrs in (('mininec.Mininec.compute_impedance_matrix', ['self.Z']),
                     ('mininec.Mininec.compute_near_field', ['self.e_field', 'self.h_field'])):
        f = ctx.flat(q)     # private helpers inlined
        fl = ctx.flow(f)
        for a in attrs:
            n_upd, bad, n_plain = first_touch_is_plain_assign(fl, a)
            if n_upd == 0 and n_plain == 0:
                # the result is not kept under this name (any more): nothing to judge, the anchor is gone
                raise AnalysisError('%s neither assigns nor updates %s: the result attribute moved' % (q, a))
            ck.ob('R-FRESH.assign-before-update', '%s|%s' % (q, a),
                  n_upd >= 1 and n_plain >= 1 and not bad, f.loc(bad[0] if bad else None),
                  '%d in-place updates of %s, %d not dominated by a plain assignment'
                  % (n_upd, a, len(bad)))
    for q, attr in (('mininec.Mininec.compute_rhs', 'self.rhs'),
                    ('mininec.Mininec.compute_currents', 'self.current'),
                    ('mininec.Mininec.compute_far_field', 'self.far_field'),
                    ('mininec.Mininec.compute_near_field', 'self.near_field_coord'),
                    ('mininec.Mininec.compute', 'self.power')):
        f = ctx.flat(q)     # private helpers inlined: the result may be stored by one
        fl = ctx.flow(f)
        asg = assigns_to_attr(f, attr)
        ok = len(asg) >= 1
        if not asg and not any(isinstance(x_, ast.Attribute) and norm(x_) == attr for x_ in ast.walk(f.node)):
            raise AnalysisError('%s does not mention %s: the result attribute moved' % (q, attr))
        g_ = m.resolve_method(f.cls.name, attr.split('.', 1)[1]) if f.cls is not None else None
        if not asg and g_ is not None and g_.kind == 'property':
            # not stored at all: a plain property computes the value on demand from what this call stored
            ck.ob('R-FRESH.assign-before-update', '%s|%s-always-assigned' % (q, attr), True, f.loc(),
                  '%s is a (not cached) property: derived on every read' % attr)
            continue
        # assigned on every path to the normal exit
        if ok:
            ids = {fl.node_id_of(a) for a in asg}
            ok = fl.cfg.must_pass(fl.cfg.exit.id, ids)
        ck.ob('R-FRESH.assign-before-update', '%s|%s-always-assigned' % (q, attr), ok, f.loc(),
              '%s is assigned on every path through %s' % (attr, q.split('.')[-1]))
    check_solve_order(ctx, ck)
    check_f_setter(ctx, ck)

    # ---------------------------------------------------------------- D3 sweep loop
    mainf = m.func('mininec.main')
    if not [l for l in loops_in(mainf.node) if isinstance(l, ast.For) and calls_in(l, attr='compute')]:
        mainf = ctx.flat('mininec.main')        # (the sweep may live in an output helper of main)
    mfl = ctx.flow(mainf)
    sweeps = [l for l in loops_in(mainf.node) if isinstance(l, ast.For) and
              calls_in(l, attr='compute') and
              not (isinstance(l.target, ast.Name) and l.target.id.startswith('__once'))]   # (inlining artefact)
    ck.floor('sweep loops in main', len(sweeps), 1)
    for l in sweeps:
        comp = calls_in(l, attr='compute')
        if len(comp) != 1:
            ck.ob('R-ORDER.sweep', 'main|one-compute', False, mainf.loc(l), '%d compute() calls' % len(comp))
            continue
        cnode = mfl.node_id_of(comp[0])
        recv = norm(comp[0].func.value)
        fset = [n for n in walk_no_nested(l) if isinstance(n, ast.Assign) and any(
            isinstance(t, ast.Attribute) and t.attr == 'f' and norm(t.value) == recv for t in n.targets)]
        hid = mfl.cfg.node_of(l)
        first = [b for (b, lab) in mfl.cfg.nodes[hid].succ if lab == 'iter'][0]
        ok = len(fset) == 1 and mfl.cfg.must_pass(cnode, {mfl.node_id_of(fset[0])}, start=first)
        ck.ob('R-ORDER.sweep', 'main|f-before-compute', ok, mainf.loc(comp[0]),
              'frequency is set before compute() in every iteration')
        if fset:
            r = mfl.roots(fset[0].value, mfl.node_id_of(fset[0]))
            lv = l.target.id if isinstance(l.target, ast.Name) else None
            # frequency of step k depends on k and the arguments only
            ok = all(x[0] in ('const', 'attrname', 'call', 'global') or
                     (x[0] == 'attr' and x[1].startswith('args.')) or x == ('param', 'argv')
                     for x in r)
            ck.ob('R-ORDER.sweep', 'main|f-from-arguments', ok, mainf.loc(fset[0]),
                  'frequency of a step = f(arguments, step index): roots %s' % sorted(
                      x for x in r if x[0] in ('attr', 'param'))[:6])
        for name in ('compute_near_field', 'compute_far_field'):
            for c in calls_in(l, attr=name):
                ok = mfl.cfg.must_pass(mfl.node_id_of(c), {cnode}, start=first)
                ck.ob('R-ORDER.sweep', 'main|compute-before-%s' % name, ok, mainf.loc(c),
                      '%s is preceded by compute() in the same iteration' % name)
        # nothing but the loop index is carried from one step of the sweep to the next: a local that is assigned
        # inside the loop is assigned before it is read in every iteration
        lt_ = {x_.id for x_ in ast.walk(l.target) if isinstance(x_, ast.Name)}
        body_nodes = [x_ for b_ in l.body for x_ in ast.walk(b_)]
        assigned_in = {}
        for x_ in body_nodes:
            if isinstance(x_, ast.Name) and isinstance(x_.ctx, ast.Store) and x_.id not in lt_:
                st_ = enclosing_stmt(x_)
                if isinstance(st_, (ast.Assign, ast.AugAssign, ast.AnnAssign, ast.For, ast.With)):
                    assigned_in.setdefault(x_.id, set()).add(mfl.node_id_of(st_))
        n_car = 0
        for nm_, dids in sorted(assigned_in.items()):
            dids = {d_ for d_ in dids if d_ is not None}
            if not dids:
                continue
            for x_ in body_nodes:
                if isinstance(x_, ast.Name) and isinstance(x_.ctx, ast.Load) and x_.id == nm_:
                    st_ = enclosing_stmt(x_)
                    rid = mfl.node_id_of(st_)
                    if rid is None or rid in dids and isinstance(st_, ast.AugAssign):
                        continue
                    if rid in dids and not isinstance(st_, ast.AugAssign):
                        # `x = f(x)`: reads the previous value unless another definition comes first
                        others = dids - {rid}
                        okc = bool(others) and mfl.cfg.must_pass(rid, others, start=first)
                    else:
                        okc = mfl.cfg.must_pass(rid, dids, start=first)
                    n_car += 1
                    if not okc:
                        ck.ob('R-ORDER.sweep', 'main|carried|%s' % nm_, False, mainf.loc(st_),
                              '`%s` is assigned inside the sweep loop but can be read in a step before that step has assigned '
                              'it: the value of the previous step (or of the other field request) is used' % nm_)
                        break
        ck.ob('R-ORDER.sweep', 'main|no-carried-locals', True, mainf.loc(l), '%d reads of loop-assigned locals examined' % n_car)
        prints = [c for c in calls_in(l, name='print')
                  if any(isinstance(x, ast.Attribute) and x.attr in ('as_mininec', 'frq_dependent_as_mininec')
                         for x in ast.walk(c))]
        ck.floor('report prints in sweep loop', len(prints), 2)
        fieldcalls = [mfl.node_id_of(c) for nm in ('compute_near_field', 'compute_far_field')
                      for c in calls_in(l, attr=nm)]
        for c in prints:
            pid = mfl.node_id_of(c)
            ok = mfl.cfg.must_pass(pid, {cnode}, start=first)
            # the print must not be able to precede a field computation of the same iteration
            later = [fc for fc in fieldcalls if pid in mfl.cfg.reachable_from(first, avoid={fc}) and
                     fc in mfl.cfg.reachable_from(pid, avoid={hid})]
            ck.ob('R-ORDER.sweep', 'main|print-after-fields|%s' % norm(c.args[0].func)[-30:] if c.args and
                  isinstance(c.args[0], ast.Call) else 'main|print', ok and not later, mainf.loc(c),
                  'report printed after compute() and after the field computations of the iteration')

    # ---------------------------------------------------------------- D4
    nsets = run_det_rule(ctx, ck)
    ck.info('set_iterations_inspected', nsets)
    ck.undecided += ['bit-for-bit equality of floating point results across BLAS threading',
                     'time stamps behind --timing go to stderr (nested timer function is not part '
                     'of the call graph)']
