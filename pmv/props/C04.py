"""C04  Near field equals the field of the solved currents.

Decided:
 D1 R-HALF  nf_helper / compute_near_field / psi_near_field_56: every product of per-half
            quantities is coherent, every potential is evaluated with the scale of the half whose
            geometry it is given, both terms of the vector-potential sum contain potential, sign,
            direction and ground sign of one half each and together cover both halves; scalar
            potential differences are divided by the segment length of their own half.
 D2 R-SIB   e_field / h_field are appended once per grid point, scaled by sqrt(pwr/self.power)
            (h additionally by 1/(4 pi s0)); both lists are reset at entry (R-FRESH); image
            contributions are accumulated inside the image loop with the loop sign.
Not decided: 1 % agreement with independent field evaluation, convergence to the far field,
            E/H = 376.7 (numeric).
"""
import ast
from ..model import AnalysisError, walk_no_nested, norm, dotted, parent
from ..dataflow import product_of
from ..rules import assigns_to_attr, first_touch_is_plain_assign, loop_reaches_on_all_paths, loops_in
from ._half import half_obligations

NF = 'mininec.Mininec.compute_near_field'
HELPER = 'mininec.Mininec.nf_helper'
PSI56 = 'mininec.Mininec.psi_near_field_56'


def check_nearfield_power_scaling(ctx, ck, rule='R-SIB.field-scaling'):
    f = ctx.func(NF)
    fl = ctx.flow(f)
    # appends
    apps = {}
    for n in walk_no_nested(f.node):
        if isinstance(n, ast.Call) and isinstance(n.func, ast.Attribute) and n.func.attr == 'append' \
           and dotted(n.func.value) in ('self.e_field', 'self.h_field') and n.args:
            apps.setdefault(dotted(n.func.value), []).append(n)
    for fld in ('self.e_field', 'self.h_field'):
        if len(apps.get(fld, [])) != 1:
            raise AnalysisError('%s: expected exactly one %s.append, found %d'
                                % (NF, fld, len(apps.get(fld, []))))
    facs = {}
    for fld, calls in apps.items():
        c = calls[0]
        nid = fl.node_id_of(c)
        pr = product_of(c.args[0])
        scal = None
        for t, x in pr.num:
            if isinstance(x, ast.Name):
                r = fl.roots(x, nid)
                if ('attr', 'self.power') in r:
                    scal = x
        ok = scal is not None and not pr.den and pr.coef == 1 and len(pr.num) == 2
        ck.ob(rule, '%s|%s-scaled' % (NF, fld), ok, f.loc(c), 'append(%s)' % norm(c.args[0]))
        if scal is not None:
            facs[fld] = fl.inline(scal, nid) if fld == 'self.e_field' else scal
    if len(facs) == 2:
        fe = facs['self.e_field']
        ok = isinstance(fe, ast.Call) and (dotted(fe.func) or '').endswith('sqrt') and len(fe.args) == 1
        why = 'f_e = %s' % norm(fe)
        if ok:
            p = product_of(fl.inline(fe.args[0], fl.node_id_of(apps['self.e_field'][0])))
            nn, dd = p.texts()
            ok = dd == ['self.power'] and p.coef == 1 and len(nn) == 1
            if ok:
                # numerator: pwr (defaulting to self.power)
                r = fl.roots(p.num[0][1], fl.node_id_of(apps['self.e_field'][0]))
                # an attribute of self that this function assigns stands for what it was assigned
                from ..rules import assigns_to_attr
                for x_ in list(r):
                    if x_[0] == 'attr' and x_[1].startswith('self.') and x_[1].count('.') == 1 and x_[1] != 'self.power':
                        for a_ in assigns_to_attr(f, x_[1]):
                            r |= fl.roots(a_.value, fl.node_id_of(a_))
                ok = ('param', 'pwr') in r and ('attr', 'self.power') in r
                why += ' ; numerator roots %s' % sorted(x for x in r if x[0] in ('param', 'attr'))
        ck.ob(rule, NF + '|f_e=sqrt(pwr/power)', ok, f.loc(apps['self.e_field'][0]), why)
        hn = fl.node_id_of(apps['self.h_field'][0])
        fh1 = fl.inline(facs['self.h_field'], hn, depth=1)
        p = product_of(fh1)
        # f_h = f_e / s0 / (4 pi): the E factor divided by the dipole length s0 and by 4 pi
        ok = len(p.num) == 1 and norm(fl.inline(p.num[0][1], hn)) == norm(fe) and \
            abs(p.coef - 0.25) < 1e-12 and len(p.den) == 2 and 'np.pi' in [t for t, _ in p.den]
        if ok:
            s0 = [x for t, x in p.den if t != 'np.pi'][0]
            r = fl.roots(s0, hn)
            ok = ('attr', 'self.wavelen') in r
        ck.ob(rule, NF + '|f_h=f_e/(4 pi s0)', ok, f.loc(apps['self.h_field'][0]), 'f_h = %s' % norm(fh1)[:100])
    return True


def run(ctx, ck):
    m = ctx.model
    ck.rule('R-HALF.coherent-product', 'a product never combines quantities of different halves')
    ck.rule('R-HALF.potential-half', 'psi is given the scale of the half whose geometry it integrates')
    ck.rule('R-HALF.complete-term', 'each vector-potential term = potential*sign*direction*ground-sign of one half')
    ck.rule('R-HALF.difference-length', 'scalar-potential difference / segment length of its own half')
    ck.rule('R-HALF.one-selector', 'helper selects every per-half quantity by the same parameter')
    ck.rule('R-SIB.field-scaling', 'E and H scaled by sqrt(pwr/power); H by 1/(4 pi s0)')
    ck.rule('R-FRESH.fields', 'field lists reset at entry; one append per grid point')
    ck.rule('R-EXH.image-loop', 'image loop accumulates E and H contributions with the image sign')

    cnt = half_obligations(ctx, ck, [HELPER, NF, PSI56], want_sums=(HELPER,), want_divs=(NF,),
                           sym_funcs=(PSI56,))
    ck.info('half_counts', cnt)
    # (a term reported above for lacking factors has that many products fewer: not a lost anchor)
    ck.floor('per-half products (near field)', cnt['products'] + cnt['missing_factors'], 6)
    ck.floor('potential calls (near field)', cnt['psi_calls'], 7)
    ck.floor('scalar-potential differences (near field)', cnt['divisions'], 2)

    check_nearfield_power_scaling(ctx, ck)

    f = ctx.flat(NF)        # (private helpers inlined: the image loop may live in one)
    fl = ctx.flow(f)
    for attr in ('self.e_field', 'self.h_field'):
        n_upd, bad, n_plain = first_touch_is_plain_assign(fl, attr)
        ck.ob('R-FRESH.fields', '%s|%s' % (NF, attr), n_upd >= 1 and not bad and n_plain >= 1, f.loc(),
              '%d in-place updates, %d without a dominating plain assignment' % (n_upd, len(bad)))
    # one append per grid point
    grid_loops = [l for l in loops_in(f.node) if isinstance(l, ast.For) and
                  'near_field_iter' in norm(l.iter)]
    ck.floor('grid loops', len(grid_loops), 1)
    for l in grid_loops:
        for attr in ('self.e_field', 'self.h_field'):
            def is_app(n, attr=attr):
                s = n.stmt
                return n.kind == 'stmt' and isinstance(s, ast.Expr) and isinstance(s.value, ast.Call) \
                    and isinstance(s.value.func, ast.Attribute) and s.value.func.attr == 'append' \
                    and dotted(s.value.func.value) == attr
            mn, mx = loop_reaches_on_all_paths(fl, l, is_app)
            ck.ob('R-FRESH.fields', '%s|one-append|%s' % (NF, attr), (mn, mx) == (1, 1), f.loc(l),
                  'appends per grid point: min %s max %s' % (mn, mx))
        # image loop inside
        img = [x for x in loops_in(l) if isinstance(x, ast.For) and norm(x.iter) == 'self.image_iter()']
        ck.floor('image loops in near field', len(img), 1)
        n_ok = 0        # (over all image loops of the grid point: one loop for both fields, or one per field)
        for il in img:
            k = il.target.id if isinstance(il.target, ast.Name) else None
            accs = [s for s in walk_no_nested(il) if isinstance(s, ast.AugAssign) and isinstance(s.op, ast.Add)]
            for s in accs:
                # the accumulated value carries the image sign k as a factor
                pr = product_of(s.value)
                has_k = any(isinstance(x, ast.Name) and x.id == k for t, x in pr.num)
                if not has_k:
                    # ((...) * k)[cond]
                    v = s.value
                    while isinstance(v, ast.Subscript):
                        v = v.value
                    pr = product_of(v)
                    has_k = any(isinstance(x, ast.Name) and x.id == k for t, x in pr.num)
                ck.ob('R-EXH.image-loop', '%s|image-sign|%s' % (NF, norm(s.target)), has_k, f.loc(s),
                      'accumulates %s' % norm(s.value)[:80])
                n_ok += 1
        ck.floor('accumulations in near-field image loop', n_ok, 2)
    # nothing the near field computes from the frequency is kept from an earlier call (shared with C14)
    ck.rule('R-CACHE.owner-only', 'a value memoised by the near-field code depends only on its owner / key')
    from .C14 import run_cache_rule
    from ..rules import self_closure as _sc
    nf_funcs_ = {g_.qual for q_ in (NF, HELPER, PSI56) for g_ in _sc(ctx, ctx.model.func(q_))}
    sites_, n_c = run_cache_rule(ctx, ck, rule='R-CACHE.owner-only', within=nf_funcs_)
    ck.info('memo_sites_in_the_near_field_code', n_c)
    # H = curl A by central differences of the displaced vector potentials
    ck.rule('R-POLY.curl', 'H[a] = sum eps(a,i,c) (A[+][i][c] - A[-][i][c]): every term of the curl has its permutation sign')
    from ._curl import check_curl
    from ..rules import self_closure
    ck.floor('curl terms (2 sides x 6 derivatives)', check_curl(ctx, ck, f, others=self_closure(ctx, ctx.model.func(NF))), 12)
    from ._sym import check_ground_symmetry
    ck.rule('R-SYM.ground-halves', 'statements selecting one half of the ground flags select the other too')
    nsel, nst = check_ground_symmetry(ctx, ck)
    ck.floor('statements selecting a half of the ground flags', nst, 3)
    # the image is the mirror image: positions go through kvec = (1, 1, k)
    ck.rule('R-SYM.image-mirror', 'positions are never multiplied by the scalar image index (only by the vector (1, 1, k))')
    from ._sym import check_image_mirror
    ck.floor('products with the image index', check_image_mirror(ctx, ck), 1)
    ck.undecided += ['1 % agreement with independently evaluated fields', 'convergence to far field',
                     'E/H = 376.7 ohm, transversality']
