M = 'mininec.Mininec.'
E = 'mininec.Excitation.'
MUTANTS = [
    ('power of first source only', [(M + 'compute', "sum (s.power for s in self.sources)", "self.sources [0].power")], ['total-power']),
    ('power of sources but the last', [(M + 'compute', "for s in self.sources)", "for s in self.sources [:-1])")], ['total-power']),
    ('power as sum of magnitudes', [(M + 'compute', "sum (s.power for s in self.sources)", "sum (abs (s.power) for s in self.sources)")], ['total-power']),
    ('power computed before solve', [(M + 'compute', "        self.compute_currents ()\n        # Used by far field and near field calculation\n        self.power = sum (s.power for s in self.sources)",
                                       "        self.power = sum (s.power for s in self.sources)\n        self.compute_currents ()")], ['after-solve']),
    ('k9 from requested power', [(M + 'compute_far_field', "k9   = .016678 / self.power", "k9   = .016678 / self.ff_power")], ['dbi-normalised']),
    ('near field scale without sqrt', [(M + 'compute_near_field', "f_e = np.sqrt (pwr / self.power)", "f_e = pwr / self.power")], ['field-scaling', 'f_e']),
    ('near field scale ignores solved power', [(M + 'compute_near_field', "f_e = np.sqrt (pwr / self.power)", "f_e = np.sqrt (pwr)")], ['field-scaling', 'f_e', 'scaled']),
    ('H field not scaled', [(M + 'compute_near_field', "self.h_field.append (h   * f_h)", "self.h_field.append (h / s0 / (4*np.pi))")], ['field-scaling']),
    ('power without conjugate', [(E + 'power', "np.conj (self.current)", "self.current")], ['power-formula']),
    ('power uses magnitude of product', [(E + 'power', "(0.5 * self.voltage * np.conj (self.current)).real", "abs (0.5 * self.voltage * np.conj (self.current))")], ['power-formula']),
    ('load weight not doubled on grounded pulse', [(M + 'compute_impedance_matrix_loads', "                    f2 *= 2\n", "                    pass\n")], ['weight', 'grounded']),
    ('vertical test with a tolerance', [('pulse.Pulse.is_non_vertical_grounded', "        return (   (self.ground [0] or self.ground [1])\n               and (self.segs [0].dirvec [0] or self.segs [0].dirvec [1])\n               )", "        return bool (self.ground.any () and np.hypot (self.segs [0].dirvec [0], self.segs [0].dirvec [1]) > 0.01)")], ['vertical-exact']),
    ('junction step taken along the other segment', [('mininec.Geobj.compute_connections', "            oinc = oseg.dirvec * oseg.seg_len * sgn [1]", "            oinc = other.segments [0].dirvec * other.segments [0].seg_len * sgn [1]")], ['junction-geometry']),
]
REFACTORS = [
    ('power via accumulation loop', [(M + 'compute', "        self.power = sum (s.power for s in self.sources)",
                                     "        p = 0\n        for s in self.sources:\n            p += s.power\n        self.power = p")]),
    ('power via np.sum of list', [(M + 'compute', "sum (s.power for s in self.sources)", "np.sum ([src.power for src in self.sources])")]),
    ('power formula reordered', [(E + 'power', "(0.5 * self.voltage * np.conj (self.current)).real", "np.real (np.conjugate (self.current) * self.voltage) / 2")]),
    ('vertical test by exact comparisons', [('pulse.Pulse.is_non_vertical_grounded', "        return (   (self.ground [0] or self.ground [1])\n               and (self.segs [0].dirvec [0] or self.segs [0].dirvec [1])\n               )", "        return bool (self.ground.any () and (self.segs [0].dirvec [0] != 0 or self.segs [0].dirvec [1] != 0))")]),
]
