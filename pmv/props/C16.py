"""C16  Field tables contain exactly the requested sample points.

Decided:
 D1 R-GRID  the two grid builders (Angle.angle_deg, compute_near_field) derive their N sample
            points from an integer counter (range(n) / np.arange(n) / np.linspace(.., n)) and
            compute the coordinate as start + k*step; a float-stepped np.arange(start, stop, step)
            is rejected (its length is decided by floating-point rounding of (stop-start)/step).
 D2 R-EXH   nothing filters between grid and table: near_field_iter yields every grid column, the
            field loop appends E and H once per point, the report loops write one block per
            point; the far-field angle grid is the full meshgrid of both angle lists and the row
            writers emit one row per entry.
Not decided: the documented axis order (index arithmetic on runtime shapes).
"""
import ast
from ..model import AnalysisError, walk_no_nested, norm, dotted, parent, is_const, const_value
from ..rules import loops_in, loop_reaches_on_all_paths, assigns_to_attr

NF = 'mininec.Mininec.compute_near_field'
ANG = 'mininec.Angle.angle_deg'
RANGE_FUNCS = ('np.arange', 'numpy.arange', 'range', 'np.linspace', 'numpy.linspace')


def int_kind(fl, e, at, depth=0):
    """True if e is provably integer-valued: int literal, int(...), len(...), or a local all of
    whose reaching definitions are integer-kind; arithmetic + - * of integer-kind values"""
    if depth > 5:
        return False
    if isinstance(e, ast.Constant):
        return isinstance(e.value, int) and not isinstance(e.value, bool)
    if isinstance(e, ast.Call) and isinstance(e.func, ast.Name) and e.func.id in ('int', 'len', 'round') \
       and len(e.args) == 1:
        return True
    if isinstance(e, ast.BinOp) and isinstance(e.op, (ast.Add, ast.Sub, ast.Mult, ast.FloorDiv)):
        return int_kind(fl, e.left, at, depth + 1) and int_kind(fl, e.right, at, depth + 1)
    if isinstance(e, ast.Name) and e.id in fl.rd.names:
        ds = fl.def_exprs(e.id, at)
        if not ds:
            return False
        for d in ds:
            if d[0] == 'assign':
                if not int_kind(fl, d[1], d[2], depth + 1):
                    return False
            else:
                return False
        return True
    return False


def grid_calls(func):
    out = []
    for n in ast.walk(func.node):
        if isinstance(n, ast.Call) and (dotted(n.func) or '') in RANGE_FUNCS:
            out.append(n)
    return out


def judge_range_call(fl, c, at):
    """(ok, description)"""
    d = dotted(c.func)
    nargs = len(c.args)
    if d.endswith('linspace'):
        cnt = c.args[2] if nargs >= 3 else next((k.value for k in c.keywords if k.arg == 'num'), None)
        if cnt is None:
            return False, 'np.linspace without an explicit count'
        return True, 'np.linspace with count %s' % norm(cnt)
    if nargs == 1:
        return True, '%s(%s): integer counter' % (d, norm(c.args[0]))
    # 2 or 3 arguments: every argument must be integer-kind
    ok = all(int_kind(fl, a, at) for a in c.args)
    if ok:
        return True, '%s with integer arguments' % d
    return False, ('%s(%s): the number of points is decided by floating-point rounding of '
                   '(stop - start) / step, not by the requested count'
                   % (d, ', '.join(norm(a) for a in c.args)))


def check_builder(ctx, ck, qual, count_names, within=None):
    f = ctx.func(qual)
    fl = ctx.flow(f)
    calls = grid_calls(f)
    if within is not None:
        calls = [c for c in calls if within(c)]
    n = 0
    for c in calls:
        at = fl.node_id_of(c)
        ok, why = judge_range_call(fl, c, at)
        # the counter must be the requested count
        if ok:
            src = ' '.join(norm(a) for a in c.args) + ' ' + ' '.join(norm(k.value) for k in c.keywords)
            if not any(cn in src for cn in count_names):
                r = set()
                for a in c.args:
                    r |= fl.roots(a, at)
                names = {x[1] for x in r if x[0] in ('attr', 'param', 'attrname')}
                if not any(any(cn in nm for cn in count_names) for nm in names):
                    ok, why = False, why + ' - but the counter is not the requested count %s' % (count_names,)
        ck.ob('R-GRID.count-based', '%s|%s' % (qual, dotted(c.func)), ok, f.loc(c), why)
        n += 1
    return n


def run(ctx, ck):
    m = ctx.model
    ck.rule('R-GRID.count-based', 'N requested points come from an integer counter, never from float arange')
    ck.rule('R-GRID.affine', 'coordinate = start + k * step')
    ck.rule('R-EXH.grid-to-table', 'no filter between grid and table')

    # ---------------------------------------------------------------- D1
    n1 = check_builder(ctx, ck, ANG, ('number',))
    ck.floor('range constructions in Angle.angle_deg', n1, 1)
    f = m.func(ANG)
    fl = ctx.flow(f)
    ret = [r for r in walk_no_nested(f.node) if isinstance(r, ast.Return)]
    ok, why = False, 'no single return'
    if len(ret) == 1:
        e = fl.inline(ret[0].value, fl.node_id_of(ret[0]))
        # initial + idx * inc
        ok = isinstance(e, ast.BinOp) and isinstance(e.op, ast.Add)
        if ok:
            parts = [e.left, e.right]
            start = [p for p in parts if norm(p) == 'self.initial']
            prod = [p for p in parts if isinstance(p, ast.BinOp) and isinstance(p.op, ast.Mult)]
            ok = len(start) == 1 and len(prod) == 1 and 'self.inc' in (norm(prod[0].left), norm(prod[0].right))
        why = 'returns %s' % norm(e)
    ck.ob('R-GRID.affine', ANG, ok, f.loc(), why)

    g = m.func(NF)
    gfl = ctx.flow(g)
    # the grid: what feeds self.near_field_coord (possibly built by a private helper)
    asg = assigns_to_attr(g, 'self.near_field_coord')
    if not asg:
        gp_ = m.resolve_method('Mininec', 'near_field_coord')
        if gp_ is not None and gp_.kind in ('property', 'cached_property'):
            # the grid is derived on demand by a property: judged there
            check_grid_property(ctx, ck, g, gp_)
            asg = None
    if asg is not None and len(asg) != 1:
        raise AnalysisError('compute_near_field assigns self.near_field_coord %d times' % len(asg))
    if asg is not None:
        check_grid_assignment(ctx, ck, g, gfl, asg)
    check_grid_tables(ctx, ck, g, gfl)


def check_grid_property(ctx, ck, g, gp):
    """the near-field grid as a property: count based axes from self.nf_param (stored from start, inc, nvec by
    compute_near_field) and the full Cartesian product of the three axes - by one meshgrid, or row by row as
    tile(repeat(axis, R), T) with R, T the products of the lengths of the faster / slower axes"""
    m = ctx.model
    pfl = ctx.flow(gp)
    n2 = check_builder(ctx, ck, gp.qual, ('n', 'nvec', 'nf_param', 'count'))
    ck.floor('range constructions feeding the near-field grid', n2, 1)
    rets = [r_ for r_ in walk_no_nested(gp.node) if isinstance(r_, ast.Return) and r_.value is not None]
    if len(rets) != 1:
        raise AnalysisError('%s: expected one return' % gp.qual)
    r = pfl.roots(rets[0].value, pfl.node_id_of(rets[0]))
    gfl = ctx.flow(g)
    stored = set()
    for a in assigns_to_attr(g, 'self.nf_param'):
        stored |= {x for x in gfl.roots(a.value, gfl.node_id_of(a)) if x[0] == 'param'}
    need = {('param', 'start'), ('param', 'inc'), ('param', 'nvec')}
    okr = ('attr', 'self.nf_param') in r and need <= stored
    ck.ob('R-GRID.affine', NF + '|grid-from-request', okr, gp.loc(rets[0]),
          'near_field_coord derived from nf_param = (start, inc, nvec)' if okr else
          'the grid is not derived from the requested start, inc, nvec (roots %s; nf_param from %s)' % (
              sorted(x for x in r if x[0] == 'attr')[:4], sorted(stored)))
    if gp.kind == 'cached_property':
        ck.ob('R-GRID.affine', NF + '|grid-not-cached', False, gp.loc(),
              'the grid is cached on the object although nf_param changes with every request')
    mg = [c for c in ast.walk(gp.node) if isinstance(c, ast.Call) and (dotted(c.func) or '').endswith('meshgrid')]
    if len(mg) == 1:
        ck.ob('R-GRID.affine', NF + '|meshgrid', True, gp.loc(), 'full Cartesian product of the three axes')
        return
    # row by row
    e = pfl.inline(rets[0].value, pfl.node_id_of(rets[0]), depth=1)
    arr = e.args[0] if isinstance(e, ast.Call) and (dotted(e.func) or '').endswith('array') and e.args else None
    if not isinstance(arr, (ast.List, ast.Tuple)) or len(arr.elts) != 3:
        raise AnalysisError('%s: the grid is neither one meshgrid nor an array of three rows (%s)' % (gp.qual, norm(e)[:80]))
    from ..dataflow import product_of

    def factors(x, at):
        x = pfl.inline(x, at, depth=3)
        pr = product_of(x)
        if pr.den or pr.coef != 1:
            return None
        return sorted(t for t, n_ in pr.num)

    def parse(x):
        """(axis text, R factors, T factors, note) of tile(repeat(axis, R), T)"""
        at = pfl.node_id_of(rets[0])
        if isinstance(x, ast.Call) and (dotted(x.func) or '') in ('np.tile', 'numpy.tile') and len(x.args) == 2:
            a, R, T, note = parse(x.args[0])
            f_ = factors(x.args[1], at)
            return a, R, (T + f_) if f_ is not None and T is not None else None, note
        if isinstance(x, ast.Call) and (dotted(x.func) or '') in ('np.repeat', 'numpy.repeat') and len(x.args) == 2 and not x.keywords:
            a, R, T, note = parse(x.args[0])
            f_ = factors(x.args[1], at)
            if T:
                note = note or 'the elements of an already tiled sequence are repeated: %s' % norm(x)[:70]
            return a, (R + f_) if f_ is not None and R is not None else None, T, note
        return norm(x), [], [], None
    rows = [parse(x) for x in arr.elts]
    if any(R is None or T is None for a, R, T, note in rows):
        raise AnalysisError('%s: repetition counts of the grid rows are not understood' % gp.qual)
    axes = [a for a, R, T, note in rows]
    bad = next((note for a, R, T, note in rows if note), None)
    if bad is None and len(set(axes)) != 3:
        bad = 'the three rows are not built from three different axes (%s)' % axes
    if bad is None:
        # lengths as written: len(axis) (through locals nx = len(xs))
        def ln(a):
            return 'len(%s)' % a
        ok_perm = False
        import itertools
        for perm in itertools.permutations(range(3)):
            good = True
            faster = []
            for pos, i in enumerate(perm):
                a, R, T, note = rows[i]
                slower = [ln(rows[j][0]) for j in perm[pos + 1:]]
                if sorted(R) != sorted(faster) or sorted(T) != sorted(slower):
                    good = False
                    break
                faster = faster + [ln(a)]
            ok_perm = ok_perm or good
        if not ok_perm:
            bad = 'the rows %s are not the three coordinates of the Cartesian product of the axes: each must be ' \
                  'tile(repeat(axis, product of the faster axes), product of the slower axes)' % [
                      (a, '*'.join(R) or '1', '*'.join(T) or '1') for a, R, T, note in rows]
    ck.ob('R-GRID.affine', NF + '|meshgrid', bad is None, gp.loc(rets[0]),
          'full Cartesian product of the three axes (row-wise tile / repeat)' if bad is None else bad)


def check_grid_assignment(ctx, ck, g, gfl, asg):
    m = ctx.model
    from ..model import enclosing_stmt
    from ..rules import self_closure
    builders = [g]
    for c in ast.walk(asg[0].value):
        if isinstance(c, ast.Call) and isinstance(c.func, ast.Attribute) and isinstance(c.func.value, ast.Name) \
           and c.func.value.id == 'self':
            h = m.resolve_method('Mininec', c.func.attr)
            if h is not None and h not in builders:
                builders.append(h)
    for nm in [x.id for x in ast.walk(asg[0].value) if isinstance(x, ast.Name) and x.id in gfl.rd.names]:
        for d in gfl.def_exprs(nm, gfl.node_id_of(asg[0])):
            if d[0] in ('assign', 'unpack') and d[1] is not None:
                for c in ast.walk(d[1]):
                    if isinstance(c, ast.Call) and isinstance(c.func, ast.Attribute) and \
                       isinstance(c.func.value, ast.Name) and c.func.value.id == 'self':
                        h = m.resolve_method('Mininec', c.func.attr)
                        if h is not None and h not in builders:
                            builders.append(h)
    n2 = 0
    for b in builders:
        bfl = ctx.flow(b)

        def feeds_grid(c, bfl=bfl, b=b):
            if b is not g:
                return True
            st = enclosing_stmt(c)
            v = getattr(st, 'value', None)
            if v is None:
                return False
            r_ = bfl.roots(v, bfl.node_id_of(st))
            return ('attr', 'self.nf_param') in r_ or ('param', 'nvec') in r_
        n2 += check_builder(ctx, ck, b.qual, ('n', 'nvec', 'nf_param', 'count'), within=feeds_grid)
    ck.floor('range constructions feeding the near-field grid', n2, 1)
    r = gfl.roots(asg[0].value, gfl.node_id_of(asg[0]))
    need = [('param', 'start'), ('param', 'inc'), ('param', 'nvec')]
    for _ in range(2):
        for x in list(r):
            if x[0] == 'attr' and x[1].startswith('self.') and x[1].count('.') == 1:
                for a in assigns_to_attr(g, x[1]):
                    r = r | gfl.roots(a.value, gfl.node_id_of(a))
    from ..dataflow import expand_call_roots
    r = expand_call_roots(ctx, g, r)
    for x in list(r):
        if x[0] == 'attr' and x[1].startswith('self.') and x[1].count('.') == 1:
            for a in assigns_to_attr(g, x[1]):
                r = r | gfl.roots(a.value, gfl.node_id_of(a))
    miss = [x for x in need if x not in r]
    ck.ob('R-GRID.affine', NF + '|grid-from-request', not miss, g.loc(asg[0]),
          'near_field_coord built from start, inc, nvec' if not miss else 'grid lacks roots %s' % miss)
    mg = [c for b in builders for c in ast.walk(b.node) if isinstance(c, ast.Call) and
          (dotted(c.func) or '').endswith('meshgrid') and (b is not g or c.lineno <= asg[0].end_lineno)]
    ck.ob('R-GRID.affine', NF + '|meshgrid', len(mg) == 1, g.loc(asg[0]), 'full Cartesian product of the three axes')



def check_grid_tables(ctx, ck, g, gfl):
    m = ctx.model
    # ---------------------------------------------------------------- D2
    it = m.func('mininec.Mininec.near_field_iter')
    from ..rules import yields_each_of
    src_ = yields_each_of(ctx, it)
    ck.ob('R-EXH.grid-to-table', it.qual, src_ == 'self.near_field_coord.T', it.loc(),
          'yields every grid point once' if src_ == 'self.near_field_coord.T' else
          'does not hand out every column of self.near_field_coord.T exactly once (%s)' % src_)
    grid_loops = [l for l in loops_in(g.node) if isinstance(l, ast.For) and 'near_field_iter' in norm(l.iter)]
    ck.floor('field loops over the grid', len(grid_loops), 1)
    for l in grid_loops:
        for attr in ('self.e_field', 'self.h_field'):
            def is_app(n, attr=attr):
                s = n.stmt
                return n.kind == 'stmt' and isinstance(s, ast.Expr) and isinstance(s.value, ast.Call) \
                    and isinstance(s.value.func, ast.Attribute) and s.value.func.attr == 'append' \
                    and dotted(s.value.func.value) == attr
            mn, mx = loop_reaches_on_all_paths(gfl, l, is_app)
            ck.ob('R-EXH.grid-to-table', '%s|%s' % (NF, attr), (mn, mx) == (1, 1), g.loc(l),
                  '%s.append per grid point: min %s max %s' % (attr, mn, mx))
    # the tables: on every path of the writer (private helpers, generator pipelines looked through) exactly one
    # FIELD POINT line per element of zip(<the field list>, the grid points)
    from ..symx import SymExec
    from ..lines import lines_with_loops, ranges_over
    wq_ = {g_.qual for g_ in m.all_funcs() if 'as_mininec' in g_.name and not g_.name.startswith('_')}
    for q, fld in (('mininec.Mininec.near_field_e_as_mininec', 'self.e_field'),
                   ('mininec.Mininec.near_field_h_as_mininec', 'self.h_field')):
        w = m.func(q)
        seen = set()
        bad = None
        for p_ in SymExec(ctx, w, bind_loops=True, no_expand=wq_ - {q}, max_paths=5000).run():
            if p_.end == 'raise':
                continue
            from ..lines import opaque_text
            if opaque_text(p_):
                raise AnalysisError('%s: the report text comes from %s, which is not followed' % (q, opaque_text(p_)))
            ent = [t_ for k_, t_ in p_.conds if k_ == 'loop' and ranges_over(t_, fld)]
            skp = [t_ for k_, t_ in p_.conds if k_ == 'loop-skipped' and ranges_over(t_, fld)]
            L = lines_with_loops(p_)
            pts = [(e_, lp_) for e_, lp_, st_ in L if any(isinstance(c_, ast.Constant) and isinstance(c_.value, str) and
                                                       'FIELD POINT' in c_.value for c_ in ast.walk(e_))]
            comp = [lp_ for e_, lp_ in pts if any(ranges_over(x_, fld) for x_ in lp_)]
            if skp and not ent and not comp:
                if pts:
                    bad = bad or 'a FIELD POINT line is written for an empty field list'
                continue
            if not pts and not ent and any(k_ == 'loop-skipped' for k_, t_ in p_.conds):
                continue        # an empty grid: nothing to write
            its = {x_ for e_, lp_ in pts for x_ in lp_} | set(ent)
            grid = any('near_field_iter()' in x_ or 'self.near_field_coord' in x_ for x_ in its)
            seen.add((len(pts), grid))
            if len(pts) != 1:
                bad = bad or '%d FIELD POINT lines per field vector' % len(pts)
            elif not grid:
                bad = bad or 'the FIELD POINT lines do not range over the grid points (%s)' % sorted(its)
            elif not (ent or comp):
                bad = bad or 'the FIELD POINT line is not written per element of %s' % fld
        ok = bad is None and bool(seen)
        ck.ob('R-EXH.grid-to-table', q, ok, w.loc(), 'one FIELD POINT block per (field, grid point): %s' % (bad or sorted(seen),))
    far = m.func('mininec.Mininec.compute_far_field')
    # the angle arrays handed to Far_Field_Pattern, as closed expressions of the symbolic walk: the two
    # components of one meshgrid over the degree lists of both angles
    from .C10 import far_field_creations
    import re as _re
    grids = set()
    for p_, amap in far_field_creations(ctx):
        for nm in ('azi', 'zen'):
            grids.add((nm, norm(amap[nm]) if nm in amap else '?'))
    ok = len(grids) == 2
    mg = []
    if ok:
        d_ = dict(grids)
        pat = _re.compile(r"^np\.meshgrid\((.+)\)\[(\d)\]$")
        ma, mz = pat.match(d_['azi']), pat.match(d_['zen'])
        if not (ma and mz):
            # the arrays do not come out of the walk as components of a meshgrid: nothing can be said
            raise AnalysisError('%s: the angle arrays handed to Far_Field_Pattern are not understood (azi = %s, zen = %s)'
                                % (far.qual, d_['azi'][:60], d_['zen'][:60]))
        ok = ma.group(1) == mz.group(1) and {ma.group(2), mz.group(2)} == {'0', '1'}
        if ok:
            args_ = [x_.strip() for x_ in ma.group(1).split(', ')]
            lists = [x_ for x_ in args_ if '=' not in x_]
            ok = sorted(lists) == ['azimuth_angle.angle_deg()', 'zenith_angle.angle_deg()']
            # which component is which: default indexing 'xy' puts the first list along the columns
            ij = any(x_.replace(' ', '') in ("indexing='ij'",) for x_ in args_)
            first_is_zen = lists[0].startswith('zenith') if ok else None
            if ok:
                # component i varies with list i; azi must vary with the azimuth list
                ok = (ma.group(2) == ('1' if first_is_zen else '0')) and (mz.group(2) == ('0' if first_is_zen else '1'))
    ck.ob('R-EXH.grid-to-table', far.qual + '|angle-grid', ok, far.loc(),
          'printed angles = meshgrid of both Angle.angle_deg() lists')
    # the row writers: row k of the table is entry k of the flattened angle grid, in grid order (shared with C10)
    from .C10 import check_row_writers
    check_row_writers(ctx, ck, rule_rows='R-EXH.grid-to-table', rule_cols='R-EXH.grid-to-table')
    ck.undecided += ['documented axis order of the near-field points']
