"""R-SYM.ground-halves: a pulse can be grounded at its first or its second half (a wire can end on
the ground plane with end 1 or end 2).  Every statement that selects one half of the per-half
ground flags (Pulse.ground, Pulse.inv_ground, Pulse_Container.ground / inv_ground / matrix_ground)
by a literal index must select the other half in the same statement too - a one-sided test
(`ground[0]` without `ground[1]`) silently drops wires drawn towards the ground."""
import ast
import re
from ..model import norm, dotted, walk_no_nested, parent, enclosing_stmt

GROUND_ATTRS = ('ground', 'inv_ground')


def _ground_base(e, aliases):
    """True if expression e denotes (an elementwise transform of) the per-half ground flags"""
    if isinstance(e, ast.Attribute):
        if e.attr in GROUND_ATTRS:
            return True
        if e.attr == 'T':
            return _ground_base(e.value, aliases)
        return False
    if isinstance(e, ast.Subscript):
        # matrix_ground[role]
        if isinstance(e.value, ast.Attribute) and e.value.attr in ('matrix_ground', 'matrix_inv_ground'):
            return True
        return False
    if isinstance(e, ast.Name):
        return e.id in aliases
    if isinstance(e, ast.Call) and (dotted(e.func) or '') in ('np.logical_not', 'np.array', 'np.copy') and e.args:
        return _ground_base(e.args[0], aliases)
    if isinstance(e, ast.UnaryOp) and isinstance(e.op, (ast.Invert, ast.Not)):
        return _ground_base(e.operand, aliases)         # ~flags: elementwise not
    return False


def _half_literal(sub):
    """literal half index selected by a subscript on a ground-family array, else None"""
    s = sub.slice
    elts = list(s.elts) if isinstance(s, ast.Tuple) else [s]
    lits = [x for x in elts if isinstance(x, ast.Constant) and x.value in (0, 1) and not isinstance(x.value, bool)]
    others = [x for x in elts if x not in lits]
    full = all((isinstance(x, ast.Slice) and x.lower is None and x.upper is None) or
               (isinstance(x, ast.Constant) and x.value is Ellipsis) for x in others)
    if len(lits) == 1 and full:
        return lits[0].value
    return None


def ground_half_selections(func, swap_inv=False):
    """[(stmt, half, node)] for literal half selections on ground-family arrays in func"""
    aliases = set()
    for _ in range(2):
        for s in walk_no_nested(func.node):
            if isinstance(s, ast.Assign) and len(s.targets) == 1 and isinstance(s.targets[0], ast.Name):
                if _ground_base(s.value, aliases):
                    aliases.add(s.targets[0].id)
    out = []

    def is_inv(e):
        while isinstance(e, (ast.Attribute, ast.Subscript, ast.Call, ast.UnaryOp)):
            if isinstance(e, ast.Attribute):
                if e.attr in ('inv_ground', 'matrix_inv_ground'):
                    return True
                if e.attr == 'T':
                    e = e.value
                    continue
                return False
            if isinstance(e, ast.Subscript):
                e = e.value
            elif isinstance(e, ast.Call):
                if not e.args:
                    return False
                e = e.args[0]
            else:
                e = e.operand
        return False
    for n in walk_no_nested(func.node):
        if isinstance(n, ast.Subscript) and _ground_base(n.value, aliases):
            h = _half_literal(n)
            if h is not None:
                st = enclosing_stmt(n)
                if swap_inv and is_inv(n.value):
                    h = 1 - h       # inv_ground[h] is ground[1 - h]: the same flag under its other name
                out.append((st, h, n))
        # flags.any() / flags.all() / np.any(flags): a reduction over both halves at once
        if isinstance(n, ast.Call):
            red = None
            if isinstance(n.func, ast.Attribute) and n.func.attr in ('any', 'all') and _ground_base(n.func.value, aliases):
                red = n
            elif (dotted(n.func) or '') in ('np.any', 'np.all', 'any', 'all') and n.args and _ground_base(n.args[0], aliases):
                red = n
            if red is not None:
                st = enclosing_stmt(n)
                out.append((st, 0, n))
                out.append((st, 1, n))
    return out


def check_ground_symmetry(ctx, ck, rule='R-SYM.ground-halves'):
    m = ctx.model
    n_sel = 0
    n_stmt = 0
    # inv_ground is ground with its halves exchanged (confirmed on the tree: `inv_ground = [ground[1], ground[0]]`)
    swap_inv = any(isinstance(s_, ast.Assign) and any(isinstance(t_, ast.Attribute) and t_.attr == 'inv_ground' for t_ in s_.targets)
                   and re.search(r'\[self\.ground\[1\], self\.ground\[0\]\]', norm(s_.value))
                   for f_ in m.all_funcs() for s_ in walk_no_nested(f_.node))
    for f in sorted(m.all_funcs(), key=lambda x: x.qual):
        sels = ground_half_selections(f, swap_inv)
        by_stmt = {}
        for st, h, node in sels:
            by_stmt.setdefault(id(st), [st, set(), node])[1].add(h)
            n_sel += 1
        for key, (st, halves, node) in by_stmt.items():
            n_stmt += 1
            ok = halves == {0, 1}
            # header of an if/while: only the test counts
            txt = norm(st.test) if isinstance(st, (ast.If, ast.While)) else norm(st)
            ck.ob(rule, '%s|%s' % (f.qual, txt[:70]), ok, f.loc(node),
                  'both halves of the ground flags are consulted' if ok else
                  'only half %s of the per-half ground flags is consulted: a pulse grounded at its other '
                  'half (wire drawn towards the ground) is treated as not grounded' % sorted(halves))
    return n_sel, n_stmt


TOLERANT_CALLS = ('arccos', 'arcsin', 'arctan', 'arctan2', 'acos', 'asin', 'atan', 'atan2', 'isclose', 'allclose',
                  'degrees', 'radians', 'deg2rad', 'rad2deg', 'round', 'around')


def check_vertical_exact(ctx, ck, rule='R-LIT.vertical-exact'):
    """The fill shortcuts (copied / mirrored matrix entries) are valid for a grounded pulse only if its image half is
    collinear with it, i.e. the segment is exactly vertical.  The test that switches them off
    (Pulse.is_non_vertical_grounded) therefore decides on the horizontal direction components being exactly zero:
    no angle, no tolerance.  Reported: a comparison with a number other than 0 / +-1 (literal or a class / module
    constant), an inverse trigonometric function or isclose / round in the deciding function."""
    m = ctx.model
    f = m.resolve_method('Pulse', 'is_non_vertical_grounded') or m.resolve_method('Pulse_Container', 'is_non_vertical_grounded')
    if f is None:
        from ..model import AnalysisError
        raise AnalysisError('anchor vanished: Pulse.is_non_vertical_grounded')
    from ..symx import class_constants, module_constants
    consts = {}
    try:
        consts.update(module_constants(f.module))
    except Exception:
        pass
    cls_nums = {}
    for st in getattr(f.cls, 'node', ast.Module(body=[], type_ignores=[])).body if f.cls is not None else []:
        if isinstance(st, ast.Assign) and len(st.targets) == 1 and isinstance(st.targets[0], ast.Name):
            cls_nums[st.targets[0].id] = st.value

    def number(e):
        if isinstance(e, ast.UnaryOp) and isinstance(e.op, (ast.USub, ast.UAdd)):
            v = number(e.operand)
            return None if v is None else -v
        if isinstance(e, ast.Constant) and isinstance(e.value, (int, float)) and not isinstance(e.value, bool):
            return e.value
        if isinstance(e, ast.Attribute) and isinstance(e.value, ast.Name) and e.value.id in ('self', 'cls') and e.attr in cls_nums:
            return number(cls_nums[e.attr])
        if isinstance(e, ast.Name) and e.id in consts:
            return number(consts[e.id])
        if isinstance(e, ast.BinOp):
            l, r = number(e.left), number(e.right)
            if l is not None and r is not None:
                try:
                    return {ast.Add: l + r, ast.Sub: l - r, ast.Mult: l * r}.get(type(e.op)) if not isinstance(e.op, ast.Div) \
                        else l / r
                except ZeroDivisionError:
                    return None
        return None
    bad = None
    n_tests = 0
    for n in walk_no_nested(f.node):
        if isinstance(n, ast.Compare):
            n_tests += 1
            for c in [n.left] + list(n.comparators):
                v = number(c)
                if v is not None and v not in (0, 1, -1):
                    bad = bad or ('a comparison with %s (%s): a tolerance / angle threshold' % (norm(c), v), n)
        if isinstance(n, ast.Call):
            d = (dotted(n.func) or '').split('.')[-1]
            if d in TOLERANT_CALLS:
                bad = bad or ('%s(): an angle / tolerance instead of exact zero tests of the horizontal components' % d, n)
            if d in ('any', 'all', 'logical_and', 'logical_or', 'logical_not', 'bool'):
                n_tests += 1
        if isinstance(n, ast.BoolOp):
            n_tests += 1
    # both horizontal components (or the pair as a slice) are consulted
    comps = set()
    for n in walk_no_nested(f.node):
        if isinstance(n, ast.Subscript) and isinstance(n.value, ast.Attribute) and n.value.attr in ('dirvec', 'dirs', 'direction'):
            if isinstance(n.slice, ast.Tuple):
                comps |= {0, 1, 2}      # (array form: which components are taken is not followed)
            elif isinstance(n.slice, ast.Constant) and n.slice.value in (0, 1, 2):
                comps.add(n.slice.value)
            elif isinstance(n.slice, ast.Slice):
                up = n.slice.upper
                if n.slice.lower is None and isinstance(up, ast.Constant) and up.value == 2:
                    comps |= {0, 1}
    if bad is None and comps and not ({0, 1} <= comps) and 2 not in comps:
        bad = ('only the horizontal component(s) %s of the direction are consulted' % sorted(comps), f.node)
    ck.ob(rule, f.qual, bad is None, f.loc(bad[1]) if bad else f.loc(),
          'decided by exact tests of the direction components (%d tests)' % n_tests if bad is None else
          '%s: a grounded wire leaning less than the threshold keeps the shortcuts that are only valid for an exactly '
          'vertical wire' % bad[0])
    return n_tests


def check_half_weight_symmetry(ctx, ck, rule='R-SYM.half-weights', entry='mininec.Mininec.compute_far_field'):
    """The far field weights every half segment of every pulse by an array of shape (pulses, 2 halves, 3 components)
    (built with np.tile(.., (n, 2, 1)) and copies of it).  Which half of a grounded pulse is the one above ground
    depends on the end the wire is grounded with, so a store that picks the half by a literal index
    (`w[on_ground, 1, :2] = 0`) must come with the same store for the other half; the per-half boolean masks
    (pv.ground, pv.inv_ground) address the right half by themselves.  Returns the number of weight arrays found."""
    from ..rules import self_closure
    m = ctx.model
    n_arr = 0
    for g in self_closure(ctx, m.func(entry)):
        half = set()
        for _ in range(3):
            for s in walk_no_nested(g.node):
                if isinstance(s, ast.Assign) and len(s.targets) == 1 and isinstance(s.targets[0], ast.Name):
                    v = s.value
                    if isinstance(v, ast.Call):
                        d = (dotted(v.func) or '').split('.')[-1]
                        if d in ('tile', 'zeros', 'ones', 'empty', 'full') and len(v.args) >= 1:
                            shp = v.args[1] if d == 'tile' and len(v.args) > 1 else v.args[0]
                            if isinstance(shp, ast.Tuple) and len(shp.elts) == 3 and \
                                    isinstance(shp.elts[1], ast.Constant) and shp.elts[1].value == 2 and \
                                    'len' in norm(shp.elts[0]):
                                half.add(s.targets[0].id)
                        if d == 'copy' and ((v.args and isinstance(v.args[0], ast.Name) and v.args[0].id in half) or
                                            (isinstance(v.func, ast.Attribute) and isinstance(v.func.value, ast.Name)
                                             and v.func.value.id in half)):
                            half.add(s.targets[0].id)
        # an array indexed [<mask of grounded pulses>, <literal half>, ...] is a per-half array whatever built it
        gmask = set()
        for _ in range(2):
            for s in walk_no_nested(g.node):
                if isinstance(s, ast.Assign) and len(s.targets) == 1 and isinstance(s.targets[0], ast.Name):
                    if any((isinstance(x, ast.Attribute) and x.attr in GROUND_ATTRS) or
                           (isinstance(x, ast.Name) and x.id in gmask) for x in ast.walk(s.value)):
                        gmask.add(s.targets[0].id)
        for s in walk_no_nested(g.node):
            t = s.targets[0] if isinstance(s, ast.Assign) and len(s.targets) == 1 else (s.target if isinstance(s, ast.AugAssign) else None)
            if isinstance(t, ast.Subscript) and isinstance(t.value, ast.Name) and isinstance(t.slice, ast.Tuple) and \
                    len(t.slice.elts) >= 2 and isinstance(t.slice.elts[1], ast.Constant) and t.slice.elts[1].value in (0, 1) \
                    and not isinstance(t.slice.elts[1].value, bool):
                if any((isinstance(x, ast.Attribute) and x.attr in GROUND_ATTRS) or (isinstance(x, ast.Name) and x.id in gmask)
                       for x in ast.walk(t.slice.elts[0])):
                    half.add(t.value.id)
        n_arr += len(half)
        for nm in sorted(half):
            groups = {}
            for s in walk_no_nested(g.node):
                t = v = None
                op = '='
                if isinstance(s, ast.Assign) and len(s.targets) == 1:
                    t, v = s.targets[0], s.value
                elif isinstance(s, ast.AugAssign):
                    t, v, op = s.target, s.value, type(s.op).__name__
                if not (isinstance(t, ast.Subscript) and isinstance(t.value, ast.Name) and t.value.id == nm):
                    continue
                sl = t.slice
                if not (isinstance(sl, ast.Tuple) and len(sl.elts) >= 2):
                    continue
                h = sl.elts[1]
                if isinstance(h, ast.Constant) and h.value in (0, 1) and not isinstance(h.value, bool):
                    # a mask that itself picks one half of the ground flags (`ground[:, 0]`) knows which end is
                    # grounded: such a store is made per half on purpose and is not judged here
                    mexpr = sl.elts[0]
                    if isinstance(mexpr, ast.Name):
                        ds_ = [x.value for x in walk_no_nested(g.node) if isinstance(x, ast.Assign) and len(x.targets) == 1
                               and isinstance(x.targets[0], ast.Name) and x.targets[0].id == mexpr.id]
                        mexpr = ds_[0] if len(ds_) == 1 else mexpr
                    if any(isinstance(y, ast.Subscript) and _ground_base(y.value, set()) and _half_literal(y) is not None
                           for y in ast.walk(mexpr)):
                        continue
                    rest = (norm(sl.elts[0]),) + tuple(norm(e) for e in sl.elts[2:])
                    groups.setdefault((rest, op, norm(v)), {})[h.value] = s
            bad = [(k, hs) for k, hs in groups.items() if set(hs) != {0, 1}]
            if bad:
                k, hs = bad[0]
                st = list(hs.values())[0]
                ck.ob(rule, '%s|%s' % (g.qual, nm), False, g.loc(st),
                      '`%s` changes half %d of the weights only: for a wire grounded with its other end the half above '
                      'ground is the other one' % (norm(st)[:70], list(hs)[0]))
            else:
                ck.ob(rule, '%s|%s' % (g.qual, nm), True, g.loc(),
                      'per-half weights `%s`: %d stores pick a half by literal index, each for both halves' % (nm, 2 * len(groups)))
    return n_arr


POSITION_CALLS = ('dvecs', 'matrix_dvecs', 'endseg', 'matrix_endseg')
POSITION_ATTRS = ('point', 'ends', 'endpoints', 'p1', 'p2')


def check_image_mirror(ctx, ck, rule='R-SYM.image-mirror', entries=('mininec.Mininec.compute_near_field',
                                                                      'mininec.Mininec.compute_impedance_matrix',
                                                                      'mininec.Mininec.compute_far_field')):
    """The image of a point (x, y, z) in the ground plane is (x, y, -z): positions are multiplied by the vector
    kvec = (1, 1, k), never by the image index k itself (which reflects through the origin).  The scalar k may
    weight potentials and currents.  Judged in the closure of the field / fill functions: a product of the bare
    image index (a parameter named like the loop variable over image_iter(), or that loop variable) with an
    expression that reads positions (dvecs / endseg / point ...)."""
    from ..rules import self_closure
    m = ctx.model
    funcs = {}
    for q in entries:
        for g in self_closure(ctx, m.func(q)):
            funcs[g.qual] = g
    n = 0
    for q, g in sorted(funcs.items()):
        knames = set()
        for x in ast.walk(g.node):
            if isinstance(x, ast.For) and isinstance(x.target, ast.Name) and 'image_iter' in norm(x.iter):
                knames.add(x.target.id)
        if 'k' in g.all_params:
            knames.add('k')
        if not knames:
            continue
        defs = {}
        cnt = {}
        for s in walk_no_nested(g.node):
            if isinstance(s, ast.Assign) and len(s.targets) == 1 and isinstance(s.targets[0], ast.Name):
                cnt[s.targets[0].id] = cnt.get(s.targets[0].id, 0) + 1
                defs[s.targets[0].id] = s.value
        defs = {k_: v_ for k_, v_ in defs.items() if cnt[k_] == 1}
        fl_ = ctx.flow(g)
        at_box = [None]

        def positional(e, depth=0):
            # (what a function computes FROM positions - a potential - is not a position: arguments of calls are
            # only looked into for array constructors that keep the coordinates)
            if isinstance(e, ast.Call):
                if isinstance(e.func, ast.Attribute) and e.func.attr in POSITION_CALLS:
                    return True
                d_ = dotted(e.func) or ''
                if d_.split('.')[0] in ('np', 'numpy') and d_.split('.')[-1] in ('array', 'repeat', 'reshape', 'tile', 'copy', 'asarray', 'stack'):
                    return any(positional(a_, depth) for a_ in e.args)
                return False
            if isinstance(e, ast.Attribute):
                if e.attr in POSITION_ATTRS and isinstance(e.ctx, ast.Load):
                    return True
                return positional(e.value, depth) if e.attr == 'T' else False
            if isinstance(e, ast.Name):
                if e.id in knames or depth >= 3:
                    return False
                if e.id in defs:
                    return positional(defs[e.id], depth + 1)
                # bound more than once: what reaches this use
                at_ = at_box[0]
                if at_ is not None and e.id in fl_.rd.names:
                    return any(d_[0] == 'assign' and positional(d_[1], depth + 1) for d_ in fl_.def_exprs(e.id, at_))
                return False
            if isinstance(e, ast.Subscript):
                return positional(e.value, depth)
            if isinstance(e, ast.BinOp):
                return positional(e.left, depth) or positional(e.right, depth)
            if isinstance(e, ast.UnaryOp):
                return positional(e.operand, depth)
            if isinstance(e, (ast.Tuple, ast.List)):
                return any(positional(x_, depth) for x_ in e.elts)
            return False
        for x in walk_no_nested(g.node):
            if isinstance(x, ast.BinOp) and isinstance(x.op, ast.Mult):
                for a, b in ((x.left, x.right), (x.right, x.left)):
                    if isinstance(a, ast.Name) and a.id in knames:
                        n += 1
                        at_box[0] = fl_.node_id_of(x)
                        bad = positional(b)
                        ck.ob(rule, '%s|%s' % (q, norm(x)[:60]), not bad, g.loc(x),
                              'the image index weights a potential / current' if not bad else
                              '`%s`: positions are multiplied by the image index itself - the image is reflected through the '
                              'origin instead of mirrored in the ground plane (x and y change sign too)' % norm(x)[:70])
    return n
