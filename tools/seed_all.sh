#!/bin/sh
# re-evaluate every stored seed against the current checkers (scratch worktree with the patch; /repo untouched)
cd "$(dirname "$0")/.."
n=0
ids=""
for d in seeded/*/; do
  id=$(basename "$d"); [ "$id" = refactors ] && continue
  ids="$ids $id"
  prop=$(python3 -c "import json;print(json.load(open('$d/meta.json')).get('breaks_property') or '')" 2>/dev/null)
  (SEED_JOBS=6 python3 tools/seed_eval.py "$id" "$d" --property "$prop" --skip-verify 2>&1 | head -1 > /tmp/seed_$id.out) &
  n=$((n+1))
  if [ $((n % 3)) -eq 0 ]; then wait; fi
done
wait
for id in $ids; do cat /tmp/seed_$id.out; rm -f /tmp/seed_$id.out; done
