"""R-POLY.curl  the magnetic field is the curl of the vector potential by central differences.

The near-field code evaluates the vector potential A at the six points displaced by -s0/2 and +s0/2 along the
three axes into an array indexed [side][axis of the displacement][component of A] and builds
    H_a = sum_{i,c} eps(a, i, c) * (A[+][i][c] - A[-][i][c])
term by term.  The statements that store into the elements of the field vector are collected in program order
and summed as linear forms over the atoms A[s][i][c] (`x.real + x.imag * 1j` is x); the coefficient of every
atom must be the Levi-Civita sign (times the side sign).  Which side index is the positive displacement is read
from the comprehension that builds the displaced points (`for j8 in (-1, 1)`)."""
import ast
from ..model import AnalysisError, norm, walk_no_nested


def _eps(a, i, c):
    if len({a, i, c}) < 3:
        return 0
    return 1 if (a, i, c) in ((0, 1, 2), (1, 2, 0), (2, 0, 1)) else -1


def _cint(e):
    if isinstance(e, ast.Constant) and isinstance(e.value, int) and not isinstance(e.value, bool):
        return e.value
    if isinstance(e, ast.UnaryOp) and isinstance(e.op, ast.USub):
        v = _cint(e.operand)
        return None if v is None else -v
    return None


def _atom(e):
    """(array name, (s, i, c)) for  K[s][i][c] / K[s, i, c]"""
    idx = []
    while isinstance(e, ast.Subscript):
        sl = e.slice
        if isinstance(sl, ast.Tuple):
            part = [_cint(x) for x in sl.elts]
        else:
            part = [_cint(sl)]
        if any(p is None for p in part):
            return None
        idx = part + idx
        e = e.value
    if isinstance(e, ast.Name) and len(idx) == 3:
        return e.id, tuple(idx)
    return None


class _NotLinear(Exception):
    pass


def _lin(e):
    """{(array, idx): (coefficient of the real part, coefficient of the imaginary part)}; constants not allowed"""
    at = _atom(e)
    if at is not None:
        return {at: (1, 1j)}
    if isinstance(e, ast.Attribute) and e.attr in ('real', 'imag'):
        at = _atom(e.value)
        if at is None:
            raise _NotLinear(norm(e))
        return {at: (1, 0) if e.attr == 'real' else (0, 1)}
    if isinstance(e, ast.UnaryOp) and isinstance(e.op, (ast.USub, ast.UAdd)):
        s = -1 if isinstance(e.op, ast.USub) else 1
        return {k: (s * a, s * b) for k, (a, b) in _lin(e.operand).items()}
    if isinstance(e, ast.BinOp) and isinstance(e.op, (ast.Add, ast.Sub)):
        l, r = _lin(e.left), _lin(e.right)
        s = -1 if isinstance(e.op, ast.Sub) else 1
        out = dict(l)
        for k, (a, b) in r.items():
            a0, b0 = out.get(k, (0, 0))
            out[k] = (a0 + s * a, b0 + s * b)
        return out
    if isinstance(e, ast.BinOp) and isinstance(e.op, ast.Mult):
        for x, y in ((e.left, e.right), (e.right, e.left)):
            c = _num(x)
            if c is not None:
                return {k: (c * a, c * b) for k, (a, b) in _lin(y).items()}
    raise _NotLinear(norm(e)[:60])


def _num(e):
    if isinstance(e, ast.Constant) and isinstance(e.value, (int, float, complex)) and not isinstance(e.value, bool):
        return e.value
    if isinstance(e, ast.UnaryOp) and isinstance(e.op, ast.USub):
        v = _num(e.operand)
        return None if v is None else -v
    return None


def _local_funcs(node):
    """{name: (parameter names, returned expression)} for nested single-return defs and lambdas bound to a name"""
    out = {}
    for x in ast.walk(node):
        if isinstance(x, ast.FunctionDef) and x is not node:
            body = [b for b in x.body if not (isinstance(b, ast.Expr) and isinstance(b.value, ast.Constant))]
            if len(body) == 1 and isinstance(body[0], ast.Return) and body[0].value is not None and \
                    not x.args.vararg and not x.args.kwarg:
                out[x.name] = ([a.arg for a in x.args.args], body[0].value)
        if isinstance(x, ast.Assign) and len(x.targets) == 1 and isinstance(x.targets[0], ast.Name) and \
                isinstance(x.value, ast.Lambda):
            out[x.targets[0].id] = ([a.arg for a in x.value.args.args], x.value.body)
    return out


def _expand(v, node):
    """v with calls of local single-return functions replaced by their expression and names unpacked from an
    array (`a0, a1 = A`) replaced by `A[0]`, `A[1]`"""
    from ..symx import copy_replace
    lf = _local_funcs(node)
    alias = {}
    for x in ast.walk(node):
        if isinstance(x, ast.Assign) and len(x.targets) == 1 and isinstance(x.targets[0], ast.Tuple) and \
                isinstance(x.value, ast.Name) and all(isinstance(t, ast.Name) for t in x.targets[0].elts):
            for i, t in enumerate(x.targets[0].elts):
                alias[t.id] = ast.Subscript(value=ast.Name(id=x.value.id, ctx=ast.Load()), slice=ast.Constant(value=i),
                                            ctx=ast.Load())
    stored = {t.id for x in ast.walk(node) if isinstance(x, (ast.Assign, ast.AugAssign))
              for t0 in (x.targets if isinstance(x, ast.Assign) else [x.target])
              for t in ([t0] if isinstance(t0, ast.Name) else []) }

    def once(e, depth=0):
        def fn(n):
            if isinstance(n, ast.Call) and isinstance(n.func, ast.Name) and n.func.id in lf and not n.keywords \
                    and depth < 4:
                ps, body = lf[n.func.id]
                if len(ps) == len(n.args):
                    env = dict(zip(ps, [once(a, depth) for a in n.args]))
                    return once(copy_replace(body, lambda m: env.get(m.id) if isinstance(m, ast.Name) and m.id in env else None),
                                depth + 1)
            if isinstance(n, ast.Name) and n.id in alias and n.id not in stored:
                return alias[n.id]
            return None
        return copy_replace(e, fn)
    return once(v)


def _curl_stores(fnode):
    stores = []     # (statement, field name, component, sign, value, plain)
    for s in walk_no_nested(fnode):
        t = v = None
        sign = 1
        plain = False
        if isinstance(s, ast.Assign) and len(s.targets) == 1:
            t, v, plain = s.targets[0], s.value, True
        elif isinstance(s, ast.AugAssign) and isinstance(s.op, (ast.Add, ast.Sub)):
            t, v = s.target, s.value
            sign = -1 if isinstance(s.op, ast.Sub) else 1
        if t is None or not (isinstance(t, ast.Subscript) and isinstance(t.value, ast.Name) and _cint(t.slice) is not None):
            continue
        v = _expand(v, fnode)
        if not any(_atom(x) is not None for x in ast.walk(v)):
            continue
        stores.append((s, t.value.id, _cint(t.slice), sign, v, plain))
    return stores


def check_curl(ctx, ck, f, rule='R-POLY.curl', others=()):
    """f: the (flattened) near-field function; others: the helpers it reaches (the curl may live in one).
    Returns the number of curl terms examined"""
    stores = []
    cands = [f] + [g for g in others if g.qual != f.qual]
    for g in cands:
        stores = _curl_stores(g.node)
        if stores:
            home = g
            break
    if not stores:
        return 0
    names = {x[1] for x in stores}
    if len(names) != 1:
        raise AnalysisError('curl terms are stored into several vectors: %s' % sorted(names))
    stores.sort(key=lambda x: (x[0].lineno, x[0].col_offset))
    total = {0: {}, 1: {}, 2: {}}
    arrays = set()
    for s, nm, a, sign, v, plain in stores:
        if a not in total:
            raise AnalysisError('field component %r' % a)
        try:
            lf = _lin(v)
        except _NotLinear as e:
            raise AnalysisError('curl term not a linear form of the displaced potentials: %s' % e)
        if plain:
            total[a] = {}
        for k, (ca, cb) in lf.items():
            arrays.add(k[0])
            a0, b0 = total[a].get(k, (0, 0))
            total[a][k] = (a0 + sign * ca, b0 + sign * cb)
    if len(arrays) != 1:
        raise AnalysisError('curl terms read several arrays: %s' % sorted(arrays))
    K = arrays.pop()
    # which side index is the positive displacement
    side_sign = None
    for x in [y for g in cands for y in ast.walk(g.node)]:
        if isinstance(x, (ast.ListComp, ast.GeneratorExp)) and len(x.generators) == 1:
            it = x.generators[0].iter
            if isinstance(it, (ast.Tuple, ast.List)) and len(it.elts) == 2:
                vals = [_num(e_) for e_ in it.elts]
                # (the displaced points: vec + unit matrix * (j8 * step / 2))
                unit = any(isinstance(c_, ast.Call) and (norm(c_.func).split('.')[-1] in ('identity', 'eye', 'diag'))
                           for c_ in ast.walk(x.elt))
                if None not in vals and vals[0] == -vals[1] != 0 and unit:
                    ss = {0: 1 if vals[0] > 0 else -1, 1: 1 if vals[1] > 0 else -1}
                    if side_sign not in (None, ss):
                        raise AnalysisError('two comprehensions over +-1 in different orders')
                    side_sign = ss
    n = 0
    for a in range(3):
        want = {}
        for i in range(3):
            for c in range(3):
                e = _eps(a, i, c)
                if e:
                    for sd in (0, 1):
                        want[(K, (sd, i, c))] = e
        got = {k: v for k, v in total[a].items() if v != (0, 0)}
        bad = None
        # every atom enters whole (real and imaginary part alike)
        for k, (ca, cb) in got.items():
            if cb != ca * 1j:
                bad = bad or 'real and imaginary part of %s[%s] enter with different weights' % (k[0], k[1])
        if set(got) != set(want):
            bad = bad or 'terms %s, expected the derivatives %s' % (
                sorted(k[1] for k in got), sorted(k[1] for k in want))
        if bad is None:
            # one common factor g: coefficient of A[side][i][c] = g * sign(side) * eps
            gs = set()
            for k, (ca, cb) in got.items():
                sd = k[1][0]
                ss = side_sign[sd] if side_sign else (1 if sd == 1 else -1)
                gs.add(ca / (ss * want[k]))
            if len(gs) != 1:
                bad = 'the terms of component %d do not have the signs of a curl: %s' % (
                    a, ', '.join('%+g*%s%s' % (got[k][0].real if isinstance(got[k][0], complex) else got[k][0], k[0],
                                                 list(k[1])) for k in sorted(got)))
            else:
                g = gs.pop()
                if side_sign is not None and g != 1:
                    bad = 'component %d is %s times the curl' % (a, g)
                total[a]['g'] = g
        ck.ob(rule, '%s|H[%d]' % (f.qual, a), bad is None, home.loc(stores[0][0]),
              bad or 'H[%d] = sum eps(%d,i,c) (A[+][i][c] - A[-][i][c]) over %d terms' % (a, a, len(got)))
        n += len(got)
    # the three components share their factor
    gset = {total[a].get('g') for a in range(3) if 'g' in total[a]}
    if len(gset) > 1:
        ck.ob(rule, '%s|common-sign' % f.qual, False, home.loc(stores[0][0]),
              'the components carry different overall signs: %s' % sorted(map(str, gset)))
    return n
