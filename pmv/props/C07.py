"""C07  Currents are linear in the source voltages; source data are V/I and Re(V I*)/2.

Decided:
 D1 R-EFFECT  the system matrix (fill + loads) and its closure read neither Mininec.sources nor
              any Excitation attribute (the matrix cannot depend on the excitation).
 D2 R-DEP     compute_rhs: every element stored into the right-hand side is
              coef * <source>.voltage with a voltage-free coef, the source being the loop
              variable over all of self.sources; the voltage passes through no call / .real / abs.
              The vector is created zero-filled and stored in self.rhs; compute_currents solves
              Z x = rhs with exactly these two operands.
 D3 R-DEP     Excitation.impedance == voltage / current, Excitation.power == 1/2 Re(V conj(I)),
              Excitation.current == parent.current[idx]; register() stores the index it is given.
 D4           dBi pattern independent of a common voltage factor: shared with C10 (far-field
              normalisation by self.power), re-checked here.
Not decided: numerical superposition; two sources on the same pulse.
"""
import ast
from ..model import AnalysisError, walk_no_nested, parent, dotted, norm, const_value, is_const
from ..dataflow import product_of, sum_terms
from ..rules import forbidden_effects, unresolved_named, describe_path, assigns_to_attr

FILL = ['mininec.Mininec.compute_impedance_matrix', 'mininec.Mininec.compute_impedance_matrix_loads']
RHS = 'mininec.Mininec.compute_rhs'
CONJ_NAMES = ('conj', 'conjugate')
EXC_VALUE_ATTRS = {'voltage', 'magnitude', 'phase', 'phase_d', 'current', 'power', 'impedance'}


def excitation_attrs(ctx):
    ci = ctx.model.cls('Excitation')
    names = set(ci.methods)
    for f in ci.methods.values():
        for n in walk_no_nested(f.node):
            if isinstance(n, ast.Attribute) and isinstance(n.ctx, ast.Store) and \
               isinstance(n.value, ast.Name) and n.value.id == 'self':
                names.add(n.attr)
    return names


def strip_conj(e):
    """(inner, conjugated?)"""
    if isinstance(e, ast.Call):
        if isinstance(e.func, ast.Attribute) and e.func.attr in CONJ_NAMES:
            d = dotted(e.func)
            if d and d.split('.')[0] in ('np', 'numpy') and len(e.args) == 1:
                return e.args[0], True
            if not e.args:
                return e.func.value, True
    return e, False


def real_part_of(e):
    """inner expression if e is  X.real  or np.real(X), else None"""
    if isinstance(e, ast.Attribute) and e.attr == 'real':
        return e.value
    if isinstance(e, ast.Call) and isinstance(e.func, ast.Attribute) and e.func.attr == 'real' \
       and len(e.args) == 1 and (dotted(e.func) or '').split('.')[0] in ('np', 'numpy'):
        return e.args[0]
    return None


def single_return(func):
    rets = [n for n in walk_no_nested(func.node) if isinstance(n, ast.Return)]
    if len(rets) != 1 or rets[0].value is None:
        return None
    return rets[0]


def check_power_formula(ctx, ck, rule='R-DEP.power-formula', pid_key='mininec.Excitation.power'):
    f = ctx.func('mininec.Excitation.power')
    fl = ctx.flow(f)
    r = single_return(f)
    ok, why = False, 'no single return expression'
    if r is not None:
        e = fl.inline(r.value, fl.node_id_of(r))
        inner = real_part_of(e)
        outer_coef = 1
        if inner is None:
            # c * Re(...) / d
            po = product_of(e)
            if len(po.num) == 1 and not po.den and real_part_of(po.num[0][1]) is not None:
                inner = real_part_of(po.num[0][1])
                outer_coef = po.coef
        if inner is None:
            why = 'returned value is not the real part of an expression: %s' % norm(e)
        else:
            p = product_of(inner)
            p.coef = p.coef * outer_coef
            facs = [strip_conj(x) for _, x in p.num]
            names = sorted(norm(a) for a, c in facs)
            nconj = sum(1 for a, c in facs if c)
            if p.den:
                why = 'unexpected divisor %s' % [t for t, _ in p.den]
            elif abs(p.coef - 0.5) > 1e-12:
                why = 'coefficient is %r, expected 1/2' % (p.coef,)
            elif names != ['self.current', 'self.voltage']:
                why = 'factors are %s, expected voltage and current' % names
            elif nconj != 1:
                why = '%d conjugated factors, expected exactly one' % nconj
            else:
                ok, why = True, '1/2 * Re(voltage * conj(current))'
    ck.ob(rule, pid_key, ok, f.loc(r if r is not None else None), why)
    return ok


def run(ctx, ck):
    prog = ctx.program
    m = ctx.model
    ck.rule('R-EFFECT.matrix-source-free', 'matrix fill/loads closure reads no source data')
    ck.rule('R-DEP.rhs-linear', 'rhs element = voltage-free coef * source.voltage, over all sources')
    ck.rule('R-DEP.solve-operands', 'currents = solve(Z, rhs)')
    ck.rule('R-DEP.power-formula', 'Excitation.power = 1/2 Re(V conj(I))')
    ck.rule('R-DEP.impedance-formula', 'Excitation.impedance = V / I')
    ck.rule('R-DEP.current-lookup', 'Excitation.current = parent.current[idx]; register stores idx')
    ck.rule('R-DEP.dbi-normalised', 'dBi pattern normalised by total source power (shared with C10)')

    # ------------------------------------------------------------------ D1
    exattrs = excitation_attrs(ctx)
    forbidden = {('Excitation', a) for a in exattrs} | {('Mininec', 'sources')}
    ents = [m.func(q) for q in FILL]
    seen = prog.closure(ents)
    ck.info('closure_matrix_functions', len(seen))
    unres = unresolved_named(prog, seen, EXC_VALUE_ATTRS | {'sources'})
    if unres:
        e = unres[0]
        raise AnalysisError('unresolved receiver reads source-like attribute .%s in %s (%s)'
                            % (e.attr, e.func.qual, e.func.loc(e.node)))
    off = forbidden_effects(prog, seen, forbidden)
    exc_funcs = {f.qual for f in m.cls('Excitation').methods.values()}
    per = {}
    for e in off:
        per.setdefault(e.func.qual, []).append(e)
    for q in sorted(seen):
        es = per.get(q, [])
        where, why, ok = m.funcs[q].loc(), 'no source data touched', True
        if es:
            e = es[0]
            ok = False
            where = e.func.loc(e.node)
            why = '%s %s.%s via %s' % (e.mode, e.cls, e.attr, describe_path(prog, seen, q))
        elif q in exc_funcs:
            ok = False
            why = 'Excitation method reachable: ' + describe_path(prog, seen, q)
        ck.ob('R-EFFECT.matrix-source-free', q, ok, where, why)
    ck.floor('functions in matrix closure', len(seen), 30)
    # positive control: compute_rhs does read the sources
    rhs_f = m.func(RHS)
    rhs_reads = [e for e in prog.effects[RHS] if (e.cls, e.attr) in forbidden]
    ck.floor('source reads resolved in compute_rhs', len(rhs_reads), 2)

    # ------------------------------------------------------------------ D2
    fl = ctx.flow(rhs_f)
    stores = []
    for n in walk_no_nested(rhs_f.node):
        if isinstance(n, (ast.Assign, ast.AugAssign)):
            tgts = n.targets if isinstance(n, ast.Assign) else [n.target]
            for t in tgts:
                if isinstance(t, ast.Subscript):
                    stores.append((n, t))
    # the stored-into vector must be what ends up in self.rhs
    finals = assigns_to_attr(rhs_f, 'self.rhs')
    ck.floor('assignments of self.rhs in compute_rhs', len(finals), 1)
    ck.floor('element stores in compute_rhs', len(stores), 1)
    for st, tgt in stores:
        key = '%s|%s' % (RHS, norm(tgt))
        nid = fl.node_id_of(st)
        # loop variable over self.sources
        loopvars = {}
        p = parent(st)
        while p is not None and p is not rhs_f.node:
            if isinstance(p, ast.For) and isinstance(p.target, ast.Name):
                loopvars[p.target.id] = p
            p = parent(p)
        if isinstance(st, ast.AugAssign) and not isinstance(st.op, ast.Add):
            ck.ob('R-DEP.rhs-linear', key, False, rhs_f.loc(st), 'update operator is not = or +=')
            continue
        val = fl.inline(st.value, nid)
        terms = sum_terms(val)
        ok, why = True, ''
        if len(terms) != 1:
            ok, why = False, 'stored value is a sum of %d terms (inhomogeneous)' % len(terms)
        else:
            pr = product_of(terms[0][1])
            volt = [(t, x) for t, x in pr.num if isinstance(x, ast.Attribute) and x.attr == 'voltage']
            others = [(t, x) for t, x in pr.num if (t, x) not in volt] + pr.den
            if len(volt) != 1:
                ok, why = False, ('%d bare `.voltage` numerator factors in %s (expected exactly 1; '
                                  'a voltage inside abs()/.real/conj() is not linear)'
                                  % (len(volt), norm(val)))
            else:
                base = volt[0][1].value
                lv = base.id if isinstance(base, ast.Name) else None
                loop = loopvars.get(lv)
                if loop is None:
                    ok, why = False, 'voltage does not belong to a loop variable'
                elif norm(loop.iter) != 'self.sources':
                    ok, why = False, 'sources loop iterates over %s, not over all of self.sources' \
                        % norm(loop.iter)
                else:
                    for t, x in others:
                        r = fl.roots(x, nid)
                        badr = [a for a in r if a[0] == 'attrname' and a[1] in EXC_VALUE_ATTRS]
                        badr += [a for a in r if a[0] == 'attr' and a[1].split('.')[-1] in EXC_VALUE_ATTRS]
                        if badr:
                            ok, why = False, 'coefficient %s depends on source data %s' % (t, badr)
                    if ok:
                        # index of the store is the source's registered index
                        idx = tgt.slice
                        if not (isinstance(idx, ast.Attribute) and idx.attr == 'idx' and
                                isinstance(idx.value, ast.Name) and idx.value.id == lv):
                            ok, why = False, 'element index is %s, expected %s.idx' % (norm(idx), lv)
                        else:
                            why = 'rhs[%s.idx] = (%s) * %s.voltage' % (
                                lv, ' * '.join([repr(pr.coef)] + [t for t, _ in others]), lv)
        ck.ob('R-DEP.rhs-linear', key, ok, rhs_f.loc(st), why)
    # vector stored in self.rhs is the one written above and starts as zeros
    for fin in finals:
        v = fin.value
        ok = False
        why = 'self.rhs is not the vector filled in the loop'
        if isinstance(v, ast.Name):
            names = {t.value.id for _, t in stores if isinstance(t.value, ast.Name)}
            if v.id in names:
                # its creation: np.zeros(...)
                creations = [d for d in fl.def_exprs(v.id, fl.node_id_of(fin)) if d[0] == 'assign']
                zero = [d for d in creations if isinstance(d[1], ast.Call) and
                        (dotted(d[1].func) or '').endswith('zeros')]
                if creations and len(zero) == len(creations):
                    ok, why = True, 'self.rhs = zero vector with one entry per source'
                else:
                    why = 'right-hand side vector is not created zero-filled'
        ck.ob('R-DEP.rhs-linear', RHS + '|self.rhs', ok, rhs_f.loc(fin), why)

    # compute_currents: solve(self.Z, self.rhs)
    cc = m.func('mininec.Mininec.compute_currents')
    asg = assigns_to_attr(cc, 'self.current')
    ck.floor('assignments of self.current', len(asg), 1)
    for a in asg:
        v = a.value
        ok = isinstance(v, ast.Call) and (dotted(v.func) or '').endswith('linalg.solve') and \
            [norm(x) for x in v.args] == ['self.Z', 'self.rhs'] and not v.keywords
        ck.ob('R-DEP.solve-operands', cc.qual + '|self.current', ok, cc.loc(a),
              'self.current = %s' % norm(v))

    # ------------------------------------------------------------------ D3
    check_power_formula(ctx, ck)
    f = m.func('mininec.Excitation.impedance')
    r = single_return(f)
    ok, why = False, 'no single return'
    if r is not None:
        e = ctx.flow(f).inline(r.value)
        p = product_of(e)
        n, d = p.texts()
        ok = (n == ['self.voltage'] and d == ['self.current'] and p.coef == 1)
        why = 'returns %s' % norm(e)
    ck.ob('R-DEP.impedance-formula', f.qual, ok, f.loc(r), why)

    f = m.func('mininec.Excitation.current')
    r = single_return(f)
    ok, why = False, 'no single return'
    if r is not None:
        e = ctx.flow(f).inline(r.value)
        ok = norm(e) == 'self.parent.current[self.idx]'
        why = 'returns %s' % norm(e)
    ck.ob('R-DEP.current-lookup', f.qual, ok, f.loc(r), why)

    f = m.func('mininec.Excitation.register')
    params = f.params
    stored = {}
    for s_ in walk_no_nested(f.node):
        if isinstance(s_, ast.Assign):
            for t in s_.targets:
                if isinstance(t, ast.Attribute):
                    stored[dotted(t)] = s_.value
                elif isinstance(t, (ast.Tuple, ast.List)) and isinstance(s_.value, (ast.Tuple, ast.List)) \
                        and len(t.elts) == len(s_.value.elts):
                    for te, ve in zip(t.elts, s_.value.elts):
                        if isinstance(te, ast.Attribute):
                            stored[dotted(te)] = ve
    ok = len(params) >= 3 and norm(stored.get('self.idx', ast.Constant(value=None))) == params[2] and \
        norm(stored.get('self.parent', ast.Constant(value=None))) == params[1]
    ck.ob('R-DEP.current-lookup', f.qual, ok, f.loc(), 'register(parent, pulse) stores both unchanged')

    # coefficient of one source must not depend on the other sources (weight re-initialised per source)
    from .C08 import check_weights
    ck.rule('R-SIB.weight', 'source weight: -1j/m, doubled only for its own grounded pulse, recomputed per source')
    check_weights(ctx, ck)

    # ------------------------------------------------------------------ D4 (shared with C10)
    from .C10 import check_dbi_normalisation
    check_dbi_normalisation(ctx, ck, rule='R-DEP.dbi-normalised')
    ck.undecided += ['numerical superposition of several sources',
                     'two sources registered on the same pulse (statement does not define it)']
