"""Obligation bookkeeping, known-findings matching, evidence files, exit codes."""
import json
import os
import sys
import time

VERIF = os.path.dirname(os.path.dirname(os.path.abspath(__file__)))
EVIDENCE_DIR = os.environ.get('PMV_EVIDENCE_DIR') or os.path.join(VERIF, 'evidence')     # redirected by the seed / refactor tools only
KNOWN = os.path.join(VERIF, 'known_findings.json')


class Obligation:
    __slots__ = ('rule', 'key', 'ok', 'where', 'why', 'detail')

    def __init__(self, rule, key, ok, where, why, detail=None):
        self.rule = rule
        self.key = key          # stable: 'qualified.function|construct'
        self.ok = ok
        self.where = where      # file:line (message only)
        self.why = why
        self.detail = detail

    def as_dict(self):
        d = dict(rule=self.rule, key=self.key, ok=self.ok, where=self.where, why=self.why)
        if self.detail is not None:
            d['detail'] = self.detail
        return d


class Checker:
    def __init__(self, pid, tier, seed=0):
        self.pid = pid
        self.tier = tier
        self.seed = seed
        self.t0 = time.time()
        self.obs = []
        self.analysed = {}
        self.undecided = []
        self.assumptions = []
        self.selftest = None
        self.notes = []
        self.rules = {}

    # ---------------------------------------------------------------- recording
    def rule(self, name, text):
        self.rules[name] = text

    def ob(self, rule, key, ok, where, why, detail=None):
        o = Obligation(rule, key, bool(ok), where, why, detail)
        self.obs.append(o)
        return o.ok

    def floor(self, what, count, minimum):
        """instance floor: a rule that matches fewer sites than confirmed by hand is broken"""
        self.analysed['floor:' + what] = '%d (>= %d)' % (count, minimum)
        if count < minimum and not os.environ.get('PMV_DEBUG_NO_FLOOR'):      # (debugging aid of the tools only)
            from .model import AnalysisError
            raise AnalysisError('instance floor not met for %s: %d < %d (anchors moved or the '
                                'extraction no longer understands the code)' % (what, count, minimum))

    def info(self, key, value):
        self.analysed[key] = value

    def note(self, text):
        self.notes.append(text)

    # ---------------------------------------------------------------- finishing
    def _known(self):
        if not os.path.exists(KNOWN):
            return {'open': [], 'fixed': []}
        with open(KNOWN) as f:
            return json.load(f)

    def finish(self):
        known = self._known()
        open_k = {(k['property'], k['rule'], k['key']): k for k in known.get('open', [])}
        failed = [o for o in self.obs if not o.ok]
        violations = []
        known_hits = []
        for o in failed:
            k = (self.pid, o.rule, o.key)
            if k in open_k:
                known_hits.append((o, open_k[k]))
            else:
                violations.append(o)
        stale = [k for k in open_k.values() if k['property'] == self.pid and
                 not any(o.rule == k['rule'] and o.key == k['key'] for o in failed)]
        wall = time.time() - self.t0
        # ------------- print
        print('== %s tier=%s : %d obligations, %d discharged, %d failing (%d known, %d new) %.2fs'
              % (self.pid, self.tier, len(self.obs), len(self.obs) - len(failed), len(failed),
                 len(known_hits), len(violations), wall))
        for k, v in sorted(self.analysed.items()):
            print('   analysed %s: %s' % (k, v))
        by_rule = {}
        for o in self.obs:
            by_rule.setdefault(o.rule, [0, 0])
            by_rule[o.rule][0] += 1
            by_rule[o.rule][1] += 1 if o.ok else 0
        for r in sorted(by_rule):
            print('   rule %-28s %3d/%-3d  %s' % (r, by_rule[r][1], by_rule[r][0],
                                                 self.rules.get(r, '')))
        for o, k in known_hits:
            print('KNOWN-FINDING: property=%s %s [%s %s] %s' % (
                self.pid, k.get('what', o.why), o.rule, o.key, o.where))
        for k in stale:
            print('   note: known finding no longer reproduces (stale entry): %s %s'
                  % (k['rule'], k['key']))
        replay = None
        if violations:
            os.makedirs(os.path.join(EVIDENCE_DIR, 'replay'), exist_ok=True)
            replay = os.path.join(EVIDENCE_DIR, 'replay', '%s.json' % self.pid)
            with open(replay, 'w') as f:
                json.dump(dict(property=self.pid, tier=self.tier,
                               failing=[o.as_dict() for o in violations]), f, indent=1)
            for o in violations:
                print('FAIL %s  %s  %s  %s' % (o.where, o.rule, o.key, o.why))
            print('VIOLATION property=%s replay=%s' % (self.pid, replay))
        if self.selftest:
            print('   self-test: %s' % json.dumps(self.selftest.get('summary', {})))
        # ------------- evidence
        samples = [o.as_dict() for o in self.obs[:6]]
        # make sure failing ones are visible in samples
        samples += [o.as_dict() for o in failed[:6] if o.as_dict() not in samples]
        distinct = len({(o.rule, o.key) for o in self.obs})
        cov = dict(
            explanation=('static analysis of /repo/mininec/*.py (ast; no repository code is '
                         'executed): every obligation is one instance of a structural rule bound '
                         'to an anchor found on the current tree; the property is claimed only '
                         'through these necessary conditions.  Rules: ' +
                         '; '.join('%s = %s' % kv for kv in sorted(self.rules.items()))),
            obligations=len(self.obs),
            discharged=len(self.obs) - len(failed),
            evaluations=max(1, len(self.obs)),
            distinct_nontrivial=distinct,
            rule='one obligation per (rule, anchored construct); distinct = distinct (rule,key) '
                 'pairs; all are non-trivial in the sense that each names a construct that '
                 'exists on the analysed tree (instance floors enforce this)',
            samples=samples,
            exhaustive=True,
            analysed=self.analysed,
            per_rule={r: dict(total=v[0], ok=v[1]) for r, v in by_rule.items()},
            known_findings_open=[dict(rule=o.rule, key=o.key, where=o.where) for o, _ in known_hits],
            stale_known_findings=[dict(rule=k['rule'], key=k['key']) for k in stale],
            undecided_clauses=self.undecided,
            checker_cmd='./check %s --tier %s' % (self.pid, self.tier),
            trusted_base=['python ast/tokenize', 'pmv analyser (this directory)',
                          'seed type table (DESIGN.md appendix A, verified each run)'],
        )
        if self.selftest:
            cov['selftest'] = self.selftest
        if self.notes:
            cov['notes'] = self.notes
        ev = dict(property_id=self.pid, tier=self.tier, seed=self.seed, level='other',
                  coverage=cov, assumptions=self.assumptions, wall_s=round(wall, 3),
                  violations=len(violations))
        os.makedirs(EVIDENCE_DIR, exist_ok=True)
        with open(os.path.join(EVIDENCE_DIR, '%s.json' % self.pid), 'w') as f:
            json.dump(ev, f, indent=1, default=str)
        return 1 if violations else 0


def analysis_error(pid, tier, msg, seed=0):
    print('ANALYSIS-ERROR property=%s %s' % (pid, msg))
    sys.stdout.flush()
    return 2
