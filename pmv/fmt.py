"""Abstract evaluation of string-building writer functions.

A writer builds lines from %-formats.  `Template` = list of pieces:
   ('lit', text) | ('conv', spec, arg expr or None) | ('var', description, element template, sep)
   | ('unk', text of the expression)
`emissions(func)` enumerates paths through the writer (if-branches forked, loop bodies executed
once and marked) and returns [(Template, conditions, in_loop)] for every appended / returned line.
"""
import ast
import re
from .model import norm, dotted, walk_no_nested

CONV_RE = re.compile(r'%(?P<flags>[-+ #0]*)(?P<width>\*|\d+)?(?:\.(?P<prec>\*|\d+))?(?P<type>[diouxXeEfFgGcrsa%])')
MAX_PATHS = 512


def parse_format(text):
    """split a %-format string into pieces"""
    out = []
    pos = 0
    for mo in CONV_RE.finditer(text):
        if mo.start() > pos:
            out.append(('lit', text[pos:mo.start()]))
        if mo.group('type') == '%':
            out.append(('lit', '%'))
        else:
            out.append(('conv', mo.group(0), None))
        pos = mo.end()
    if pos < len(text):
        out.append(('lit', text[pos:]))
    return out


def merge_lits(pieces):
    out = []
    for p in pieces:
        if p[0] == 'lit' and out and out[-1][0] == 'lit':
            out[-1] = ('lit', out[-1][1] + p[1])
        elif p[0] == 'lit' and p[1] == '':
            continue
        else:
            out.append(p)
    return out


class TupleVal:
    """abstract tuple of argument expressions; ('star', expr) marks a part of unknown length"""

    def __init__(self, items):
        self.items = items


class ListVal:
    def __init__(self, items, open_=False):
        self.items = items      # list of Templates (each a list of pieces)
        self.open = open_       # appended to inside a loop -> repeated entries


class Evaluator:
    def __init__(self, func):
        self.func = func

    # ---------------------------------------------------------------- expressions
    def tuple_of(self, e, env):
        if isinstance(e, ast.Tuple):
            items = []
            for x in e.elts:
                if isinstance(x, ast.Starred):
                    items.append(('star', x.value))
                else:
                    items.append(x)
            return TupleVal(items)
        if isinstance(e, ast.Name) and isinstance(env.get(e.id), TupleVal):
            return env[e.id]
        if isinstance(e, ast.BinOp) and isinstance(e.op, ast.Add):
            a = self.tuple_of(e.left, env)
            b = self.tuple_of(e.right, env)
            if a is not None and b is not None:
                return TupleVal(a.items + b.items)
            return None
        if isinstance(e, ast.Call) and isinstance(e.func, ast.Name) and e.func.id == 'tuple' and e.args:
            a = e.args[0]
            if isinstance(a, ast.GeneratorExp) or isinstance(a, ast.ListComp):
                return TupleVal([('star', a)])
            return TupleVal([('star', a)])
        if isinstance(e, ast.Call) and isinstance(e.func, ast.Name) and e.func.id == 'format_float' and e.args:
            inner = self.tuple_of(e.args[0], env)
            if inner is None and isinstance(e.args[0], (ast.List,)):
                inner = TupleVal(list(e.args[0].elts))
            if inner is not None:
                return TupleVal([('ff', x, e) if not (isinstance(x, tuple)) else x for x in inner.items])
            return TupleVal([('star', e)])
        return None

    def template(self, e, env):
        """Template (list of pieces) of a string-valued expression"""
        if isinstance(e, ast.Constant) and isinstance(e.value, str):
            return parse_format(e.value) if '%' in e.value else [('lit', e.value)]
        if isinstance(e, ast.Name):
            v = env.get(e.id)
            if isinstance(v, list):
                return list(v)
            return [('unk', e.id)]
        if isinstance(e, ast.BinOp) and isinstance(e.op, ast.Add):
            return merge_lits(self.template(e.left, env) + self.template(e.right, env))
        if isinstance(e, ast.BinOp) and isinstance(e.op, ast.Mult):
            l = self.template(e.left, env)
            if isinstance(e.right, ast.Constant) and isinstance(e.right.value, int):
                return merge_lits(l * e.right.value)
            return [('unk', norm(e))]
        if isinstance(e, ast.BinOp) and isinstance(e.op, ast.Mod):
            l = self.template(e.left, env)
            return self.apply(l, e.right, env)
        if isinstance(e, ast.Call):
            fn = e.func
            if isinstance(fn, ast.Attribute) and fn.attr == 'join' and len(e.args) == 1:
                sep = self.template(fn.value, env)
                septxt = ''.join(p[1] for p in sep if p[0] == 'lit') if all(p[0] == 'lit' for p in sep) else None
                a = e.args[0]
                if isinstance(a, (ast.GeneratorExp, ast.ListComp)):
                    env2 = dict(env)
                    el = self.template(a.elt, env2)
                    it = a.generators[0].iter
                    if isinstance(it, ast.Name) and isinstance(env.get(it.id), TupleVal) and \
                       not any(isinstance(x, tuple) and x[0] == 'star' for x in env[it.id].items) \
                       and septxt is not None and not a.generators[0].ifs:
                        out = []
                        for i in range(len(env[it.id].items)):
                            if i:
                                out.append(('lit', septxt))
                            out += el if el else [('unk', '')]
                        return out
                    return [('var', norm(a.generators[0].iter), el, septxt)]
                lv = self.list_of(a, env)
                if lv is not None and septxt is not None:
                    out = []
                    for i, t in enumerate(lv.items):
                        if i:
                            out.append(('lit', septxt))
                        out += t
                    if lv.open:
                        out.append(('var', 'more', [], septxt))
                    return merge_lits(out)
                return [('unk', norm(e))]
            if isinstance(fn, ast.Name) and fn.id == 'str' and len(e.args) == 1:
                return [('conv', '%s', e.args[0])]
            if isinstance(fn, ast.Attribute) and fn.attr in ('strip', 'rstrip', 'lstrip') and not e.args:
                return self.template(fn.value, env)
            return [('unk', norm(e))]
        if isinstance(e, ast.JoinedStr):
            out = []
            for v in e.values:
                if isinstance(v, ast.Constant):
                    out.append(('lit', v.value))
                elif isinstance(v, ast.FormattedValue):
                    spec = '%s'
                    out.append(('conv', spec, v.value))
            return merge_lits(out)
        if isinstance(e, ast.IfExp):
            return [('unk', norm(e))]
        if isinstance(e, ast.Subscript):
            return [('unk', norm(e))]
        return [('unk', norm(e))]

    def list_of(self, e, env):
        if isinstance(e, ast.List):
            return ListVal([self.template(x, env) for x in e.elts])
        if isinstance(e, ast.Name) and isinstance(env.get(e.id), ListVal):
            return env[e.id]
        if isinstance(e, ast.BinOp) and isinstance(e.op, ast.Mult):
            l = self.list_of(e.left, env)
            if l is not None and isinstance(e.right, ast.Constant) and isinstance(e.right.value, int):
                return ListVal(l.items * e.right.value)
        if isinstance(e, ast.BinOp) and isinstance(e.op, ast.Add):
            a, b = self.list_of(e.left, env), self.list_of(e.right, env)
            if a is not None and b is not None:
                return ListVal(a.items + b.items)
        return None

    def apply(self, tmpl, right, env):
        convs = [i for i, p in enumerate(tmpl) if p[0] == 'conv' and p[2] is None]
        tv = self.tuple_of(right, env)
        out = list(tmpl)
        if tv is None:
            if len(convs) == 1:
                out[convs[0]] = ('conv', tmpl[convs[0]][1], right)
                out = self._expand_s(out, env)
            return out
        items = tv.items
        # bind from the left up to the first star, from the right down to the last star
        i = 0
        while i < len(items) and i < len(convs) and not (isinstance(items[i], tuple) and items[i][0] == 'star'):
            out[convs[i]] = ('conv', tmpl[convs[i]][1], items[i])
            i += 1
        if i < len(items):
            j = 1
            while j <= len(items) - i and j <= len(convs) - i and \
                    not (isinstance(items[-j], tuple) and items[-j][0] == 'star'):
                out[convs[-j]] = ('conv', tmpl[convs[-j]][1], items[-j])
                j += 1
        return self._expand_s(out, env)

    def _expand_s(self, pieces, env):
        """a %s conversion whose argument is itself a string expression we can evaluate
        (sep.join(...), another template) is replaced by that template"""
        out = []
        for p in pieces:
            if p[0] == 'conv' and p[1] == '%s' and isinstance(p[2], ast.AST):
                a = p[2]
                if isinstance(a, ast.Call) and isinstance(a.func, ast.Attribute) and a.func.attr == 'join':
                    out += self.template(a, env)
                    continue
            out.append(p)
        return merge_lits(out)

    # ---------------------------------------------------------------- statements
    def emissions(self):
        """[(Template, conds, in_loop, node, path conds)]"""
        results = []
        self.npaths = 0
        finals = self._paths(self.func.body(), {}, [], (), False)
        for (env, out, conds, ret) in finals:
            self.npaths += 1
            if ret is not None:
                self._return(ret, env, out, conds, results)
        return results

    def _paths(self, stmts, env, out, conds, in_loop):
        """enumerate paths through stmts; returns [(env, out, conds, return stmt or None)];
        a path that ended with return/raise carries ret != None / 'raise' / 'jump'"""
        states = [(env, out, conds, None)]
        for st in stmts:
            nxt = []
            for (e, o, c, r) in states:
                if r is not None:
                    nxt.append((e, o, c, r))
                    continue
                if isinstance(st, ast.If):
                    t = norm(st.test)
                    nxt += self._paths(st.body, self._copy(e), list(o), c + ((t, True),), in_loop)
                    nxt += self._paths(st.orelse, self._copy(e), list(o), c + ((t, False),), in_loop)
                elif isinstance(st, (ast.For, ast.While)):
                    lc = ('loop', norm(st.iter) if isinstance(st, ast.For) else norm(st.test))
                    body = self._paths(st.body, self._copy(e), [], c + (lc,), True)
                    e2 = self._copy(e)
                    o2 = list(o)
                    seen = set()
                    for (be, bo, bc, br) in body:
                        for ent in bo:
                            k = (template_text(ent[0]), ent[1])
                            if k not in seen:
                                seen.add(k)
                                o2.append((ent[0], ent[1], True, ent[3]))
                        for name, v in be.items():
                            if isinstance(v, ListVal) and isinstance(e2.get(name), ListVal):
                                if len(v.items) > len(e2[name].items):
                                    e2[name].open = True
                                    for it in v.items[len(e.get(name).items) if isinstance(e.get(name), ListVal) else 0:]:
                                        if it not in e2[name].items:
                                            e2[name].items.append(it)
                    nxt.append((e2, o2, c, None))
                elif isinstance(st, ast.Return):
                    nxt.append((e, o, c, st))
                elif isinstance(st, ast.Raise):
                    nxt.append((e, o, c, 'raise'))
                elif isinstance(st, (ast.Continue, ast.Break)):
                    nxt.append((e, o, c, 'jump'))
                else:
                    self._simple(st, e, o, c, in_loop)
                    nxt.append((e, o, c, None))
            states = nxt
            if len(states) > MAX_PATHS:
                states = states[:MAX_PATHS]
        if in_loop:
            # continue/break end the iteration, not the function
            states = [(e, o, c, None if r == 'jump' else r) for (e, o, c, r) in states]
        return [(e, o, c, r) for (e, o, c, r) in states if r != 'raise' or True]

    def _copy(self, env):
        e = {}
        for k, v in env.items():
            if isinstance(v, ListVal):
                e[k] = ListVal(list(v.items), v.open)
            elif isinstance(v, list):
                e[k] = list(v)
            else:
                e[k] = v
        return e

    def _simple(self, st, env, out, conds, in_loop):
        if isinstance(st, ast.Assign) and len(st.targets) == 1 and isinstance(st.targets[0], ast.Name):
            name = st.targets[0].id
            v = st.value
            tv = self.tuple_of(v, env)
            if tv is not None and not (isinstance(v, ast.Call) and isinstance(v.func, ast.Name)
                                       and v.func.id == 'format_float'):
                env[name] = tv
                return
            lv = self.list_of(v, env)
            if lv is not None:
                env[name] = ListVal(list(lv.items), lv.open)
                return
            env[name] = self.template(v, env)
            return
        if isinstance(st, ast.AugAssign) and isinstance(st.target, ast.Name) and isinstance(st.op, ast.Add):
            name = st.target.id
            cur = env.get(name)
            if isinstance(cur, list):
                env[name] = merge_lits(cur + self.template(st.value, env))
            elif isinstance(cur, TupleVal):
                tv = self.tuple_of(st.value, env)
                env[name] = TupleVal(cur.items + (tv.items if tv else [('star', st.value)]))
            return
        if isinstance(st, ast.Expr) and isinstance(st.value, ast.Call):
            c = st.value
            if isinstance(c.func, ast.Attribute) and c.func.attr == 'append' and \
               isinstance(c.func.value, ast.Name) and len(c.args) == 1:
                name = c.func.value.id
                lv = env.get(name)
                if isinstance(lv, ListVal):
                    t = self.template(c.args[0], env)
                    lv.items.append(t)
                    if in_loop:
                        lv.open = True
                    out.append((t, conds, in_loop, c))
            return

    def _return(self, st, env, out, conds, results):
        if not isinstance(st, ast.Return):
            return
        v = st.value
        if v is None:
            return
        # '\n'.join(r) / ' '.join(r) / ''.join(l) : the appended entries are the lines
        if isinstance(v, ast.Call) and isinstance(v.func, ast.Attribute) and v.func.attr == 'join' \
           and len(v.args) == 1 and isinstance(v.args[0], ast.Name) and \
           isinstance(env.get(v.args[0].id), ListVal):
            name = v.args[0].id
            sep = self.template(v.func.value, env)
            septxt = ''.join(p[1] for p in sep if p[0] == 'lit')
            if '\n' in septxt:
                for (t, c, il, node) in out:
                    results.append((t, c, il, node, conds))
            else:
                # joined into one line
                lv = env[name]
                pieces = []
                for i, t in enumerate(lv.items):
                    if i:
                        pieces.append(('lit', septxt))
                    pieces += t
                results.append((merge_lits(pieces), conds, False, st, conds))
            return
        t = self.template(v, env)
        results.append((t, conds, False, st, conds))


def template_text(t):
    out = []
    for p in t:
        if p[0] == 'lit':
            out.append(p[1])
        elif p[0] == 'conv':
            out.append(p[1])
        elif p[0] == 'var':
            out.append('<%s...>' % ''.join(q[1] for q in p[2] if q[0] in ('lit', 'conv')))
        else:
            out.append('<?>')
    return ''.join(out)


def arg_text(a):
    if a is None:
        return None
    if isinstance(a, tuple):
        if a[0] == 'star':
            return '*' + norm(a[1])
        if a[0] == 'ff':
            return 'format_float(%s)' % norm(a[1])
    return norm(a)


def written_values(e, flow=None, at=None, depth=0):
    """flatten the right-hand side of a %-format into the value expressions that are written:
    tuples, tuple concatenation, format_float(...), tuple(f(x) for x in format_float(...)),
    local temporaries (through `flow`)"""
    if depth > 6:
        return [e]
    if isinstance(e, ast.Tuple) or isinstance(e, ast.List):
        out = []
        for x in e.elts:
            out += written_values(x, flow, at, depth + 1) if isinstance(x, (ast.Tuple,)) else [x]
        return out
    if isinstance(e, ast.BinOp) and isinstance(e.op, ast.Add):
        l = written_values(e.left, flow, at, depth + 1)
        r = written_values(e.right, flow, at, depth + 1)
        if isinstance(e.left, (ast.Tuple, ast.Call, ast.Name, ast.BinOp, ast.Subscript)) and \
           isinstance(e.right, (ast.Tuple, ast.Call, ast.Name, ast.BinOp, ast.Subscript)) and \
           (isinstance(e.left, ast.Tuple) or isinstance(e.right, ast.Tuple) or
                _is_tuple_producer(e.left) or _is_tuple_producer(e.right)):
            return l + r
        return [e]
    if isinstance(e, ast.Call) and isinstance(e.func, ast.Name) and e.func.id == 'format_float' and e.args:
        return written_values(e.args[0], flow, at, depth + 1)
    if isinstance(e, ast.Call) and isinstance(e.func, ast.Name) and e.func.id == 'tuple' and e.args:
        a = e.args[0]
        if isinstance(a, (ast.GeneratorExp, ast.ListComp)) and len(a.generators) == 1:
            return written_values(a.generators[0].iter, flow, at, depth + 1)
        return written_values(a, flow, at, depth + 1)
    if isinstance(e, ast.Name) and flow is not None and e.id in flow.rd.names:
        sd = flow.single_def(e.id, at if at is not None else flow.node_id_of(e))
        if sd is not None and (isinstance(sd[0], (ast.Tuple,)) or _is_tuple_producer(sd[0])):
            return written_values(sd[0], flow, sd[1], depth + 1)
    return [e]


def _is_tuple_producer(e):
    return isinstance(e, ast.Call) and isinstance(e.func, ast.Name) and e.func.id in ('tuple', 'format_float')
