"""Thorough tier: in-memory self-test of the rules of one property.

MUTANTS   (one instance broken)  -> the named rule must newly fail
REFACTORS (behaviour preserved)  -> no new failure
Results go to evidence only; they never change the verdict on /repo."""
import importlib
import os
import sys
from concurrent.futures import ProcessPoolExecutor

from .model import Model, AnalysisError
from .ctx import Ctx
from .report import Checker
from .mutate import make_overrides


def _failing(pid, overrides):
    mod = importlib.import_module('pmv.props.%s' % pid)
    ctx = Ctx(overrides=overrides)
    ck = Checker(pid, 'quick')
    try:
        mod.run(ctx, ck)
    except AnalysisError as e:
        return {('ANALYSIS-ERROR', str(e)[:160])}
    return {(o.rule, o.key) for o in ck.obs if not o.ok}


def _job(args):
    pid, name, kind, edits, expect = args
    try:
        base_model = Model()
        ov = make_overrides(base_model, edits)
        if ov is None:
            return (name, kind, 'skipped', 'site not found on the current tree')
        try:
            Model(overrides=ov)
        except AnalysisError as e:
            return (name, kind, 'skipped', 'mutant does not parse: %s' % e)
        new = _failing(pid, ov)
        base = _failing(pid, None)
        fresh = sorted(new - base)
        if kind == 'mutant':
            hit = [f for f in fresh if any(x in f[0] or x in f[1] for x in expect)] if expect \
                else fresh
            if hit:
                return (name, kind, 'detected', '%s %s' % hit[0])
            return (name, kind, 'MISSED', 'new failures: %s' % (fresh[:3],))
        else:
            if fresh:
                return (name, kind, 'FALSE-ALARM', '%s %s' % fresh[0])
            return (name, kind, 'silent', '')
    except Exception as e:          # pragma: no cover
        return (name, kind, 'error', repr(e)[:200])


def run(pid, ck, jobs=None):
    try:
        cat = importlib.import_module('pmv.catalogue.%s' % pid)
    except ImportError:
        ck.selftest = dict(summary=dict(mutants=0, refactors=0, note='no catalogue'))
        return
    work = []
    for (name, edits, expect) in getattr(cat, 'MUTANTS', []):
        work.append((pid, name, 'mutant', edits, expect))
    for (name, edits) in getattr(cat, 'REFACTORS', []):
        work.append((pid, name, 'refactor', edits, None))
    jobs = jobs or min(16, os.cpu_count() or 4, max(1, len(work)))
    results = []
    if work:
        with ProcessPoolExecutor(max_workers=jobs) as ex:
            results = list(ex.map(_job, work))
    det = sum(1 for r in results if r[2] == 'detected')
    mis = [r for r in results if r[2] == 'MISSED']
    sil = sum(1 for r in results if r[2] == 'silent')
    fa = [r for r in results if r[2] == 'FALSE-ALARM']
    skipped = [r for r in results if r[2] in ('skipped', 'error')]
    nm = sum(1 for r in results if r[1] == 'mutant' and r[2] not in ('skipped', 'error'))
    nr = sum(1 for r in results if r[1] == 'refactor' and r[2] not in ('skipped', 'error'))
    ck.selftest = dict(
        summary=dict(mutants_detected='%d/%d' % (det, nm), refactors_silent='%d/%d' % (sil, nr),
                     skipped=len(skipped)),
        results=[dict(name=r[0], kind=r[1], outcome=r[2], detail=r[3]) for r in results])
    for r in mis + fa + skipped:
        print('   self-test %-11s %s: %s' % (r[2], r[0], r[3]))
