"""Which medium a ground reflection falls on (far field over real ground), decided by a small abstract
interpreter over scalar cases.

The far-field code compares the position D of the specular point with the table C of media boundaries
(ascending; the last medium extends to infinity) and derives an index J into the media tables.  The
statements that compute J are interpreted - by this module, nothing of the repository runs - for three
media with boundaries C = (10, 20, 1e99) and D in {5, 15, 25}; J must come out as 0, 1, 2: the first medium
whose boundary is not exceeded.  Understood: comparisons of D with C or an element of it, np.argmin /
np.argmax over the comparison, np.searchsorted / np.digitize, np.full / np.zeros initialisation, masked
stores `J[<comparison>] = n` inside loops over (enumerate of / reversed) C or its slices, if / else on
comparisons, len(C).  Anything else is an analysis error (exit 2).
"""
import ast
from ..model import AnalysisError, norm, dotted

BOUNDS = (10.0, 20.0, 1e99)
CASES = ((5.0, 0), (15.0, 1), (25.0, 2))


class _NotUnderstood(Exception):
    pass


class Interp:
    def __init__(self, coords_names, dist_name, d):
        self.env = {}
        self.coords = set(coords_names)
        self.dist = dist_name
        self.d = d

    def ev(self, e):
        if isinstance(e, ast.Constant):
            return e.value
        if isinstance(e, ast.Name):
            if e.id in self.env:
                return self.env[e.id]
            if e.id == self.dist:
                return self.d
            if e.id in self.coords:
                return list(BOUNDS)
            raise _NotUnderstood('name %s' % e.id)
        if isinstance(e, ast.Attribute) and e.attr in ('T', 'flat', 'shape'):
            if e.attr == 'shape':
                return ()
            return self.ev(e.value)
        if isinstance(e, ast.UnaryOp) and isinstance(e.op, ast.USub):
            return -self.ev(e.operand)
        if isinstance(e, ast.UnaryOp) and isinstance(e.op, ast.Not):
            return not self.ev(e.operand)
        if isinstance(e, ast.BinOp) and isinstance(e.op, (ast.Add, ast.Sub, ast.Mult)):
            a, b = self.ev(e.left), self.ev(e.right)
            if isinstance(a, list) or isinstance(b, list):
                raise _NotUnderstood('arithmetic on the table: %s' % norm(e)[:40])
            return a + b if isinstance(e.op, ast.Add) else (a - b if isinstance(e.op, ast.Sub) else a * b)
        if isinstance(e, ast.Compare) and len(e.ops) == 1:
            a, b = self.ev(e.left), self.ev(e.comparators[0])
            op = e.ops[0]
            fn = {ast.Lt: lambda x, y: x < y, ast.LtE: lambda x, y: x <= y, ast.Gt: lambda x, y: x > y,
                  ast.GtE: lambda x, y: x >= y, ast.Eq: lambda x, y: x == y, ast.NotEq: lambda x, y: x != y}.get(type(op))
            if fn is None:
                raise _NotUnderstood('comparison %s' % norm(e)[:40])
            if isinstance(a, list) and not isinstance(b, list):
                return [fn(x, b) for x in a]
            if isinstance(b, list) and not isinstance(a, list):
                return [fn(a, y) for y in b]
            if isinstance(a, list):
                raise _NotUnderstood('table compared with table')
            return fn(a, b)
        if isinstance(e, ast.Subscript):
            v = self.ev(e.value)
            if isinstance(e.slice, ast.Slice):
                if not isinstance(v, list):
                    return v
                lo = self.ev(e.slice.lower) if e.slice.lower is not None else None
                hi = self.ev(e.slice.upper) if e.slice.upper is not None else None
                st = self.ev(e.slice.step) if e.slice.step is not None else None
                return v[lo:hi:st]
            i = self.ev(e.slice)
            if isinstance(v, list) and isinstance(i, int):
                return v[i]
            raise _NotUnderstood('subscript %s' % norm(e)[:40])
        if isinstance(e, ast.Call):
            nm = (dotted(e.func) or '').split('.')[-1]
            args = e.args
            if nm == 'len' and len(args) == 1:
                v = self.ev(args[0])
                return len(v) if isinstance(v, list) else 1
            if nm in ('full', 'full_like') and len(args) >= 2:
                return self.ev(args[1])
            if nm in ('zeros', 'zeros_like'):
                return 0
            if nm in ('ones', 'ones_like'):
                return 1
            if nm in ('argmin', 'argmax') and args:
                v = self.ev(args[0])
                if not isinstance(v, list):
                    raise _NotUnderstood('%s of a scalar' % nm)
                best = min(v) if nm == 'argmin' else max(v)
                return v.index(best)
            if nm == 'searchsorted' and len(args) >= 2:
                import bisect
                c, d = self.ev(args[0]), self.ev(args[1])
                side = [k.value.value for k in e.keywords if k.arg == 'side' and isinstance(k.value, ast.Constant)]
                return (bisect.bisect_right if side == ['right'] else bisect.bisect_left)(c, d)
            if nm == 'digitize' and len(args) >= 2:
                import bisect
                d, c = self.ev(args[0]), self.ev(args[1])
                right = any(k.arg == 'right' and isinstance(k.value, ast.Constant) and k.value.value for k in e.keywords)
                return (bisect.bisect_left if right else bisect.bisect_right)(c, d)
            if nm in ('array', 'asarray', 'reshape', 'tile', 'list', 'tuple', 'sorted', 'copy') and args:
                return self.ev(args[0])
            if nm == 'reversed' and len(args) == 1:
                return list(reversed(self.ev(args[0])))
            if nm == 'enumerate' and 1 <= len(args) <= 2:
                start = self.ev(args[1]) if len(args) == 2 else 0
                return [(start + i, x) for i, x in enumerate(self.ev(args[0]))]
            if nm == 'range':
                return list(range(*[self.ev(a) for a in args]))
            if nm in ('sum', 'count_nonzero') and len(args) >= 1:
                v = self.ev(args[0])
                return sum(1 for x in v if x) if isinstance(v, list) else int(bool(v))
            if nm in ('min', 'minimum') and len(args) == 2:
                return min(self.ev(args[0]), self.ev(args[1]))
            if nm in ('prod',):
                return 1
        if isinstance(e, ast.Tuple):
            return tuple(self.ev(x) for x in e.elts)
        raise _NotUnderstood(norm(e)[:50])

    def assign(self, t, v):
        if isinstance(t, ast.Name):
            self.env[t.id] = v
        elif isinstance(t, (ast.Tuple, ast.List)):
            for x, y in zip(t.elts, v):
                self.assign(x, y)
        elif isinstance(t, ast.Subscript) and isinstance(t.value, ast.Name):
            mask = self.ev(t.slice)
            if isinstance(mask, list):
                raise _NotUnderstood('store under a table mask')
            if mask is True or (isinstance(mask, (int, float)) and not isinstance(mask, bool)):
                self.env[t.value.id] = v
            elif mask is False:
                pass
            else:
                raise _NotUnderstood('store %s' % norm(t)[:40])
        else:
            raise _NotUnderstood('store %s' % norm(t)[:40])

    def run(self, stmts):
        for s in stmts:
            if isinstance(s, ast.Assign):
                v = self.ev(s.value)
                for t in s.targets:
                    self.assign(t, v)
            elif isinstance(s, ast.AugAssign) and isinstance(s.target, ast.Name):
                cur = self.env.get(s.target.id)
                v = self.ev(s.value)
                if isinstance(s.op, ast.Add):
                    self.env[s.target.id] = cur + v
                elif isinstance(s.op, ast.Sub):
                    self.env[s.target.id] = cur - v
                else:
                    raise _NotUnderstood(norm(s)[:40])
            elif isinstance(s, ast.AugAssign) and isinstance(s.target, ast.Subscript) and isinstance(s.target.value, ast.Name):
                mask = self.ev(s.target.slice)
                if mask is True:
                    cur = self.env.get(s.target.value.id)
                    v = self.ev(s.value)
                    self.env[s.target.value.id] = cur + v if isinstance(s.op, ast.Add) else cur - v
                elif mask is not False:
                    raise _NotUnderstood(norm(s)[:40])
            elif isinstance(s, ast.For):
                for item in self.ev(s.iter):
                    self.assign(s.target, item)
                    try:
                        self.run(s.body)
                    except _Break:
                        break
            elif isinstance(s, ast.If):
                self.run(s.body if self.ev(s.test) else s.orelse)
            elif isinstance(s, ast.Break):
                raise _Break()
            elif isinstance(s, (ast.Expr, ast.Pass)):
                if isinstance(s, ast.Expr) and isinstance(s.value, ast.Call) and isinstance(s.value.func, ast.Attribute) and \
                   s.value.func.attr == 'insert':
                    continue        # shape bookkeeping
                if isinstance(s, ast.Expr) and isinstance(s.value, ast.Constant):
                    continue
                raise _NotUnderstood(norm(s)[:40])
            else:
                raise _NotUnderstood(norm(s)[:40])


class _Break(Exception):
    pass


def check_medium_selection(ctx, ck, f, fl, cmp_, dist, rule='R-ORDER.medium-selection'):
    """f: flattened far-field function, cmp_: the comparison of `dist` with the boundaries"""
    from ..model import parent, enclosing_stmt
    # names holding the boundary table (or an element of it)
    coords = set()
    for n in ast.walk(f.node):
        if isinstance(n, ast.Name) and isinstance(n.ctx, ast.Load) and n.id in fl.rd.names and n.id != dist.id:
            try:
                nid = fl.node_id_of(n)
            except Exception:
                nid = None
            if nid is None:
                continue
            r = fl.roots(n, nid)
            if ('attrname', 'coord') in r and ('attr', 'self.current') not in r and \
               not any(x[0] == 'name' and x[1] == dist.id for x in r) and ('attrname', 'point') not in r:
                coords.add(n.id)
    # the side of the comparison that is not the distance: the table itself (whatever it was tiled / reshaped to)
    for side in (cmp_.left, cmp_.comparators[0]):
        if not any(isinstance(x, ast.Name) and x.id == dist.id for x in ast.walk(side)):
            coords |= {x.id for x in ast.walk(side) if isinstance(x, ast.Name) and x.id in fl.rd.names}
    if not coords:
        raise AnalysisError('medium selection: the table of media boundaries was not found')
    # the index variable: assigned (or stored under a mask) in the statement that holds the comparison
    st = enclosing_stmt(cmp_)
    jname = None
    if isinstance(st, ast.Assign):
        t = st.targets[0]
        while isinstance(t, ast.Subscript):
            t = t.value
        if isinstance(t, ast.Name):
            jname = t.id
    if jname is None:
        raise AnalysisError('medium selection: the index computed from the comparison %s was not found' % norm(cmp_)[:40])
    # the block: from the first plain assignment of the index (at the nesting level where it happens) to the
    # statement (or the loop) that holds the comparison
    top = st
    blk = None
    while True:
        p = parent(top)
        lst = None
        for fld in ('body', 'orelse', 'finalbody'):
            x = getattr(p, fld, None)
            if isinstance(x, list) and any(y is top for y in x):
                lst = x
        if lst is None:
            raise AnalysisError('medium selection: enclosing block not found')
        k = [i for i, y in enumerate(lst) if y is top][0]
        first = [i for i, y in enumerate(lst[:k + 1]) if isinstance(y, ast.Assign) and
                 any(isinstance(t_, ast.Name) and t_.id == jname for t_ in y.targets)]
        if first:
            blk = lst[first[0]:k + 1]
            break
        if isinstance(p, (ast.For, ast.If, ast.While)):
            top = p
            continue
        raise AnalysisError('medium selection: %s is not initialised before the comparison' % jname)
    got = []
    try:
        for d, want in CASES:
            it = Interp(coords, dist.id, d)
            it.run(blk)
            got.append((d, want, it.env.get(jname)))
    except _NotUnderstood as e:
        raise AnalysisError('medium selection: statement not understood by the case interpreter: %s' % e)
    bad = [(d, want, j) for d, want, j in got if j != want]
    ck.ob(rule, '%s|%s' % (f.qual, jname), not bad, f.loc(blk[0]),
          'boundaries (10, 20, inf): a reflection at 5 / 15 / 25 falls on medium %s' % [j for d, w, j in got] if not bad else
          'with media boundaries (10, 20, inf) a reflection at distance %g is assigned to medium %s instead of %s: not the '
          'first medium whose boundary is not exceeded' % (bad[0][0], bad[0][2], bad[0][1]))
