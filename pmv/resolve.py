"""Receiver-type inference, call resolution, attribute effects, call graph.

Types are small tuples:
  ('inst', C)  ('cls', C)  ('func', qual)  ('bound', (qual,...))
  ('list', T) ('set', T) ('iter', T) ('dict', K, V) ('tuple', (T,...))
  ('prim', name)   ('union', frozenset(T))   UNKNOWN
"""
import ast
from .model import (AnalysisError, dotted, walk_no_nested, parent, norm)

UNKNOWN = ('unknown',)
BOTTOM = ('bottom',)        # element type of an empty container literal
NONE = ('prim', 'none')
INT = ('prim', 'int')
FLOAT = ('prim', 'float')
STR = ('prim', 'str')
BOOL = ('prim', 'bool')
NDARRAY = ('prim', 'ndarray')
COMPLEX = ('prim', 'complex')


def inst(c):
    return ('inst', c)


def lst(t):
    return ('list', t)


def union(*ts):
    s = set()
    for t in ts:
        if t is None:
            continue
        if t[0] == 'union':
            s |= t[1]
        else:
            s.add(t)
    if len(s) > 1:
        s.discard(BOTTOM)
        # merge containers whose element is still BOTTOM with filled ones of the same kind
        for kind in ('list', 'set'):
            if (kind, BOTTOM) in s and any(x[0] == kind and x != (kind, BOTTOM) for x in s):
                s.discard((kind, BOTTOM))
        if ('dict', BOTTOM, BOTTOM) in s and any(
                x[0] == 'dict' and x != ('dict', BOTTOM, BOTTOM) for x in s):
            s.discard(('dict', BOTTOM, BOTTOM))
    if not s:
        return UNKNOWN
    if len(s) == 1:
        return next(iter(s))
    if len(s) > 12:
        # keep unions small: retain instance atoms, collapse the rest
        keep = {x for x in s if x[0] in ('inst', 'cls', 'bound', 'func')}
        keep.add(UNKNOWN)
        s = keep
        if len(s) == 1:
            return next(iter(s))
    return ('union', frozenset(s))


def atoms(t):
    if t[0] == 'union':
        return list(t[1])
    return [t]


def classes_of(t):
    return sorted({a[1] for a in atoms(t) if a[0] == 'inst'})


def has_unknown(t):
    return any(a == UNKNOWN for a in atoms(t))


def elem_of(t):
    out = []
    for a in atoms(t):
        if a[0] in ('list', 'set', 'iter'):
            out.append(a[1])
        elif a[0] == 'dict':
            out.append(a[1])
        elif a[0] == 'tuple':
            out.extend(a[1])
        elif a == STR:
            out.append(STR)
    return union(*out) if out else UNKNOWN


def is_kind(t, kind):
    return any(a[0] == kind for a in atoms(t))


MUTATORS = {'append', 'add', 'update', 'extend', 'insert', 'pop', 'remove', 'sort',
            'clear', 'setdefault', 'discard', 'popitem', 'reverse', 'fill'}

# seed table (DESIGN Appendix A); verified against the tree by Program.verify_seed()
SEED_ATTR = {
    ('Mininec', 'geo'): inst('Geo_Container'),
    ('Mininec', 'pulses'): inst('Pulse_Container'),
    ('Mininec', 'loads'): lst(inst('_Load')),
    ('Mininec', 'sources'): lst(inst('Excitation')),
    ('Mininec', 'media'): union(lst(inst('Medium')), NONE),
    ('Mininec', 'far_field'): inst('Far_Field_Pattern'),
    ('Mininec', 'far_field_angles'): ('tuple', (inst('Angle'), inst('Angle'))),
    ('Mininec', 'end_dict'): ('dict', ('tuple', (FLOAT,)), ('tuple', (INT, inst('Geobj')))),
    ('Geo_Container', 'geo'): lst(inst('Geobj')),
    ('Geo_Container', 'by_tag'): ('dict', INT, inst('Geobj')),
    ('Geo_Container', 'parent'): inst('Mininec'),
    ('Geobj', 'parent'): inst('Geo_Container'),
    ('Geobj', 'pulses'): lst(inst('Pulse')),
    ('Geobj', 'segments'): lst(inst('Segment')),
    ('Geobj', 'conn'): ('tuple', (inst('Connected_Geobj'), inst('Connected_Geobj'))),
    ('Geobj', 'skin_load'): union(inst('Skin_Effect_Load'), NONE),
    ('Geobj', 'coat_load'): union(inst('Insulation_Load'), NONE),
    ('Connected_Geobj', 'geo'): ('set', inst('Geobj')),
    ('Connected_Geobj', 'list'): lst(('tuple', (inst('Geobj'), inst('Geobj'), INT, INT))),
    ('Connected_Geobj', 'sgn_by_geobj'): ('dict', inst('Geobj'), INT),
    ('Pulse_Container', 'pulses'): lst(inst('Pulse')),
    ('Pulse', 'container'): inst('Pulse_Container'),
    ('Pulse', 'geo'): lst(inst('Geobj')),
    ('Pulse', 'segs'): lst(inst('Segment')),
    ('Pulse', 'geobj'): inst('Geobj'),
    ('Segment', 'geobj'): inst('Geobj'),
    ('_Load', 'pulses'): lst(inst('Pulse')),
    ('Distributed_Load', 'geobj'): inst('Geobj'),
    ('Excitation', 'parent'): inst('Mininec'),
    ('Medium', 'next'): union(inst('Medium'), NONE),
    ('Medium', 'prev'): union(inst('Medium'), NONE),
}

# parameters whose type cannot be inferred from call sites inside the package
SEED_PARAM = {
    ('mininec.Mininec.__init__', 'geo'): union(inst('Geo_Container'), lst(inst('Geobj'))),
    ('mininec.Mininec.__init__', 'media'): union(lst(inst('Medium')), NONE),
    ('mininec.Mininec.register_source', 'source'): inst('Excitation'),
    ('mininec.Mininec.register_load', 'load'): inst('_Load'),
    ('mininec.Mininec.compute_far_field', 'zenith_angle'): inst('Angle'),
    ('mininec.Mininec.compute_far_field', 'azimuth_angle'): inst('Angle'),
    ('mininec.Mininec.as_basic_input', 'azi'): union(inst('Angle'), NONE),
    ('mininec.Mininec.as_basic_input', 'zen'): union(inst('Angle'), NONE),
    ('mininec.Mininec.as_cmdline', 'azi'): union(inst('Angle'), NONE),
    ('mininec.Mininec.as_cmdline', 'zen'): union(inst('Angle'), NONE),
    ('mininec._Load.impedance', 'pulse'): union(inst('Pulse'), NONE),
    ('mininec.Skin_Effect_Load.impedance', 'pulse'): inst('Pulse'),
    ('mininec.Insulation_Load.impedance', 'pulse'): inst('Pulse'),
    ('mininec.Laplace_Load.impedance', 'pulse'): union(inst('Pulse'), NONE),
    ('mininec.Skin_Effect_Load.__init__', 'geobj'): inst('Geobj'),
    ('mininec.Insulation_Load.__init__', 'geobj'): inst('Geobj'),
    ('mininec.Geo_Container.append', 'geobj'): inst('Geobj'),
    ('pulse.Pulse.__init__', 'container'): inst('Pulse_Container'),
    ('pulse.Pulse.__init__', 'seg1'): inst('Segment'),
    ('pulse.Pulse.__init__', 'seg2'): inst('Segment'),
    ('segment.Segment.__init__', 'geobj'): inst('Geobj'),
    ('mininec.Geobj.compute_connections', 'parent'): inst('Mininec'),
    ('mininec.Geobj._add_conn', 'parent'): inst('Mininec'),
    ('mininec.Geobj.as_basic_input', 'parent'): inst('Mininec'),
}
for _c in ('_Load', 'Impedance_Load', 'Laplace_Load', 'Series_RLC_Load', 'Trap_Load',
           'Skin_Effect_Load', 'Insulation_Load'):
    SEED_PARAM[('mininec.%s.as_cmdline' % _c, 'parent')] = inst('Mininec')
    SEED_PARAM[('mininec.%s.as_mininec' % _c, 'parent')] = inst('Mininec')
    SEED_PARAM[('mininec.%s.as_cmdline_load_attach' % _c, 'parent')] = inst('Mininec')


class CallEdge:
    __slots__ = ('caller', 'callee', 'node', 'kind', 'resolved')

    def __init__(self, caller, callee, node, kind, resolved=True):
        self.caller = caller
        self.callee = callee
        self.node = node
        self.kind = kind          # call | getter | setter | iter | len | getitem | bool | dyn-getattr | ctor | addr-taken
        self.resolved = resolved


class Effect:
    __slots__ = ('func', 'cls', 'attr', 'mode', 'node', 'resolved')

    def __init__(self, func, cls, attr, mode, node, resolved=True):
        self.func = func
        self.cls = cls            # owning class name or '?'
        self.attr = attr
        self.mode = mode          # read | write | aug | substore | subaug | mutcall:<m> | del | dynread | dynwrite
        self.node = node
        self.resolved = resolved

    def key(self):
        return (self.cls, self.attr)

    def __repr__(self):
        return '<%s %s.%s in %s>' % (self.mode, self.cls, self.attr, self.func.qual)


class Program:
    """Model + inferred types + call graph + effects."""

    def __init__(self, model, rounds=4):
        self.m = model
        self.attr_t = dict(SEED_ATTR)
        self.param_t = dict(SEED_PARAM)
        self.ret_t = {}
        self.env = {}               # func.qual -> {name: type}
        self._ret_busy = set()
        self.attr_definers = {}     # attr -> set(class names that assign self.attr / define property)
        self._collect_definers()
        self.verify_seed()
        for _ in range(rounds):
            self._round()
        self.edges = {}             # func.qual -> [CallEdge]
        self.effects = {}           # func.qual -> [Effect]
        self.unresolved_calls = []
        self.resolved_calls = 0
        self._build_graph()

    # ------------------------------------------------------------ attribute owners
    def _collect_definers(self):
        for f in self.m.all_funcs():
            if f.cls is None:
                continue
            for n in walk_no_nested(f.node):
                if isinstance(n, ast.Attribute) and isinstance(n.ctx, ast.Store) \
                   and isinstance(n.value, ast.Name) and n.value.id == 'self':
                    self.attr_definers.setdefault(n.attr, set()).add(f.cls.name)
        for c in self.m.classes.values():
            for name, f in c.methods.items():
                if f.kind in ('property', 'cached_property'):
                    self.attr_definers.setdefault(name, set()).add(c.name)
            for name in c.class_attrs:
                self.attr_definers.setdefault(name, set()).add(c.name)
        # attributes stored from outside (geobj.parent = self, pulse.idx = ...): typed receivers
        # are added in _round when receiver types are known.

    def verify_seed(self):
        for (c, a) in SEED_ATTR:
            ci = self.m.classes.get(c)
            if ci is None:
                raise AnalysisError('seed type table names missing class %s' % c)
            ok = False
            defs = self.attr_definers.get(a, set())
            fam = {x.name for x in ci.mro} | {x.name for x in ci.subclasses}
            if defs & fam:
                ok = True
            else:
                # assigned from outside through a typed receiver (geobj.parent = self)
                for f in self.m.all_funcs():
                    for n in walk_no_nested(f.node):
                        if isinstance(n, ast.Attribute) and n.attr == a \
                           and isinstance(n.ctx, ast.Store):
                            ok = True
                            break
                    if ok:
                        break
            if not ok:
                raise AnalysisError('seed type table: attribute %s.%s is no longer assigned' % (c, a))
        for (q, p) in SEED_PARAM:
            f = self.m.funcs.get(q)
            if f is None:
                # methods of optional subclasses may be inherited; only flag if class vanished
                cname = q.split('.')[1]
                if cname not in self.m.classes and '.' in q[len(q.split('.')[0]) + 1:]:
                    raise AnalysisError('seed param table names missing class in %s' % q)
                continue
            if p not in f.all_params:
                raise AnalysisError('seed param table: %s has no parameter %s' % (q, p))

    def owner(self, cname, attr):
        """canonical owners of attribute `attr` seen through static type `cname`:
        the nearest definer in the MRO, else definers among subclasses, else cname."""
        ci = self.m.classes.get(cname)
        if ci is None:
            return [cname]
        defs = self.attr_definers.get(attr, set())
        for c in ci.mro:
            if c.name in defs:
                # prefer the base-most definer in the MRO so that aliases coincide
                last = c.name
                for d in ci.mro[ci.mro.index(c):]:
                    if d.name in defs:
                        last = d.name
                return [last]
        subs = [s.name for s in ci.subclasses if s.name in defs]
        if subs:
            out = []
            for s in subs:
                for o in self.owner(s, attr):
                    if o not in out:
                        out.append(o)
            return out
        return [cname]

    # ------------------------------------------------------------ type inference
    def _round(self):
        self.ret_t = {}
        for f in self.m.all_funcs():
            self._infer_env(f)
        for f in self.m.all_funcs():
            self._collect_attr_and_params(f)

    def _base_env(self, f):
        env = {}
        if f.cls is not None and f.params and not f.is_static:
            env[f.params[0]] = inst(f.cls.name)
        for p in f.all_params:
            t = self.param_t.get((f.qual, p))
            if t is not None and p not in env:
                env[p] = t
        # defaults contribute too (None, numbers)
        for p, dv in f.defaults().items():
            if p not in env:
                continue
            env[p] = union(env[p], self._lit_type(dv))
        return env

    def _lit_type(self, node):
        if isinstance(node, ast.Constant):
            v = node.value
            if v is None:
                return NONE
            if isinstance(v, bool):
                return BOOL
            if isinstance(v, int):
                return INT
            if isinstance(v, float):
                return FLOAT
            if isinstance(v, complex):
                return COMPLEX
            if isinstance(v, str):
                return STR
        return UNKNOWN

    def _infer_env(self, f):
        base = self._base_env(f)
        prev = dict(base)
        nodes = list(walk_no_nested(f.node))
        for n in nodes:
            if isinstance(n, ast.Name) and isinstance(n.ctx, ast.Store) and n.id not in prev:
                prev[n.id] = BOTTOM
        for _ in range(7):
            env = prev          # expressions are evaluated under the previous iterate
            new = dict(base)
            for n in nodes:
                binds = []
                if isinstance(n, ast.Assign):
                    t = self.type_of(n.value, env, f)
                    for tg in n.targets:
                        binds += self._bind(tg, t)
                elif isinstance(n, ast.AnnAssign) and n.value is not None:
                    binds += self._bind(n.target, self.type_of(n.value, env, f))
                elif isinstance(n, ast.AugAssign) and isinstance(n.target, ast.Name):
                    binds.append((n.target.id, self.type_of(n.value, env, f)))
                elif isinstance(n, (ast.For, ast.comprehension)):
                    t = self.iter_elem(n.iter, env, f)
                    binds += self._bind(n.target, t)
                elif isinstance(n, ast.withitem) and n.optional_vars is not None:
                    binds += self._bind(n.optional_vars, self.type_of(n.context_expr, env, f))
                elif isinstance(n, ast.NamedExpr):
                    binds += self._bind(n.target, self.type_of(n.value, env, f))
                elif isinstance(n, ast.ExceptHandler) and n.name:
                    binds.append((n.name, ('prim', 'exception')))
                elif isinstance(n, ast.ImportFrom):
                    for a in n.names:
                        binds.append((a.asname or a.name, ('ext', '%s.%s' % (n.module, a.name))))
                elif isinstance(n, ast.Import):
                    for a in n.names:
                        binds.append((a.asname or a.name, ('ext', a.name)))
                elif isinstance(n, ast.Call) and isinstance(n.func, ast.Attribute) \
                        and isinstance(n.func.value, ast.Name) and n.args \
                        and n.func.attr in ('append', 'add', 'extend', 'update'):
                    cur = env.get(n.func.value.id)
                    if cur is not None and any(a[0] in ('list', 'set') for a in atoms(cur)):
                        at = self.type_of(n.args[0], env, f)
                        if n.func.attr in ('extend', 'update'):
                            at = elem_of(at)
                        kind = 'set' if n.func.attr in ('add', 'update') else 'list'
                        if at != UNKNOWN and at != BOTTOM:
                            binds.append((n.func.value.id, (kind, at)))
                elif isinstance(n, ast.Assign) and False:
                    pass
                if isinstance(n, ast.Assign):
                    for tg in n.targets:
                        if isinstance(tg, ast.Subscript) and isinstance(tg.value, ast.Name):
                            cur = env.get(tg.value.id)
                            if cur is not None and any(a[0] == 'dict' for a in atoms(cur)):
                                binds.append((tg.value.id, ('dict',
                                              self.type_of(tg.slice, env, f),
                                              self.type_of(n.value, env, f))))
                for name, t in binds:
                    old = new.get(name)
                    new[name] = t if old is None else union(old, t)
            if new == prev:
                break
            for k, v in prev.items():
                new.setdefault(k, v)
            prev = new
        self.env[f.qual] = {k: (UNKNOWN if v == BOTTOM else v) for k, v in prev.items()}

    def _bind(self, target, t):
        if isinstance(target, ast.Name):
            return [(target.id, t)]
        if isinstance(target, ast.Starred):
            return self._bind(target.value, lst(elem_of(t)))
        if isinstance(target, (ast.Tuple, ast.List)):
            out = []
            for i, e in enumerate(target.elts):
                sub = []
                for a in atoms(t):
                    if a[0] == 'tuple' and i < len(a[1]) and not any(
                            isinstance(x, ast.Starred) for x in target.elts):
                        sub.append(a[1][i])
                    elif a[0] in ('list', 'set', 'iter', 'tuple'):
                        sub.append(elem_of(a))
                    else:
                        sub.append(UNKNOWN)
                out += self._bind(e, union(*sub) if sub else UNKNOWN)
            return out
        return []

    def iter_elem(self, expr, env, f):
        t = self.type_of(expr, env, f)
        out = []
        for a in atoms(t):
            if a[0] == 'inst':
                it = self.m.resolve_method(a[1], '__iter__')
                if it is not None:
                    out.append(elem_of(self.ret_type(it)))
                else:
                    out.append(UNKNOWN)
            else:
                e = elem_of(a)
                out.append(e)
        return union(*out) if out else UNKNOWN

    def ret_type(self, func):
        q = func.qual
        if q in self.ret_t:
            return self.ret_t[q]
        if q in self._ret_busy:
            return UNKNOWN
        self._ret_busy.add(q)
        try:
            env = self.env.get(q)
            if env is None:
                env = self._base_env(func)
            rets, yields = [], []
            for n in walk_no_nested(func.node):
                if isinstance(n, ast.Return):
                    rets.append(NONE if n.value is None else self.type_of(n.value, env, func))
                elif isinstance(n, ast.Yield):
                    yields.append(UNKNOWN if n.value is None else self.type_of(n.value, env, func))
                elif isinstance(n, ast.YieldFrom):
                    yields.append(elem_of(self.type_of(n.value, env, func)))
            if yields:
                t = ('iter', union(*yields))
            elif rets:
                t = union(*rets)
            else:
                t = NONE
        finally:
            self._ret_busy.discard(q)
        self.ret_t[q] = t
        return t

    def attr_type(self, cname, attr):
        """type of recv.attr for recv: inst cname (through MRO, then subclasses)"""
        ci = self.m.classes.get(cname)
        if ci is None:
            return UNKNOWN
        out = []
        fam = list(ci.mro) + list(ci.subclasses)
        seen_prop = False
        for c in fam:
            f = c.methods.get(attr)
            if f is not None:
                if f.kind in ('property', 'cached_property'):
                    out.append(self.ret_type(f))
                    seen_prop = True
                else:
                    out.append(('bound', (f.qual,)))
                if c in ci.mro:
                    break
        for c in fam:
            t = self.attr_t.get((c.name, attr))
            if t is not None:
                out.append(t)
        if not out:
            return UNKNOWN
        return union(*out)

    def type_of(self, e, env, f):
        if e is None:
            return NONE
        if isinstance(e, ast.Constant):
            return self._lit_type(e)
        if isinstance(e, ast.Name):
            if e.id in env:
                return env[e.id]
            if e.id in self.m.classes:
                return ('cls', e.id)
            if e.id in self.m.module_funcs:
                return ('func', self.m.module_funcs[e.id].qual)
            mod = f.module.name if f is not None else 'mininec'
            imp = self.m.imports.get(mod, {})
            if e.id in imp and not imp[e.id].startswith('mininec'):
                return ('ext', imp[e.id])
            cv = self.m.module_consts.get((mod, e.id))
            if cv is not None:
                return self.type_of(cv, {}, None) if not isinstance(cv, ast.Name) else UNKNOWN
            if e.id in ('True', 'False'):
                return BOOL
            return UNKNOWN
        if isinstance(e, ast.Attribute):
            rt = self.type_of(e.value, env, f)
            out = []
            for a in atoms(rt):
                if a[0] == 'inst' and e.attr == '__class__':
                    out.append(('cls', a[1]))
                elif a[0] == 'inst' and e.attr == '__dict__':
                    out.append(('dict', STR, UNKNOWN))
                elif a[0] == 'inst':
                    out.append(self.attr_type(a[1], e.attr))
                elif a[0] == 'cls':
                    ci = self.m.classes.get(a[1])
                    if ci and e.attr == '__name__':
                        out.append(STR)
                    elif ci:
                        g = self.m.resolve_method(a[1], e.attr)
                        out.append(('func', g.qual) if g else UNKNOWN)
                elif a[0] == 'ext':
                    out.append(('ext', a[1] + '.' + e.attr))
                elif a[0] == 'inst' and False:
                    pass
                elif a == NDARRAY or a[0] == 'prim':
                    if e.attr in ('T', 'real', 'imag', 'flat'):
                        out.append(NDARRAY)
                    elif e.attr == 'shape':
                        out.append(('tuple', (INT,)))
                    else:
                        out.append(UNKNOWN)
                else:
                    out.append(UNKNOWN)
            return union(*out) if out else UNKNOWN
        if isinstance(e, ast.Call):
            return self._call_type(e, env, f)
        if isinstance(e, ast.Subscript):
            vt = self.type_of(e.value, env, f)
            out = []
            is_slice = isinstance(e.slice, ast.Slice)
            for a in atoms(vt):
                if a[0] == 'list':
                    out.append(a if is_slice else a[1])
                elif a[0] == 'dict':
                    out.append(a[2])
                elif a[0] == 'tuple':
                    if is_slice:
                        out.append(a)
                    elif isinstance(e.slice, ast.Constant) and isinstance(e.slice.value, int) \
                            and -len(a[1]) <= e.slice.value < len(a[1]):
                        out.append(a[1][e.slice.value])
                    else:
                        out.append(elem_of(a))
                elif a[0] == 'inst':
                    g = self.m.resolve_method(a[1], '__getitem__')
                    out.append(self.ret_type(g) if g else UNKNOWN)
                elif a == STR:
                    out.append(STR)
                elif a == NDARRAY:
                    out.append(NDARRAY)
                else:
                    out.append(UNKNOWN)
            return union(*out) if out else UNKNOWN
        if isinstance(e, ast.BoolOp):
            return union(*[self.type_of(v, env, f) for v in e.values])
        if isinstance(e, ast.IfExp):
            return union(self.type_of(e.body, env, f), self.type_of(e.orelse, env, f))
        if isinstance(e, ast.Tuple):
            if any(isinstance(x, ast.Starred) for x in e.elts):
                return ('tuple', (union(*[self.type_of(
                    x.value if isinstance(x, ast.Starred) else x, env, f) for x in e.elts]),))
            return ('tuple', tuple(self.type_of(x, env, f) for x in e.elts))
        if isinstance(e, ast.List):
            return lst(union(*[self.type_of(x, env, f) for x in e.elts]) if e.elts else BOTTOM)
        if isinstance(e, ast.Set):
            return ('set', union(*[self.type_of(x, env, f) for x in e.elts]))
        if isinstance(e, ast.Dict):
            ks = [self.type_of(k, env, f) for k in e.keys if k is not None]
            vs = [self.type_of(v, env, f) for v in e.values]
            return ('dict', union(*ks) if ks else BOTTOM, union(*vs) if vs else BOTTOM)
        if isinstance(e, (ast.ListComp, ast.GeneratorExp, ast.SetComp)):
            env2 = dict(env)
            for g in e.generators:
                for name, t in self._bind(g.target, self.iter_elem(g.iter, env2, f)):
                    env2[name] = t
            et = self.type_of(e.elt, env2, f)
            kind = {'ListComp': 'list', 'GeneratorExp': 'iter', 'SetComp': 'set'}[type(e).__name__]
            return (kind, et)
        if isinstance(e, ast.DictComp):
            env2 = dict(env)
            for g in e.generators:
                for name, t in self._bind(g.target, self.iter_elem(g.iter, env2, f)):
                    env2[name] = t
            return ('dict', self.type_of(e.key, env2, f), self.type_of(e.value, env2, f))
        if isinstance(e, ast.BinOp):
            lt = self.type_of(e.left, env, f)
            if isinstance(e.op, ast.Mod) and is_kind(lt, 'prim') and STR in atoms(lt):
                return STR
            if isinstance(e.op, ast.Add):
                rt = self.type_of(e.right, env, f)
                for a in atoms(lt):
                    if a[0] in ('list', 'tuple'):
                        if a[0] == 'tuple':
                            return ('tuple', (union(elem_of(a), elem_of(rt)),))
                        return union(lt, rt)
                if lt == STR or rt == STR:
                    return STR
            if isinstance(e.op, ast.Mult):
                for a in atoms(lt):
                    if a[0] in ('list', 'tuple') or a == STR:
                        return lt
            return ('prim', 'num')
        if isinstance(e, ast.UnaryOp):
            if isinstance(e.op, ast.Not):
                return BOOL
            return ('prim', 'num')
        if isinstance(e, ast.Compare):
            return BOOL
        if isinstance(e, ast.JoinedStr):
            return STR
        if isinstance(e, ast.Starred):
            return self.type_of(e.value, env, f)
        if isinstance(e, ast.NamedExpr):
            return self.type_of(e.value, env, f)
        return UNKNOWN

    def _call_type(self, e, env, f):
        fn = e.func
        if isinstance(fn, ast.Name):
            name = fn.id
            if name in env and env[name] != UNKNOWN:
                ft = env[name]
                out = []
                for a in atoms(ft):
                    if a[0] == 'ext':
                        out.append(('prim', 'external'))
                    elif a[0] == 'cls':
                        out.append(inst(a[1]))
                    elif a[0] == 'func':
                        out.append(self.ret_type(self.m.funcs[a[1]]))
                    elif a[0] == 'bound':
                        out += [self.ret_type(self.m.funcs[q]) for q in a[1] if q in self.m.funcs]
                return union(*out) if out else UNKNOWN
            if name in self.m.classes:
                return inst(name)
            if name in self.m.module_funcs:
                return self.ret_type(self.m.module_funcs[name])
            args = e.args
            if name in ('len', 'int', 'ord', 'id', 'hash'):
                return INT
            if name in ('float', 'abs'):
                return FLOAT
            if name == 'complex':
                return COMPLEX
            if name in ('str', 'repr', 'chr', 'format'):
                return STR
            if name in ('bool', 'isinstance', 'hasattr', 'callable', 'any', 'all'):
                return BOOL
            if name in ('sorted', 'list') and args:
                return lst(self.iter_elem(args[0], env, f))
            if name == 'list':
                return lst(BOTTOM)
            if name in ('set', 'frozenset'):
                return ('set', self.iter_elem(args[0], env, f) if args else BOTTOM)
            if name == 'tuple':
                return ('tuple', (self.iter_elem(args[0], env, f),)) if args else ('tuple', ())
            if name == 'dict':
                if args:
                    t = self.type_of(args[0], env, f)
                    if is_kind(t, 'dict'):
                        return t
                return ('dict', STR, UNKNOWN)
            if name in ('reversed', 'iter'):
                return ('iter', self.iter_elem(args[0], env, f)) if args else UNKNOWN
            if name == 'enumerate' and args:
                return ('iter', ('tuple', (INT, self.iter_elem(args[0], env, f))))
            if name == 'zip':
                return ('iter', ('tuple', tuple(self.iter_elem(a, env, f) for a in args)))
            if name == 'pairwise' and args:
                et = self.iter_elem(args[0], env, f)
                return ('iter', ('tuple', (et, et)))
            if name == 'range':
                return ('iter', INT)
            if name in ('min', 'max', 'sum', 'next'):
                if len(args) == 1:
                    return self.iter_elem(args[0], env, f)
                return union(*[self.type_of(a, env, f) for a in args]) if args else UNKNOWN
            if name == 'getattr' and len(args) >= 2:
                names = self.const_strings(args[1], f)
                if names:
                    t = union(*[self.type_of(ast.Attribute(value=args[0], attr=nm, ctx=ast.Load()), env, f)
                                for nm in names])
                    if len(args) > 2:
                        t = union(t, self.type_of(args[2], env, f))
                    return t
            if name == 'super':
                if f is not None and f.cls is not None:
                    return ('super', f.cls.name)
            if name == 'open':
                return ('prim', 'file')
            mod = f.module.name if f is not None else 'mininec'
            imp = self.m.imports.get(mod, {})
            if name in imp and not imp[name].startswith('mininec'):
                return ('prim', 'external')
            return UNKNOWN
        if isinstance(fn, ast.Attribute):
            rt = self.type_of(fn.value, env, f)
            out = []
            if any(a[0] == 'ext' for a in atoms(rt)):
                d = dotted(fn)
                if d and d.split('.')[0] in ('np', 'numpy'):
                    return NDARRAY
                return ('prim', 'external')
            if any(a == ('prim', 'external') for a in atoms(rt)):
                return ('prim', 'external')
            for a in atoms(rt):
                if a[0] == 'inst':
                    for g in self.m.dispatch(a[1], fn.attr):
                        if g.kind in ('property', 'cached_property'):
                            out.append(UNKNOWN)
                        else:
                            out.append(self.ret_type(g))
                elif a[0] == 'super':
                    g = self.m.resolve_method(a[1], fn.attr, after=a[1])
                    out.append(self.ret_type(g) if g else UNKNOWN)
                elif a[0] == 'dict':
                    if fn.attr == 'get':
                        out.append(union(a[2], NONE if len(e.args) < 2 else
                                         self.type_of(e.args[1], env, f)))
                    elif fn.attr in ('values',):
                        out.append(('iter', a[2]))
                    elif fn.attr in ('keys',):
                        out.append(('iter', a[1]))
                    elif fn.attr == 'items':
                        out.append(('iter', ('tuple', (a[1], a[2]))))
                    elif fn.attr in ('pop', 'setdefault'):
                        out.append(a[2])
                elif a[0] in ('set', 'list'):
                    if fn.attr in ('union', 'intersection', 'difference', 'copy'):
                        out.append(a)
                    elif fn.attr == 'pop':
                        out.append(a[1])
                elif a == STR:
                    if fn.attr in ('split', 'rsplit', 'splitlines'):
                        out.append(lst(STR))
                    elif fn.attr in ('strip', 'rstrip', 'lstrip', 'join', 'upper', 'lower',
                                     'replace', 'format'):
                        out.append(STR)
                    elif fn.attr in ('startswith', 'endswith'):
                        out.append(BOOL)
                elif a[0] == 'cls':
                    g = self.m.resolve_method(a[1], fn.attr)
                    out.append(self.ret_type(g) if g else UNKNOWN)
            d = dotted(fn)
            if d and d.split('.')[0] in ('np', 'numpy'):
                return NDARRAY
            return union(*out) if out else UNKNOWN
        return UNKNOWN

    def _collect_attr_and_params(self, f):
        env = self.env[f.qual]
        for n in walk_no_nested(f.node):
            if isinstance(n, (ast.Assign, ast.AugAssign)):
                targets = n.targets if isinstance(n, ast.Assign) else [n.target]
                vt = self.type_of(n.value, env, f)
                for tg in targets:
                    pairs = []
                    if isinstance(tg, ast.Attribute):
                        pairs.append((tg, vt))
                    elif isinstance(tg, (ast.Tuple, ast.List)):
                        for i, el in enumerate(tg.elts):
                            if isinstance(el, ast.Attribute):
                                sub = [a[1][i] if a[0] == 'tuple' and i < len(a[1]) else elem_of(a)
                                       for a in atoms(vt)]
                                pairs.append((el, union(*sub)))
                    for at, t in pairs:
                        rt = self.type_of(at.value, env, f)
                        for c in classes_of(rt):
                            self._add_attr(c, at.attr, t)
                            self.attr_definers.setdefault(at.attr, set())
                            if not (self.attr_definers[at.attr] &
                                    ({x.name for x in self.m.classes[c].mro} |
                                     {x.name for x in self.m.classes[c].subclasses})):
                                self.attr_definers[at.attr].add(c)
            elif isinstance(n, ast.Call):
                # recv.attr.append(x)  -> element type
                fn = n.func
                if isinstance(fn, ast.Attribute) and fn.attr in ('append', 'add') and n.args \
                   and isinstance(fn.value, ast.Attribute):
                    rt = self.type_of(fn.value.value, env, f)
                    et = self.type_of(n.args[0], env, f)
                    for c in classes_of(rt):
                        if (c, fn.value.attr) in self.attr_t or et != UNKNOWN:
                            kind = 'list' if fn.attr == 'append' else 'set'
                            self._add_attr(c, fn.value.attr, (kind, et))
                for g, bound_first in self.callees(n, env, f):
                    self._flow_args(n, g, env, f)
                # map(f, X) / filter(f, X): f is called with the elements of X
                if isinstance(fn, ast.Name) and fn.id in ('map', 'filter') and len(n.args) >= 2:
                    ft = self.type_of(n.args[0], env, f)
                    for a_ in atoms(ft):
                        gs_ = []
                        if a_[0] == 'bound':
                            gs_ = [self.m.funcs[q_] for q_ in a_[1] if q_ in self.m.funcs]
                        elif a_[0] == 'func' and a_[1] in self.m.funcs:
                            gs_ = [self.m.funcs[a_[1]]]
                        for g_ in gs_:
                            ps_ = g_.bound_params() if a_[0] == 'bound' else g_.params
                            for i_, x_ in enumerate(n.args[1:]):
                                if i_ < len(ps_):
                                    self._add_param(g_, ps_[i_], self.iter_elem(x_, env, f))

    def _add_attr(self, c, attr, t):
        if t == UNKNOWN or t == BOTTOM:
            return
        # store on the canonical owner
        for o in self.owner(c, attr):
            if (o, attr) in SEED_ATTR:
                continue        # seed wins
            old = self.attr_t.get((o, attr))
            self.attr_t[(o, attr)] = t if old is None else union(old, t)

    def _flow_args(self, call, g, env, f):
        params = g.bound_params()
        for i, a in enumerate(call.args):
            if isinstance(a, ast.Starred):
                break
            if i < len(params):
                self._add_param(g, params[i], self.type_of(a, env, f))
        for kw in call.keywords:
            if kw.arg and kw.arg in g.all_params:
                self._add_param(g, kw.arg, self.type_of(kw.value, env, f))

    def _add_param(self, g, p, t):
        if t == UNKNOWN or (g.qual, p) in SEED_PARAM:
            return
        old = self.param_t.get((g.qual, p))
        self.param_t[(g.qual, p)] = t if old is None else union(old, t)

    # ------------------------------------------------------------ call resolution
    def _class_table(self, cls, name):
        """class attribute `name` (own or inherited) when it is a literal and never stored on an instance"""
        for c in (getattr(cls, 'mro', None) or [cls]):
            v = c.class_attrs.get(name)
            if v is not None:
                for g in self.m.all_funcs():
                    for n in ast.walk(g.node):
                        if isinstance(n, ast.Attribute) and n.attr == name and isinstance(n.ctx, (ast.Store, ast.Del)):
                            return None
                return v
        return None

    def const_strings(self, e, f):
        """the string constants an expression can stand for: a literal, or a loop variable ranging over
        a literal tuple / a module-level constant tuple of strings; None when not decidable"""
        if isinstance(e, ast.Constant) and isinstance(e.value, str):
            return [e.value]
        if not isinstance(e, ast.Name) or f is None:
            return None
        from .symx import module_constants

        def strings_of(v):
            if isinstance(v, ast.Name):
                v = module_constants(f.module).get(v.id)
            elif isinstance(v, ast.Attribute) and isinstance(v.value, ast.Name) and v.value.id in ('self', 'cls') and \
                    f.cls is not None:
                # a class-level table of names: self._steps = ('a', 'b') in the class body (or a base class)
                v = self._class_table(f.cls, v.attr)
            if isinstance(v, (ast.Tuple, ast.List)) and v.elts and all(
                    isinstance(x, ast.Constant) and isinstance(x.value, str) for x in v.elts):
                return [x.value for x in v.elts]
            return None
        def column_of(v, i):
            """column i of a literal table of rows (tuple of tuples), module- or class-level"""
            if isinstance(v, ast.Name):
                v = module_constants(f.module).get(v.id)
            elif isinstance(v, ast.Attribute) and isinstance(v.value, ast.Name) and v.value.id in ('self', 'cls') and \
                    f.cls is not None:
                v = self._class_table(f.cls, v.attr)
            if isinstance(v, (ast.Tuple, ast.List)) and v.elts and all(
                    isinstance(r_, (ast.Tuple, ast.List)) and len(r_.elts) > i and isinstance(r_.elts[i], ast.Constant)
                    and isinstance(r_.elts[i].value, str) for r_ in v.elts):
                return [r_.elts[i].value for r_ in v.elts]
            return None
        out = None
        for n in ast.walk(f.node):
            if isinstance(n, (ast.For, ast.comprehension)) and isinstance(n.target, ast.Name) and n.target.id == e.id:
                ss = strings_of(n.iter)
                if ss is None:
                    return None
                out = (out or []) + ss
            elif isinstance(n, (ast.For, ast.comprehension)) and isinstance(n.target, ast.Tuple) and \
                    any(isinstance(t_, ast.Name) and t_.id == e.id for t_ in n.target.elts):
                # for name, factor in TABLE: the names are a column of the table
                i_ = [k_ for k_, t_ in enumerate(n.target.elts) if isinstance(t_, ast.Name) and t_.id == e.id][0]
                ss = column_of(n.iter, i_)
                if ss is None:
                    return None
                out = (out or []) + ss
            elif isinstance(n, ast.Name) and n.id == e.id and isinstance(n.ctx, ast.Store) and not (
                    isinstance(parent(n), (ast.For, ast.comprehension)) and parent(n).target is n) and not (
                    isinstance(parent(n), ast.Tuple) and isinstance(parent(parent(n)), (ast.For, ast.comprehension))
                    and parent(parent(n)).target is parent(n)):
                return None         # assigned elsewhere too
        if e.id in f.all_params:
            return None
        return out

    def callees(self, call, env, f):
        """[(Func, is_bound)] that an ast.Call may invoke (package functions only)."""
        fn = call.func
        out = []
        if isinstance(fn, ast.Name):
            name = fn.id
            t = env.get(name)
            if t is not None and t != UNKNOWN:
                for a in atoms(t):
                    if a[0] == 'cls':
                        g = self.m.resolve_method(a[1], '__init__')
                        if g:
                            out.append((g, True))
                    elif a[0] == 'func' and a[1] in self.m.funcs:
                        out.append((self.m.funcs[a[1]], False))
                    elif a[0] == 'bound':
                        out += [(self.m.funcs[q], True) for q in a[1] if q in self.m.funcs]
                if out:
                    return out
            if name in self.m.classes:
                g = self.m.resolve_method(name, '__init__')
                return [(g, True)] if g else []
            if name in self.m.module_funcs:
                return [(self.m.module_funcs[name], False)]
            return []
        if isinstance(fn, ast.Attribute):
            rt = self.type_of(fn.value, env, f)
            for a in atoms(rt):
                if a[0] == 'inst':
                    for g in self.m.dispatch(a[1], fn.attr):
                        if g.kind == 'method':
                            out.append((g, True))
                elif a[0] == 'super':
                    g = self.m.resolve_method(a[1], fn.attr, after=a[1])
                    if g:
                        out.append((g, True))
                elif a[0] == 'cls':
                    g = self.m.resolve_method(a[1], fn.attr)
                    if g:
                        out.append((g, False))
            return out
        # t[1](...) : address-taken bound methods
        t = self.type_of(fn, env, f)
        for a in atoms(t):
            if a[0] == 'bound':
                out += [(self.m.funcs[q], True) for q in a[1] if q in self.m.funcs]
            elif a[0] == 'func' and a[1] in self.m.funcs:
                out.append((self.m.funcs[a[1]], False))
        return out

    def _is_external_call(self, call, env, f):
        """True when the call certainly targets something outside the package."""
        fn = call.func
        if isinstance(fn, ast.Name):
            return True
        if isinstance(fn, ast.Attribute):
            d = dotted(fn)
            if d:
                head = d.split('.')[0]
                imp = self.m.imports.get(f.module.name, {})
                if head in imp and not imp[head].startswith('mininec'):
                    return True
                if head in ('np', 'sys', 'time', 'copy', 'itertools', 'datetime'):
                    return True
            rt = self.type_of(fn.value, env, f)
            ats = atoms(rt)
            if ats and all(a[0] in ('prim', 'list', 'set', 'dict', 'tuple', 'iter', 'ext')
                           for a in ats):
                return True
            # no class of the package defines a method of that name
            if not self.m.methods_named(fn.attr):
                return True
        return False

    # ------------------------------------------------------------ graph + effects
    def _build_graph(self):
        for f in self.m.all_funcs():
            self.edges[f.qual] = []
            self.effects[f.qual] = []
        for f in self.m.all_funcs():
            self._scan(f)

    def _edge(self, f, g, node, kind, resolved=True):
        self.edges[f.qual].append(CallEdge(f, g, node, kind, resolved))

    def _effect(self, f, recv_expr, attr, mode, node, env):
        rt = self.type_of(recv_expr, env, f)
        cs = classes_of(rt)
        if cs:
            seen = set()
            for c in cs:
                for o in self.owner(c, attr):
                    if o not in seen:
                        seen.add(o)
                        self.effects[f.qual].append(Effect(f, o, attr, mode, node, True))
        else:
            ats = atoms(rt)
            if ats and all(a[0] in ('prim', 'list', 'set', 'dict', 'tuple', 'iter', 'cls', 'func',
                                    'bound', 'super', 'ext') for a in ats):
                return      # attribute of a builtin value (.real, .T, .shape ...)
            if attr not in self.attr_definers and not self.m.methods_named(attr):
                return      # no class of the package has an attribute of that name
            self.effects[f.qual].append(Effect(f, '?', attr, mode, node, False))

    def _scan(self, f):
        env = dict(self.env[f.qual])
        addr_taken = []
        comp_envs = {}

        def env_at(node):
            # comprehension variables: extend env for nodes inside a comprehension
            e = env
            chain = []
            p = node
            while p is not None and p is not f.node:
                if isinstance(p, (ast.ListComp, ast.GeneratorExp, ast.SetComp, ast.DictComp)):
                    chain.append(p)
                p = parent(p)
            for comp in reversed(chain):
                if id(comp) not in comp_envs:
                    e2 = dict(e)
                    for g in comp.generators:
                        for name, t in self._bind(g.target, self.iter_elem(g.iter, e2, f)):
                            e2[name] = t
                    comp_envs[id(comp)] = e2
                e = comp_envs[id(comp)]
            return e

        for n in walk_no_nested(f.node):
            if isinstance(n, ast.Call):
                self._scan_call(f, n, env_at(n))
            elif isinstance(n, ast.Attribute):
                self._scan_attr(f, n, env_at(n))
            elif isinstance(n, (ast.For, ast.comprehension)):
                self._proto(f, n.iter, '__iter__', 'iter', env_at(n.iter))
            elif isinstance(n, ast.Subscript):
                e = env_at(n)
                if isinstance(n.ctx, ast.Load):
                    self._proto(f, n.value, '__getitem__', 'getitem', e)
                # stores through subscripts: recv.attr[...] = v
                if isinstance(n.ctx, (ast.Store, ast.Del)):
                    base = n.value
                    while isinstance(base, ast.Subscript):
                        base = base.value
                    if isinstance(base, ast.Attribute):
                        p = parent(n)
                        while isinstance(p, (ast.Subscript, ast.Tuple, ast.List)):
                            p = parent(p)
                        mode = 'subaug' if isinstance(p, ast.AugAssign) else 'substore'
                        self._effect(f, base.value, base.attr, mode, n, e)
                    elif isinstance(base, ast.Attribute) is False and isinstance(base, ast.Name):
                        pass
            elif isinstance(n, (ast.If, ast.While, ast.IfExp)):
                self._truth(f, n.test, env_at(n.test))
            elif isinstance(n, ast.Assert):
                self._truth(f, n.test, env_at(n.test))
            elif isinstance(n, ast.BoolOp):
                for v in n.values:
                    self._truth(f, v, env_at(v), descend=False)
            elif isinstance(n, ast.UnaryOp) and isinstance(n.op, ast.Not):
                self._truth(f, n.operand, env_at(n.operand), descend=False)

    def _truth(self, f, test, env, descend=True):
        if isinstance(test, (ast.BoolOp,)) and descend:
            return      # handled per value
        if isinstance(test, ast.UnaryOp) and isinstance(test.op, ast.Not):
            return
        t = self.type_of(test, env, f)
        for c in classes_of(t):
            g = self.m.resolve_method(c, '__bool__') or self.m.resolve_method(c, '__len__')
            if g:
                for h in self.m.dispatch(c, g.name):
                    self._edge(f, h, test, 'bool')

    def _proto(self, f, expr, dunder, kind, env):
        t = self.type_of(expr, env, f)
        for c in classes_of(t):
            for g in self.m.dispatch(c, dunder):
                self._edge(f, g, expr, kind)

    def _scan_attr(self, f, n, env):
        par = parent(n)
        is_call_func = isinstance(par, ast.Call) and par.func is n
        rt = self.type_of(n.value, env, f)
        cs = classes_of(rt)
        if isinstance(n.ctx, ast.Load):
            handled = False
            for c in cs:
                gs = self.m.dispatch(c, n.attr)
                props = [g for g in gs if g.kind in ('property', 'cached_property')]
                for g in props:
                    self._edge(f, g, n, 'getter')
                    handled = True
                meths = [g for g in gs if g.kind == 'method']
                if meths and not is_call_func:
                    for g in meths:
                        self._edge(f, g, n, 'addr-taken')
                if not gs:
                    # dynamic attribute protocol
                    ga = self.m.resolve_method(c, '__getattr__')
                    defs = self.attr_definers.get(n.attr, set())
                    fam = {x.name for x in self.m.classes[c].mro} | \
                          {x.name for x in self.m.classes[c].subclasses}
                    if ga is not None and not (defs & fam):
                        self._edge(f, ga, n, 'getattr-proto')
                        if n.attr.startswith('matrix_'):
                            suffix = n.attr.split('_', 1)[1]
                            for g in self.m.dispatch(c, suffix):
                                self._edge(f, g, n, 'getter')
            if is_call_func and any(self.m.dispatch(c, n.attr) for c in cs):
                return      # method call: not an attribute read
            mode = 'read'
            # mutation through method call on the attribute value: recv.attr.append(x)
            if isinstance(par, ast.Attribute) and par.value is n and par.attr in MUTATORS:
                pp = parent(par)
                if isinstance(pp, ast.Call) and pp.func is par:
                    self._effect(f, n.value, n.attr, 'mutcall:' + par.attr, n, env)
            self._effect(f, n.value, n.attr, mode, n, env)
        elif isinstance(n.ctx, ast.Store):
            mode = 'aug' if isinstance(par, ast.AugAssign) and par.target is n else 'write'
            for c in cs:
                s = self.m.resolve_setter(c, n.attr)
                if s is not None:
                    self._edge(f, s, n, 'setter')
                for sc in self.m.classes[c].subclasses:
                    s2 = self.m.resolve_setter(sc.name, n.attr)
                    if s2 is not None and s2 is not s:
                        self._edge(f, s2, n, 'setter')
            self._effect(f, n.value, n.attr, mode, n, env)
            if mode == 'aug':
                self._effect(f, n.value, n.attr, 'read', n, env)
        elif isinstance(n.ctx, ast.Del):
            self._effect(f, n.value, n.attr, 'del', n, env)

    def _scan_call(self, f, n, env):
        fn = n.func
        # dynamic attribute access
        if isinstance(fn, ast.Name) and fn.id in ('getattr', 'setattr', 'delattr', 'hasattr') \
           and len(n.args) >= 2:
            names = self.const_strings(n.args[1], f)
            if names:
                for nm in names:
                    if fn.id in ('getattr', 'hasattr'):
                        fake = ast.Attribute(value=n.args[0], attr=nm, ctx=ast.Load())
                        fake._parent = parent(n)
                        self._scan_attr(f, fake, env)
                    else:
                        self._effect(f, n.args[0], nm, 'write' if fn.id == 'setattr' else 'del', n, env)
            else:
                t = self.type_of(n.args[0], env, f)
                for c in classes_of(t):
                    if fn.id == 'getattr':
                        ci = self.m.classes[c]
                        for cc in ci.mro + ci.subclasses:
                            for g in cc.methods.values():
                                if g.kind in ('property', 'cached_property'):
                                    self._edge(f, g, n, 'dyn-getattr')
                        self.effects[f.qual].append(Effect(f, c, '*', 'dynread', n))
                    elif fn.id in ('setattr', 'delattr'):
                        self.effects[f.qual].append(Effect(f, c, '*', 'dynwrite', n))
            return
        if isinstance(fn, ast.Name) and fn.id in ('len', 'bool', 'str', 'repr', 'iter', 'list',
                                                  'sorted', 'tuple', 'set', 'enumerate', 'sum',
                                                  'min', 'max', 'reversed', 'zip') and n.args:
            dun = {'len': '__len__', 'bool': '__bool__', 'str': '__str__', 'repr': '__repr__'}
            for a in n.args:
                d = dun.get(fn.id, '__iter__')
                self._proto(f, a, d, {'__len__': 'len', '__bool__': 'bool'}.get(d, 'iter'), env)
        gs = self.callees(n, env, f)
        if gs:
            self.resolved_calls += 1
            for g, _b in gs:
                kind = 'ctor' if g.name == '__init__' and not (
                    isinstance(fn, ast.Attribute) and fn.attr == '__init__') else 'call'
                self._edge(f, g, n, kind)
            return
        if self._is_external_call(n, env, f):
            self.resolved_calls += 1
            return
        if isinstance(fn, ast.Attribute) and isinstance(fn.value, ast.Call) and isinstance(fn.value.func, ast.Name) and \
           fn.value.func.id == 'super' and f.cls is not None and self.m.resolve_method(f.cls.name, fn.attr, after=f.cls.name) is None:
            # super().m(...) in a class none of whose package bases defines m: a builtin base (Exception, object, ...)
            self.resolved_calls += 1
            return
        # unresolved receiver: over-approximate by name
        if isinstance(fn, ast.Attribute):
            cands = [g for g in self.m.methods_named(fn.attr) if g.kind == 'method']
            for g in cands:
                self._edge(f, g, n, 'call', resolved=False)
            self.unresolved_calls.append((f, n, [g.qual for g in cands]))
        else:
            self.unresolved_calls.append((f, n, []))

    # ------------------------------------------------------------ closures
    def closure(self, entries, stop=None, edge_filter=None):
        """BFS over call edges.  Returns {qual: (parent_qual, CallEdge)} (entries map to None)."""
        stop = stop or (lambda f: False)
        seen = {}
        todo = []
        for e in entries:
            seen[e.qual] = None
            todo.append(e)
        while todo:
            f = todo.pop(0)
            if stop(f):
                continue
            for ed in self.edges.get(f.qual, []):
                if edge_filter is not None and not edge_filter(ed):
                    continue
                g = ed.callee
                if g.qual not in seen:
                    seen[g.qual] = (f.qual, ed)
                    todo.append(g)
        return seen

    def path_to(self, seen, qual):
        p = []
        cur = qual
        while cur is not None:
            p.append(cur)
            x = seen.get(cur)
            cur = x[0] if x else None
        return list(reversed(p))

    def closure_effects(self, seen):
        out = []
        for q in seen:
            out += self.effects.get(q, [])
        return out

    def stats(self):
        ne = sum(len(v) for v in self.edges.values())
        nf = sum(len(v) for v in self.effects.values())
        return dict(functions=len(self.m.funcs), classes=len(self.m.classes),
                    call_edges=ne, effects=nf, resolved_call_sites=self.resolved_calls,
                    unresolved_call_sites=len(self.unresolved_calls))
