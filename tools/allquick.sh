#!/bin/sh
# run all 20 quick checks in parallel on the current /repo tree; print one status line; exit 1 if any is not 0
cd "$(dirname "$0")/.."
tmp=$(mktemp -d)
for i in 01 02 03 04 05 06 07 08 09 10 11 12 13 14 15 16 17 18 19 20; do
  ( timeout 300 ./check C$i > $tmp/C$i.txt 2>&1; echo $? > $tmp/C$i.rc ) &
done
wait
bad=0
for i in 01 02 03 04 05 06 07 08 09 10 11 12 13 14 15 16 17 18 19 20; do
  rc=$(cat $tmp/C$i.rc)
  if [ "$rc" != "0" ]; then bad=1; echo "C$i exit $rc"; grep -E "FAIL|ANALYSIS-ERROR|Error" $tmp/C$i.txt | head -3; fi
done
[ $bad = 0 ] && echo "all 20 quick checks exit 0"
rm -rf $tmp
exit $bad
