"""Intra-procedural dependency ("root") sets, product normal form, path-sensitive
definite-assignment.  All on top of cfg.CFG / ReachingDefs."""
import ast
from .cfg import CFG, ReachingDefs, stmt_defs, node_uses, _target_names
from .model import norm, dotted, walk_no_nested, parent, enclosing_stmt, const_value, is_const


class FuncFlow:
    """CFG + reaching definitions of one function, with helpers to resolve local names."""

    def __init__(self, func):
        self.func = func
        self.cfg = CFG(func.node, body=func.body())
        self.rd = ReachingDefs(self.cfg, params=func.all_params)
        self._stmt_node = {}
        for n in self.cfg.nodes:
            if n.stmt is not None:
                self._stmt_node.setdefault(id(n.stmt), n.id)

    def node_id_of(self, expr_or_stmt):
        """CFG node that evaluates the given expression / statement"""
        st = expr_or_stmt
        while st is not None:
            nid = self.cfg.by_stmt.get(id(st))
            if nid is not None and isinstance(st, (ast.stmt, ast.ExceptHandler)):
                # an expression inside the *body* of a compound statement belongs to an inner
                # statement, which is found first while walking up; reaching a compound
                # statement means the expression is part of its header
                return nid
            st = parent(st)
        return None

    # ------------------------------------------------------------ definitions of a name
    def def_exprs(self, name, at_node):
        """[(kind, expr_or_None, def_node_id)] for every definition of `name` reaching at_node.
        kind: assign | aug | for | unpack | with | param | undefined | other"""
        out = []
        for d in self.rd.defs_at(at_node, name):
            if d is None:
                out.append(('undefined', None, None))
                continue
            n = self.cfg.nodes[d]
            if n.kind == 'entry':
                out.append(('param', None, d))
                continue
            st = n.stmt
            wk = [w for w in self.rd.weak.get(d, ()) if w[0] == name]
            if wk and name not in self.rd.gen.get(d, []):
                for w in wk:
                    out.append(('weak', w[1], d, w[2]))
                continue
            if n.kind == 'for':
                if isinstance(st.target, ast.Name):
                    out.append(('for', st.iter, d))
                else:
                    out.append(('for-unpack', st.iter, d))
            elif n.kind == 'with':
                for it in st.items:
                    if it.optional_vars is not None and name in _target_names(it.optional_vars):
                        out.append(('with', it.context_expr, d))
            elif n.kind == 'handler':
                out.append(('other', None, d))
            elif isinstance(st, ast.Assign):
                done = False
                for t in st.targets:
                    if isinstance(t, ast.Name) and t.id == name:
                        out.append(('assign', st.value, d))
                        done = True
                    elif isinstance(t, (ast.Tuple, ast.List)) and name in _target_names(t):
                        # positional match against a literal tuple on the right
                        if isinstance(st.value, (ast.Tuple, ast.List)) and \
                           len(st.value.elts) == len(t.elts) and \
                           not any(isinstance(e, ast.Starred) for e in t.elts + st.value.elts):
                            for te, ve in zip(t.elts, st.value.elts):
                                if isinstance(te, ast.Name) and te.id == name:
                                    out.append(('assign', ve, d))
                                    done = True
                        if not done:
                            idx = None
                            for i, te in enumerate(t.elts):
                                if isinstance(te, ast.Name) and te.id == name:
                                    idx = i
                            out.append(('unpack', st.value, d, idx))
                            done = True
                if not done:
                    out.append(('other', st.value, d))
            elif isinstance(st, ast.AugAssign):
                out.append(('aug', st, d))
            elif isinstance(st, ast.AnnAssign):
                out.append(('assign', st.value, d))
            else:
                out.append(('other', None, d))
        return out

    def single_def(self, name, at_node):
        """the expression of the unique plain assignment reaching at_node, else None"""
        ds = self.def_exprs(name, at_node)
        if len(ds) == 1 and ds[0][0] == 'assign':
            return ds[0][1], ds[0][2]
        return None

    # ------------------------------------------------------------ roots
    def roots(self, expr, at_node=None, _seen=None, depth=0, stop_names=()):
        """set of root descriptors the value of expr depends on:
           ('param', name) ('attr', 'self.a.b') ('call', 'dotted name') ('const', repr)
           ('global', name) ('iter', ...)"""
        if at_node is None:
            at_node = self.node_id_of(expr)
        if _seen is None:
            _seen = set()
        self._stop = set(stop_names)
        out = set()
        bound = set()
        for n in ast.walk(expr):
            if isinstance(n, (ast.ListComp, ast.SetComp, ast.GeneratorExp, ast.DictComp)):
                for g in n.generators:
                    bound |= set(_target_names(g.target))
            elif isinstance(n, ast.Lambda):
                bound |= {x.arg for x in n.args.args}
        self._roots(expr, at_node, _seen, out, bound)
        return out

    def _roots(self, e, at, seen, out, bound):
        if isinstance(e, ast.Constant):
            out.add(('const', repr(e.value)))
            return
        if isinstance(e, ast.Name):
            if e.id in bound:
                return
            if e.id in getattr(self, '_stop', ()):
                out.add(('owner', e.id))
                return
            if e.id not in self.rd.names:
                out.add(('global', e.id))
                return
            for d in self.def_exprs(e.id, at):
                kind = d[0]
                if kind == 'param':
                    out.add(('param', e.id))
                elif kind == 'undefined':
                    continue
                else:
                    key = (e.id, d[2])
                    if key in seen:
                        continue
                    seen.add(key)
                    if kind == 'weak':
                        self._roots(d[1], d[2], seen, out, bound)
                        if isinstance(d[3], ast.Subscript):
                            self._roots(d[3].slice, d[2], seen, out, bound)
                        # previous contents of the container
                        self._roots(ast.Name(id=e.id, ctx=ast.Load()), d[2], seen, out, bound)
                    elif kind == 'aug':
                        st = d[1]
                        self._roots(st.value, d[2], seen, out, bound)
                        # previous value of the target
                        self._roots(ast.Name(id=e.id, ctx=ast.Load()), d[2], seen, out, bound)
                    elif d[1] is not None:
                        self._roots(d[1], d[2], seen, out, bound)
            return
        if isinstance(e, ast.Attribute):
            d = dotted(e)
            if d is not None:
                head = d.split('.')[0]
                if head in bound:
                    out.add(('attrname', e.attr))
                    return
                if head in self.rd.names and head != 'self':
                    # attribute of a local: the local's roots (attribute name dropped)
                    self._roots(e.value, at, seen, out, bound)
                    out.add(('attrname', e.attr))
                    return
                out.add(('attr', d))
                return
            self._roots(e.value, at, seen, out, bound)
            out.add(('attrname', e.attr))
            return
        if isinstance(e, ast.Call):
            d = dotted(e.func)
            if d is not None:
                head = d.split('.')[0]
                if head in bound and '.' in d:
                    out.add(('call', '?.' + e.func.attr))
                elif head in self.rd.names and head != 'self' and '.' in d:
                    self._roots(e.func.value, at, seen, out, bound)
                    out.add(('call', '?.' + e.func.attr))
                else:
                    out.add(('call', d))
                    if isinstance(e.func, ast.Attribute):
                        # receiver value matters for methods on attributes (self.pulses.dvecs)
                        self._roots(e.func.value, at, seen, out, bound) if not \
                            isinstance(e.func.value, ast.Name) else None
            else:
                self._roots(e.func, at, seen, out, bound)
            for a in e.args:
                self._roots(a.value if isinstance(a, ast.Starred) else a, at, seen, out, bound)
            for k in e.keywords:
                self._roots(k.value, at, seen, out, bound)
            return
        if isinstance(e, (ast.ListComp, ast.SetComp, ast.GeneratorExp, ast.DictComp)):
            b2 = set(bound)
            for g in e.generators:
                self._roots(g.iter, at, seen, out, b2)
                b2 |= set(_target_names(g.target))
                for c in g.ifs:
                    self._roots(c, at, seen, out, b2)
            if isinstance(e, ast.DictComp):
                self._roots(e.key, at, seen, out, b2)
                self._roots(e.value, at, seen, out, b2)
            else:
                self._roots(e.elt, at, seen, out, b2)
            return
        if isinstance(e, ast.Lambda):
            b2 = bound | {x.arg for x in e.args.args}
            self._roots(e.body, at, seen, out, b2)
            return
        for ch in ast.iter_child_nodes(e):
            if isinstance(ch, ast.expr):
                self._roots(ch, at, seen, out, bound)
            elif isinstance(ch, ast.keyword):
                self._roots(ch.value, at, seen, out, bound)

    # ------------------------------------------------------------ inlining of temporaries
    def inline(self, expr, at_node=None, depth=6):
        """copy of expr in which local names with a single reaching plain assignment are replaced
        by their defining expression (recursively, bounded)."""
        if at_node is None:
            at_node = self.node_id_of(expr)
        return self._inline(expr, at_node, depth, set())

    def _inline(self, e, at, depth, busy):
        if depth <= 0:
            return e
        if isinstance(e, ast.Name) and isinstance(e.ctx, ast.Load) and e.id in self.rd.names:
            sd = self.single_def(e.id, at)
            if sd is not None and (e.id, sd[1]) not in busy:
                return self._inline(sd[0], sd[1], depth - 1, busy | {(e.id, sd[1])})
            return e
        if isinstance(e, (ast.ListComp, ast.SetComp, ast.GeneratorExp, ast.DictComp, ast.Lambda)):
            return e
        new = e.__class__()
        for fld, val in ast.iter_fields(e):
            if isinstance(val, ast.AST):
                setattr(new, fld, self._inline(val, at, depth, busy)
                        if isinstance(val, ast.expr) else val)
            elif isinstance(val, list):
                setattr(new, fld, [self._inline(v, at, depth, busy) if isinstance(v, ast.expr)
                                   else v for v in val])
            else:
                setattr(new, fld, val)
        for a in ('lineno', 'col_offset', 'end_lineno', 'end_col_offset'):
            if hasattr(e, a):
                setattr(new, a, getattr(e, a))
        return new


# -------------------------------------------------------------------- product normal form
class Product:
    """coef * prod(num factors) / prod(den factors); factors are normalised texts"""

    def __init__(self):
        self.coef = 1
        self.num = []       # [(text, node)]
        self.den = []
        self.coef_ok = True

    def texts(self):
        return sorted(t for t, _ in self.num), sorted(t for t, _ in self.den)

    def __repr__(self):
        n, d = self.texts()
        return 'Product(%r * %s / %s)' % (self.coef, n, d)


def product_of(expr):
    """flatten * / unary- and literal factors of an expression into a Product"""
    p = Product()
    _prod(expr, p, False)
    return p


def _prod(e, p, inv):
    if isinstance(e, ast.UnaryOp) and isinstance(e.op, ast.USub):
        p.coef = -p.coef
        _prod(e.operand, p, inv)
        return
    if isinstance(e, ast.UnaryOp) and isinstance(e.op, ast.UAdd):
        _prod(e.operand, p, inv)
        return
    if isinstance(e, ast.BinOp) and isinstance(e.op, ast.Mult):
        _prod(e.left, p, inv)
        _prod(e.right, p, inv)
        return
    if isinstance(e, ast.BinOp) and isinstance(e.op, ast.Div):
        _prod(e.left, p, inv)
        _prod(e.right, p, not inv)
        return
    if is_const(e):
        try:
            v = const_value(e)
            if isinstance(v, (int, float, complex)) and not isinstance(v, bool):
                if inv:
                    p.coef = p.coef / v
                else:
                    p.coef = p.coef * v
                return
        except (ValueError, ZeroDivisionError):
            pass
    (p.den if inv else p.num).append((norm(e), e))


def sum_terms(expr):
    """flatten + and binary - : [(sign, term)]"""
    out = []

    def rec(e, s):
        if isinstance(e, ast.BinOp) and isinstance(e.op, ast.Add):
            rec(e.left, s)
            rec(e.right, s)
        elif isinstance(e, ast.BinOp) and isinstance(e.op, ast.Sub):
            rec(e.left, s)
            rec(e.right, -s)
        elif isinstance(e, ast.UnaryOp) and isinstance(e.op, ast.USub) and \
                isinstance(e.operand, ast.BinOp) and isinstance(e.operand.op, (ast.Add, ast.Sub)):
            rec(e.operand, -s)
        else:
            out.append((s, e))
    rec(expr, 1)
    return out


# -------------------------------------------------------------------- definite assignment
def possibly_undefined(flow):
    """[(name, use_node(ast.Name), cfg node id)] : local names read on a feasible-looking path
    without prior assignment.  Path feasibility: two `if` tests with identical normalised text
    are correlated as long as no name occurring in the test is re-assigned in between."""
    cfg = flow.cfg
    rd = flow.rd
    findings = []
    cand = []
    for n in cfg.nodes:
        if n.id not in cfg.reach:
            continue
        for u in node_uses(n):
            if u.id not in rd.names:
                continue
            if None in rd.defs_at(n.id, u.id):
                cand.append((u.id, u, n.id))
    seen_names = {}
    for name, use, nid in cand:
        key = (name, nid)
        if key in seen_names:
            continue
        seen_names[key] = True
        if _undef_path_feasible(flow, name, nid):
            findings.append((name, use, nid))
    return findings


def _tests_guarding_defs(flow, name):
    """normalised texts of `if` tests that syntactically enclose a definition of name"""
    from .cfg import if_chain_preds
    texts = set()
    for n in flow.cfg.nodes:
        if name in flow.rd.gen.get(n.id, []):
            for (t, b) in if_chain_preds(flow.cfg, n.id):
                texts.add(t)
    return texts


def _undef_path_feasible(flow, name, target):
    cfg = flow.cfg
    relevant = _tests_guarding_defs(flow, name)
    test_names = {}
    for t in relevant:
        try:
            test_names[t] = {x.id for x in ast.walk(ast.parse(t, mode='eval'))
                             if isinstance(x, ast.Name)}
        except SyntaxError:
            test_names[t] = set()
    start = (cfg.entry.id, frozenset())
    seen = {start}
    todo = [start]
    while todo:
        nid, assume = todo.pop()
        if nid == target:
            return True
        n = cfg.nodes[nid]
        defs = flow.rd.gen.get(nid, [])
        if name in defs:
            continue            # path now has a definition
        if defs:
            assume = frozenset((t, b) for (t, b) in assume if not (test_names[t] & set(defs)))
        ttext = None
        if n.kind == 'test' and isinstance(n.stmt, ast.If):
            tt = norm(n.stmt.test)
            if tt in relevant:
                ttext = tt
        for (b, l) in n.succ:
            a2 = assume
            if ttext is not None and l in (True, False):
                if (ttext, not l) in assume:
                    continue    # contradicts an earlier identical test
                a2 = assume | {(ttext, l)}
            st = (b, a2)
            if st not in seen:
                seen.add(st)
                todo.append(st)
    return False


def expand_call_roots(ctx, func, roots, depth=2, _seen=None):
    """add the `self.*` attribute roots (and, transitively, call roots) of the return values of
    methods called as self.<m>(...) - a helper split must not hide a dependency"""
    if _seen is None:
        _seen = set()
    out = set(roots)
    if func.cls is None or depth <= 0:
        return out
    for r in list(roots):
        if r[0] == 'call' and r[1].startswith('self.') and r[1].count('.') == 1:
            mname = r[1].split('.')[1]
            g = ctx.model.resolve_method(func.cls.name, mname)
            if g is None or g.qual in _seen:
                continue
            _seen.add(g.qual)
            gfl = ctx.flow(g)
            sub = set()
            for n in walk_no_nested(g.node):
                if isinstance(n, ast.Return) and n.value is not None:
                    sub |= gfl.roots(n.value, gfl.node_id_of(n))
                elif isinstance(n, ast.Yield) and n.value is not None:
                    sub |= gfl.roots(n.value, gfl.node_id_of(n))
            sub = expand_call_roots(ctx, g, sub, depth - 1, _seen)
            out |= {x for x in sub if x[0] in ('attr', 'call', 'attrname') and
                    (x[0] != 'attr' or x[1].startswith('self.'))}
    return out


def value_alternatives(flow, expr, at, depth=6, limit=16):
    """[(expr, at)]: what `expr` may be, following local names through their reaching plain assignments
    (one alternative per definition when a name has several, e.g. after an if/else or the branches of an
    inlined helper); names with other kinds of definitions are left as they are"""
    out = []

    def rec(e, at_, d):
        if len(out) >= limit:
            return
        if d > 0 and isinstance(e, ast.Name) and e.id in flow.rd.names:
            ds = flow.def_exprs(e.id, at_)
            plain = [x for x in ds if x[0] == 'assign' and x[1] is not None]
            if plain and len(plain) == len(ds):
                for x in plain:
                    rec(x[1], x[2], d - 1)
                return
        out.append((e, at_))
    rec(expr, at, depth)
    return out
