"""C09  Kirchhoff current law and end conditions in the current report.

Decided:
 D1 R-SIB  currents_as_mininec: for wire end K = 0 and K = 1 the junction current is the
           accumulation (+= / sum) of  sign * self.current[pulse]  over conn[K].pulse_iter();
           both ends are treated alike (same guards, same zero row, same row formatting).
 D2        an unconnected, ungrounded end prints the literal zero row; J/E choice by emptiness of
           conn[K]; Connected_Geobj.pulse_iter yields (end_segs[idx] of the owning object, sign)
           for every entry of the connection list; interior rows: one per own pulse.
Not decided: that _add_conn gives the right sign for every topology (runtime graph).
"""
import ast
from ..model import AnalysisError, walk_no_nested, norm, dotted, parent
from ..dataflow import product_of, sum_terms
from ..rules import loops_in, loop_reaches_on_all_paths

CUR = 'mininec.Mininec.currents_as_mininec'


def current_report_paths(ctx):
    """symbolic paths through currents_as_mininec that report one object (one iteration of the
    loop over self.geo): [(path, object text, {K: (grounded?, connected?)}, rows)]"""
    import re
    from ..symx import SymExec, line_exprs, leading_literal
    m = ctx.model
    f = ctx.func(CUR)
    wq = {g.qual for g in m.all_funcs() if 'as_mininec' in g.name and not g.name.startswith('_')}
    out = []
    for p in SymExec(ctx, f, depth=4, bind_loops=True, no_expand=wq).run():
        if p.end == 'raise':
            continue
        objs = {mo.group(1) for t, b in p.conds if isinstance(b, bool)
                for mo in [re.match(r'^(self\.geo\[_k\d+\])\.(is_ground|conn)\[[01]\]$', t)] if mo}
        # one object is reported: inside a loop over self.geo, or as the element of map / a comprehension over it
        if not any(k == 'loop' and t == 'self.geo' for k, t in p.conds) and not objs:
            continue
        if len(objs) != 1:
            raise AnalysisError('currents_as_mininec: the end conditions of the reported object are not tested '
                                'as <obj>.is_ground[K] / <obj>.conn[K] on the path %s' % (p.conds,))
        obj = sorted(objs)[0]
        state = {}
        for K in (0, 1):
            gr = [b for t, b in p.conds if t == '%s.is_ground[%d]' % (obj, K) and isinstance(b, bool)]
            cn = [b for t, b in p.conds if t == '%s.conn[%d]' % (obj, K) and isinstance(b, bool)]
            state[K] = (gr[-1] if gr else None, cn[-1] if cn else None)
        rows = []
        for e, st in line_exprs(p):
            lead = leading_literal(e)
            txt = norm(e)
            kind = 'other'
            if lead is not None and lead.startswith('J '):
                kind = 'J'
            elif lead is not None and lead.startswith('E '):
                kind = 'E'
            elif 'pulse_idx_iter(' in txt and 'self.current[' in txt:
                kind = 'interior'
            rows.append((kind, e, st))
        out.append((p, obj, state, rows))
    return f, out


def row_base(e):
    """the complex value whose .real is printed in the row (AST) or None"""
    for n in ast.walk(e):
        if isinstance(n, ast.Attribute) and n.attr == 'real':
            return n.value
    return None


def check_junction_accumulate(ctx, ck, rule='R-SIB.junction-accumulate'):
    """the junction row of end K prints  sum over conn[K].pulse_iter() of sign * self.current[pulse]"""
    import re
    from ..symx import canon_k
    f, paths = current_report_paths(ctx)
    found = {}
    for p, obj, state, rows in paths:
        for kind, e, st in rows:
            if kind != 'J':
                continue
            base = row_base(e)
            if base is None:
                continue
            txt = norm(base)
            ks = set(re.findall(r'\.conn\[([01])\]\.pulse_iter\(\)', txt))
            if len(ks) != 1:
                continue        # the path on which the connection list is empty: no term at all
            K = int(sorted(ks)[0])
            it = '%s.conn[%d].pulse_iter()' % (obj, K)
            # accepted closed form: [0 +] sum(_each(IT[_k][1] * self.current[IT[_k][0]], IT))
            b = base
            if isinstance(b, ast.BinOp) and isinstance(b.op, ast.Add):
                try:
                    from ..model import const_value
                    if const_value(b.left) == 0:
                        b = b.right         # 0 + sum(...), 0+0j + sum(...)
                except (ValueError, TypeError):
                    pass
            ok = False
            why = None
            if isinstance(b, ast.Call) and isinstance(b.func, ast.Name) and b.func.id == 'sum' and len(b.args) == 1 \
               and isinstance(b.args[0], ast.Call) and norm(b.args[0].func) == '_each' and len(b.args[0].args) == 2 \
               and norm(b.args[0].args[1]) == it:
                term = b.args[0].args[0]
                pr = product_of(term)
                nn, dd = pr.texts()
                want = [re.sub(r'_k\d+', '_k', x) for x in ('%s[_k][1]' % it, 'self.current[%s[_k][0]]' % it)]
                got = sorted(re.sub(r'_k\d+', '_k', x) for x in nn)
                ok = got == sorted(want) and not dd and pr.coef == 1
                why = ('end %d: sum of sign * self.current[pulse] over conn[%d]' % (K + 1, K)) if ok else \
                    'accumulated term is %s, expected sign * self.current[pulse]' % norm(term)[:120]
            elif 'sum(' not in txt:
                why = ('junction current of end %d is overwritten for every connected wire instead of '
                       'accumulated: only the last pulse is reported (%s)' % (K + 1, canon_k(txt)[:100]))
            else:
                why = 'junction current of end %d is %s' % (K + 1, canon_k(txt)[:140])
            prev = found.get(K)
            if prev is None or (prev[0] and not ok):
                found[K] = (ok, f.loc(st), why, e, base)
    if sorted(found) != [0, 1]:
        raise AnalysisError('currents_as_mininec: junction rows for conn[0] and conn[1] not found (%s)' % sorted(found))
    for K in (0, 1):
        ok, where, why, e, base = found[K]
        ck.ob(rule, '%s|conn[%d]' % (CUR, K), ok, where, why)
    return f, paths, found


def run(ctx, ck):
    import re
    from ..symx import fold_text, canon_k
    m = ctx.model
    ck.rule('R-SIB.junction-accumulate', 'junction current of each end = sum of sign*current over conn[K]')
    ck.rule('R-SIB.ends-alike', 'end 1 and end 2 blocks agree in guards, zero row and row formatting')
    ck.rule('R-EXH.pulse-iter', 'Connected_Geobj.pulse_iter yields (end_segs[idx], sign) for every entry')
    ck.rule('R-EXH.rows', 'one interior row per own pulse, 1-based number')

    # a value the current table takes from a cache kept on the model must not outlive the solution it was computed
    # from (rule shared with C14 / C19; only caches in the closure of the current report)
    ck.rule('R-CACHE.invalidate', 'a cache the current table reads is dropped by every function that assigns the state it was computed from')
    from .C14 import run_cache_rule
    from ..cache import find_memo_sites
    cur_f = m.func(CUR)
    cclosure = ctx.program.closure([cur_f], edge_filter=lambda e: e.kind in ('call', 'getter'))
    ckeys = {s_.key for s_ in find_memo_sites(m, ctx) if s_.func.qual in cclosure and s_.owner == 'self' and
             s_.kind in ('attr-none', 'getattr-none')}
    stale = False
    if ckeys:
        n0 = len(ck.obs)
        run_cache_rule(ctx, ck, only=ckeys)
        stale = any(not o.ok for o in ck.obs[n0:] if o.rule == 'R-CACHE.invalidate')
    ck.info('current_report_caches', sorted(ckeys))
    # the printed currents are the solved currents, whatever their size: nothing in the closure of the current table
    # compares a value with an absolute tolerance or rounds it (np.isclose(c, 0) has atol = 1e-8: junction currents of
    # a weakly driven antenna are printed as 0 while the pulse rows still show them)
    ck.rule('R-LIT.no-absolute-threshold', 'the current table applies no absolute tolerance / rounding to the currents')
    TOL = ('isclose', 'allclose', 'round', 'around', 'round_', 'clip', 'nan_to_num')
    hits = []
    for q_ in sorted(cclosure):
        g_ = m.funcs[q_]
        if g_.module.name == 'util':
            continue        # (the number formatter: its rounding is the print precision, decided by C19)
        for c_ in ast.walk(g_.node):
            if isinstance(c_, ast.Call) and (dotted(c_.func) or '').split('.')[-1] in TOL:
                hits.append((g_, c_))
    for g_, c_ in hits:
        ck.ob('R-LIT.no-absolute-threshold', '%s|%s' % (g_.qual, norm(c_)[:50]), False, g_.loc(c_),
              '%s in %s, reached from the current table: currents below the absolute tolerance are reported as something '
              'else than what the pulses carry' % (norm(c_)[:50], g_.qual))
    ck.ob('R-LIT.no-absolute-threshold', CUR + '|closure', not hits, cur_f.loc(),
          'closure of the current table (%d functions) applies no tolerance to the currents' % len(cclosure))
    stale = stale or bool(hits)
    try:
        f, paths, found = check_junction_accumulate(ctx, ck)
    except AnalysisError as e_:
        if not stale:
            raise
        # the junction rows are read through the very cache reported above: that report stands, the rows behind
        # the cache are not analysed further
        ck.note('junction rows not analysed behind the construct reported above: %s' % e_)
        return
    ck.floor('paths reporting one object', len(paths), 9)
    # the end rows on every path are the ones the end conditions call for:
    #   grounded end: nothing;  free end (no connection): the E row of zeros;  junction: the J row of conn[K];
    # end 1 before the interior rows, end 2 after them
    bad = None
    for p, obj, state, rows in paths:
        want = []
        for K in (0, 1):
            gr, cn = state[K]
            if gr is None:
                bad = bad or (p, 'is_ground[%d] is not tested' % K)
                continue
            if gr:
                continue
            if cn is None:
                bad = bad or (p, 'conn[%d] is not tested for an ungrounded end' % K)
                continue
            want.append((K, 'J' if cn else 'E'))
        got = []
        seen_interior = False
        for kind, e, st in rows:
            if kind == 'interior':
                seen_interior = True
            elif kind in ('J', 'E'):
                got.append((kind, seen_interior, norm(e)))
        interior = any(k == 'interior' for k, e, st in rows)
        ok = len(got) == len(want)
        if ok:
            for (K, kind), (gk, after, txt) in zip(want, got):
                ok = ok and gk == kind
                if kind == 'J':
                    ks = set(re.findall(r'\.conn\[([01])\]', txt))
                    ok = ok and (ks <= {str(K)})
                if interior:
                    ok = ok and after == (K == 1)
        if not ok and bad is None:
            bad = (p, 'end rows %s, end conditions call for %s' % ([(k, 'after' if a else 'before') for k, a, t in got], want))
    ck.ob('R-SIB.ends-alike', CUR + '|end-rows', bad is None, f.loc(),
          'on all %d paths: no row for a grounded end, E row for a free end, J row of conn[K] for a junction; '
          'end 1 before and end 2 after the interior rows' % len(paths) if bad is None else
          '%s on the path %s' % (bad[1], [c for c in bad[0].conds if c[0] not in ('loop', 'loop-skipped')][:6]))
    # zero row literal
    zr = {}
    for p, obj, state, rows in paths:
        for kind, e, st in rows:
            if kind == 'E':
                try:
                    zr.setdefault(fold_text(e), f.loc(st))
                except ValueError:
                    zr.setdefault('not a literal: ' + norm(e)[:80], f.loc(st))
    ok = len(zr) == 1 and all(isinstance(t, str) and t.split() == ['E', '0', '0', '0', '0'] for t in zr)
    ck.ob('R-SIB.ends-alike', CUR + '|zero-row', ok, sorted(zr.values())[0] if zr else f.loc(),
          'a free end prints E and four literal zeros' if ok else 'zero rows are %s' % sorted(zr))
    # both junction rows are formatted alike (same format, same four parts of the same value)
    shapes = {}
    for K in (0, 1):
        ok_, where, why, e, base = found[K]
        btxt = norm(base)
        from ..symx import copy_replace
        shapes[K] = canon_k(norm(copy_replace(e, lambda n_: ast.Name(id='B', ctx=ast.Load())
                                              if isinstance(n_, ast.expr) and norm(n_) == btxt else None)))
    ck.ob('R-SIB.ends-alike', CUR + '|row-format', shapes[0] == shapes[1] and 'B.real' in shapes[0] and
          'B.imag' in shapes[0] and 'np.abs(B)' in shapes[0] and 'np.angle(B)' in shapes[0], f.loc(),
          'junction rows of both ends print real, imaginary, magnitude, phase of the junction current alike'
          if shapes[0] == shapes[1] else 'end 1: %s / end 2: %s' % (shapes[0][:90], shapes[1][:90]))

    # pulse_iter: what it hands out, as a closed sequence (helpers / `yield from` looked through):
    # for every entry E of self.list (in any order):  (E[1].end_segs[E[2]], E[3])
    from ..symx import generator_sequences, _is_each

    def permutation_of_list(it_):
        """is the iterable every entry of self.list exactly once (in some order)?"""
        t_ = norm(it_)
        if t_ == 'self.list':
            return True
        if isinstance(it_, ast.Call) and isinstance(it_.func, ast.Name) and it_.func.id in ('sorted', 'reversed', 'list', 'tuple', 'iter') \
           and len(it_.args) == 1 and all(k_.arg in ('key', 'reverse') for k_ in it_.keywords):
            return permutation_of_list(it_.args[0])
        return False
    def strip_identity(it_):
        """_each((X[k][0], ..., X[k][n-1]), X) and _each(X[k], X) hand out the entries of X themselves"""
        while _is_each(it_):
            e_, x_ = it_.args
            xt = norm(x_)
            et = re.sub(r'_k\d+', 'K', norm(e_))
            if et == '%s[K]' % xt or (isinstance(e_, ast.Tuple) and len(e_.elts) == 4 and all(
                    re.sub(r'_k\d+', 'K', norm(y_)) == '%s[K][%d]' % (xt, i_) for i_, y_ in enumerate(e_.elts))):
                it_ = x_
            else:
                break
        return it_
    g = m.func('mininec.Connected_Geobj.pulse_iter')
    for _ in range(3):
        # (`return self.signed_pulses()`: the generator it hands on is the sequence)
        b_ = [x_ for x_ in g.body() if not (isinstance(x_, ast.Expr) and isinstance(x_.value, ast.Constant))]
        if not any(isinstance(y_, (ast.Yield, ast.YieldFrom)) for y_ in walk_no_nested(g.node)) and len(b_) == 1 and \
           isinstance(b_[0], ast.Return) and isinstance(b_[0].value, ast.Call) and not b_[0].value.args and \
           not b_[0].value.keywords and isinstance(b_[0].value.func, ast.Attribute) and norm(b_[0].value.func.value) == 'self':
            g2_ = m.resolve_method(g.cls.name, b_[0].value.func.attr)
            if g2_ is not None and any(isinstance(y_, (ast.Yield, ast.YieldFrom)) for y_ in walk_no_nested(g2_.node)):
                g = g2_
                continue
        break
    ok = True
    why = None
    n_each = 0
    for conds_, seq in generator_sequences(ctx, g):
        if isinstance(seq, ast.List) and not seq.elts:
            if not any(k_ == 'loop-skipped' for k_, t_ in conds_):
                ok, why = False, 'a path hands out nothing although the list has entries'
            continue
        if not _is_each(seq):
            ok, why = False, 'hands out %s' % norm(seq)[:120]
            continue
        n_each += 1
        elt, it_ = seq.args
        it_ = strip_identity(it_)
        itx = norm(it_)
        k_ = sorted(set(re.findall(r'_k\d+', norm(elt))))
        want = '(%s[K][1].end_segs[%s[K][2]], %s[K][3])' % (itx, itx, itx)
        got = re.sub(r'_k\d+', 'K', norm(elt))
        if not permutation_of_list(it_):
            ok, why = False, 'iterates %s, not every entry of self.list' % itx[:80]
        elif got != want or len(k_) != 1:
            ok, why = False, 'yields %s for the entry (geobj, owner, end, sign) = %s[K]' % (got[:120], itx[:40])
        elif why is None:
            why = 'for every entry E of %s: (E[1].end_segs[E[2]], E[3])' % itx[:60]
    ok = ok and n_each >= 1
    ck.ob('R-EXH.pulse-iter', g.qual, ok, g.loc(), why or 'no loop over the connection list')
    if 'mininec.Connected_Geobj._iter' in m.funcs:
        it = m.func('mininec.Connected_Geobj._iter')
        if any(isinstance(n_, (ast.Yield, ast.YieldFrom)) for n_ in walk_no_nested(it.node)):
            seqs = generator_sequences(ctx, it)
        else:
            # not a generator: what it returns is iterated
            from ..symx import SymExec
            seqs = [(p_.conds, p_.ret) for p_ in SymExec(ctx, it, depth=2, bind_loops=True).run() if p_.end != 'raise']
            if any(r_ is None for c_, r_ in seqs):
                seqs = []
        ok = bool(seqs)
        for conds_, seq in seqs:
            if isinstance(seq, ast.List) and not seq.elts and any(k_ == 'loop-skipped' for k_, t_ in conds_):
                continue
            if _is_each(seq) and strip_identity(seq) is not seq:
                ok = ok and permutation_of_list(strip_identity(seq))
            elif _is_each(seq):
                ok = ok and permutation_of_list(seq.args[1]) and \
                    re.sub(r'_k\d+', 'K', norm(seq.args[0])) in ('%s[K]' % norm(seq.args[1]), re.sub(
                        r'_k\d+', 'K', norm(ast.Tuple(elts=[ast.Subscript(value=ast.Subscript(
                            value=seq.args[1], slice=ast.Name(id='K', ctx=ast.Load()), ctx=ast.Load()),
                            slice=ast.Constant(value=i_), ctx=ast.Load()) for i_ in range(4)], ctx=ast.Load()))))
            else:
                ok = ok and permutation_of_list(seq)
        ck.ob('R-EXH.pulse-iter', it.qual, ok, it.loc(), '_iter yields every entry of self.list once')
    add = m.func('mininec.Connected_Geobj.add')
    apps = [c for c in walk_no_nested(add.node) if isinstance(c, ast.Call) and
            isinstance(c.func, ast.Attribute) and c.func.attr == 'append' and dotted(c.func.value) == 'self.list']
    ok = len(apps) == 1 and isinstance(apps[0].args[0], ast.Tuple) and len(apps[0].args[0].elts) == 4
    if ok:
        fl = ctx.flow(add)
        ok = fl.cfg.must_pass(fl.cfg.exit.id, {fl.node_id_of(apps[0])})
    ck.ob('R-EXH.pulse-iter', add.qual, ok, add.loc(), 'add() appends one 4-tuple to self.list on every path')

    # interior rows: one per own pulse, number k + 1, value self.current[k]
    n_int = 0
    bad = None
    for p, obj, state, rows in paths:
        it = '%s.pulse_idx_iter(yield_ends=False)' % obj
        ent = any(k == 'loop' and t == it for k, t in p.conds)
        skp = any(k == 'loop-skipped' and t == it for k, t in p.conds)
        ints = [e for kind, e, st in rows if kind == 'interior']
        if not ent and not skp:
            # comprehension form or a different iterable: judged by what the rows mention
            ent = bool(ints)
        want = 1 if ent else 0
        ok = len(ints) == want
        it = re.sub(r'_k\d+', '_k', it)
        for e in ints:
            txt = re.sub(r'_k\d+', '_k', norm(e))
            ok = ok and ('self.current[%s[_k]]' % it) in txt and ('%s[_k] + 1' % it) in txt
        n_int += len(ints)
        if not ok and bad is None:
            bad = (len(ints), want, [norm(e)[:100] for e in ints][:1])
    ck.floor('interior rows seen', n_int, 1)
    ck.ob('R-EXH.rows', CUR + '|interior', bad is None, f.loc(),
          'one row per own pulse (yield_ends=False), number k+1, value self.current[k]' if bad is None else
          'interior rows per own pulse: %s instead of %s %s' % bad)
    from ._endidx import check_end_index
    ck.rule('R-COUNT.end-index', 'predicted index of the end pulses == number of pulses created before them (all end states)')
    ncases = check_end_index(ctx, ck)
    ck.floor('end-state cases', ncases, 30)
    # the pulse a junction line is attributed to really lies on that end: its outer half is on the neighbour's segment
    # touching the junction (shared with C02 / C06 / C12)
    ck.rule('R-SIB.junction-geometry', 'outer half of a junction pulse on the neighbour segment touching the junction')
    from ._creation import check_neighbour_segment
    check_neighbour_segment(ctx, ck, rule='R-SIB.junction-geometry')
    ck.undecided += ['correct sign / membership of conn[K] for every junction topology (runtime graph)']
