"""C05  Rigid-motion and electromagnetic-scaling invariance.

Decided:
 D1 R-LIT   Rotation_Matrix: each axis literal is a proper right-handed rotation about its axis
            (entries in {0, 1, cos a, +-sin a}, unit row/column on the axis, antisymmetric sine
            pair in the orthogonal plane), its angle is taken from the component with the same
            index as its guard, degrees -> radians, and the product is Z @ Y @ X; apply = m @ v.
 D2 R-SIB   Wire / Curve x rotate / translate / scale update every geometric attribute of their
            class alike (both end points or all segment ends; scale also the radius), Wire methods
            recompute the end-point cache; Geo_Container dispatches to all objects or by tag.
 D3 R-ORDER main: tags -> rotate/translate in sort-key order -> scale -> taper options -> Mininec.
 D4 R-EFFECT wavelength-dependent constants have a single writer (the f setter) and derive from
            the frequency only; no other function contains the speed-of-light literal.
Not decided: invariance of impedances / currents / pattern to 5e-4 (numeric).
"""
import ast
from ..model import AnalysisError, walk_no_nested, norm, dotted, parent, is_const, const_value
from ..dataflow import product_of
from ..rules import loops_in, calls_in, assigns_to_attr, loop_reaches_on_all_paths


def entry_kind(e, avar):
    """classify a matrix entry: 0, 1, 'c', 's', '-s', '-c' or None"""
    if is_const(e):
        v = const_value(e)
        if v == 0:
            return '0'
        if v == 1:
            return '1'
        return None
    neg = False
    if isinstance(e, ast.UnaryOp) and isinstance(e.op, ast.USub):
        neg = True
        e = e.operand
    if isinstance(e, ast.Call) and len(e.args) == 1 and norm(e.args[0]) == avar:
        d = dotted(e.func) or ''
        if d.endswith('.cos') or d == 'cos':
            return '-c' if neg else 'c'
        if d.endswith('.sin') or d == 'sin':
            return '-s' if neg else 's'
    return None


def run(ctx, ck):
    prog = ctx.program
    m = ctx.model
    ck.rule('R-LIT.rotation', 'axis rotation literals are proper right-handed rotations; product Z@Y@X')
    ck.rule('R-SIB.transform', 'every transformation updates all geometry attributes of its class')
    ck.rule('R-SIB.dispatch', 'Geo_Container dispatches to all objects or to the tagged one')
    ck.rule('R-ORDER.main', 'tags -> rotate/translate (sorted by key) -> scale -> taper -> Mininec')
    ck.rule('R-EFFECT.wavelength', 'wavelength constants: single writer, frequency-only')

    # ---------------------------------------------------------------- D1
    # decided on the symbolic walk of the constructor (temporaries, helpers that build one axis matrix,
    # tables of axis planes, matrices patched into an identity literal all give the same closed form):
    # on every path each matrix attribute is  F2 @ F1 @ F0  (or F0.T @ F1.T @ F2.T) where F_K is np.eye(3) when
    # component K of the rotation is zero and otherwise the right-handed rotation about axis K by
    # rotation[K] / 180 * pi
    from ..symx import SymExec
    from ..poly import poly_roles, cancel, Poly
    f = m.func('mininec.Rotation_Matrix.__init__')
    rparam = f.params[1] if len(f.params) > 1 else 'rotation'
    rpaths = [p_ for p_ in SymExec(ctx, f, bind_loops=True, effects=True, depth=3, max_paths=2000).run() if p_.end != 'raise']
    if not rpaths:
        raise AnalysisError('%s: no path returns' % f.qual)

    def chain(e):
        out = []

        def rec(x):
            if isinstance(x, ast.BinOp) and isinstance(x.op, ast.MatMult):
                rec(x.left)
                rec(x.right)
            else:
                out.append(x)
        rec(e)
        return out

    def is_eye(x):
        return isinstance(x, ast.Call) and (dotted(x.func) or '').split('.')[-1] in ('eye', 'identity') and \
            len(x.args) == 1 and isinstance(x.args[0], ast.Constant) and x.args[0].value == 3

    def axis_matrix(x, K):
        """None if x is the right-handed rotation about axis K by rotation[K] degrees, else what is wrong"""
        if not (isinstance(x, ast.Call) and (dotted(x.func) or '').split('.')[-1] == 'array' and x.args and
                isinstance(x.args[0], ast.List) and len(x.args[0].elts) == 3 and
                all(isinstance(r_, ast.List) and len(r_.elts) == 3 for r_ in x.args[0].elts)):
            return 'not a 3x3 literal: %s' % norm(x)[:60]
        want_ang = cancel(poly_roles(ast.parse('%s[%d] / 180 * np.pi' % (rparam, K), mode='eval').body, {}))

        def kind(e_):
            neg = False
            if isinstance(e_, ast.UnaryOp) and isinstance(e_.op, ast.USub):
                neg, e_ = True, e_.operand
            if isinstance(e_, ast.Constant) and e_.value in (0, 1) and not isinstance(e_.value, bool):
                return ('-' if neg and e_.value else '') + str(int(e_.value))
            if isinstance(e_, ast.Call) and (dotted(e_.func) or '').split('.')[-1] in ('cos', 'sin') and len(e_.args) == 1:
                try:
                    okang = cancel(poly_roles(e_.args[0], {}) - want_ang).t == {}
                except (ValueError, ZeroDivisionError):
                    okang = False
                if not okang:
                    return 'angle(%s)' % norm(e_.args[0])[:40]
                return ('-' if neg else '') + (dotted(e_.func) or '').split('.')[-1][0]
            return '?(%s)' % norm(e_)[:30]
        M = [[kind(e_) for e_ in r_.elts] for r_ in x.args[0].elts]
        a_, b1, c1 = K, (K + 1) % 3, (K + 2) % 3
        want = {(i_, j_): '0' for i_ in range(3) for j_ in range(3)}
        want[(a_, a_)] = '1'
        want[(b1, b1)] = 'c'
        want[(c1, c1)] = 'c'
        want[(c1, b1)] = 's'
        want[(b1, c1)] = '-s'
        diff = [(i_, j_, M[i_][j_], want[(i_, j_)]) for i_ in range(3) for j_ in range(3) if M[i_][j_] != want[(i_, j_)]]
        return None if not diff else 'entries differ from a right-handed rotation about axis %d by %s[%d] degrees at %s' % (
            K, rparam, K, diff[:3])
    axis_bad = {0: None, 1: None, 2: None}
    axis_seen = {0: 0, 1: 0, 2: 0}
    ident_bad = None
    ident_seen = 0
    prod_bad = None
    mats = {}
    n_m = 0
    for p_ in rpaths:
        nonzero = {}
        for K in range(3):
            v_ = [b_ for t_, b_ in p_.conds if isinstance(b_, bool) and t_ in ('%s[%d]' % (rparam, K), '%s[%d] != 0' % (rparam, K))]
            z_ = [not b_ for t_, b_ in p_.conds if isinstance(b_, bool) and t_ == '%s[%d] == 0' % (rparam, K)]
            v_ += z_
            nonzero[K] = v_[-1] if v_ else None
        for key_, val_, st_ in p_.stores:
            if not (key_.startswith('self.') and any(isinstance(x_, ast.BinOp) and isinstance(x_.op, ast.MatMult) for x_ in ast.walk(val_))):
                continue
            ch = chain(val_)
            kind_ = None
            if len(ch) == 3:
                tr = [isinstance(x_, ast.Attribute) and x_.attr == 'T' for x_ in ch]
                if not any(tr):
                    order, facs, kind_ = (2, 1, 0), ch, 'forward'
                elif all(tr):
                    order, facs, kind_ = (0, 1, 2), [x_.value for x_ in ch], 'transpose'
            if kind_ is None:
                if key_ == 'self.m':
                    prod_bad = prod_bad or ('self.m = %s is not a product of the three axis rotations' % norm(val_)[:80], st_)
                mats.setdefault(key_, None)
                continue
            if key_ == 'self.m':
                n_m += 1
                if kind_ != 'forward':
                    prod_bad = prod_bad or ('self.m is the transposed product', st_)
            okchain = True
            for K, F in zip(order, facs):
                if key_ != 'self.m':
                    # other matrix attributes: judged as a whole (same three factors, plain or transposed)
                    if not (is_eye(F) and nonzero[K] is False) and not (not is_eye(F) and axis_matrix(F, K) is None):
                        okchain = False
                    continue
                if is_eye(F):
                    ident_seen += 1
                    if nonzero[K] is not False:
                        ident_bad = ident_bad or ('axis %d is the identity although %s[%d] is not known to be zero on the path %s'
                                                  % (K, rparam, K, [c_ for c_ in p_.conds if isinstance(c_[1], bool)]), st_)
                        okchain = False
                else:
                    axis_seen[K] += 1
                    w_ = axis_matrix(F, K)
                    if w_ is None and nonzero[K] is False:
                        w_ = None       # (a rotation by zero degrees is the identity as well)
                    if w_ is not None:
                        axis_bad[K] = axis_bad[K] or (w_, st_)
                        okchain = False
            prev = mats.get(key_, kind_)
            mats[key_] = kind_ if (okchain and prev == kind_) else None
    # (decided before the per-axis literal: a matrix assembled in a loop over the axes must start fresh each time)
    ck.rule('R-FRESH.loop-scratch', 'an array bound before a loop is not partly overwritten per iteration and read whole inside the loop')
    from ..rules import check_loop_scratch
    check_loop_scratch(ctx, ck, 'R-FRESH.loop-scratch', modules=('mininec',))
    if any(not o.ok for o in ck.obs if o.rule == "R-FRESH.loop-scratch"):
        return
    ck.floor('axis rotation blocks', sum(1 for K in range(3) if axis_seen[K]), 3)
    for K in range(3):
        ck.ob('R-LIT.rotation', 'axis%s|matrix' % K, axis_bad[K] is None, f.loc(axis_bad[K][1]) if axis_bad[K] and axis_bad[K][1] is not None else f.loc(),
              'right-handed rotation about axis %d by %s[%d] / 180 * pi on %d paths' % (K, rparam, K, axis_seen[K])
              if axis_bad[K] is None else axis_bad[K][0])
    ck.ob('R-LIT.rotation', 'product', prod_bad is None and n_m == len(rpaths), f.loc(prod_bad[1]) if prod_bad and prod_bad[1] is not None else f.loc(),
          'self.m = Z @ Y @ X on all %d paths (X applied first, then Y, then Z)' % len(rpaths) if prod_bad is None and n_m == len(rpaths)
          else (prod_bad[0] if prod_bad else 'self.m is assigned on %d of %d paths' % (n_m, len(rpaths))))
    ck.ob('R-LIT.rotation', 'identity-default', ident_bad is None and ident_seen > 0, f.loc(),
          'unused axes default to the identity' if ident_bad is None else ident_bad[0])
    for key_, kind_ in sorted(mats.items()):
        if key_ != 'self.m':
            ck.ob('R-LIT.rotation', 'matrix|%s' % key_, kind_ is not None, f.loc(),
                  '%s is %s' % (key_, kind_ or 'neither Z@Y@X nor its transpose X.T@Y.T@Z.T of the three axis rotations'))
    ap = m.func('mininec.Rotation_Matrix.apply')
    rets = [r_ for r_ in walk_no_nested(ap.node) if isinstance(r_, ast.Return) and r_.value is not None]
    ok = bool(rets)
    forms = []
    for r_ in rets:
        v = r_.value
        t = norm(v)
        good = False
        # M @ v  (forward matrix on the left) ; v @ Mt (transpose on the right) ; dot forms
        if isinstance(v, ast.BinOp) and isinstance(v.op, ast.MatMult):
            l_, r2 = norm(v.left), norm(v.right)
            if mats.get(l_) == 'forward' or l_ == 'self.m':
                good = True
            elif mats.get(r2) == 'transpose' or r2 == 'self.m.T':
                good = True
        elif isinstance(v, ast.Call) and (dotted(v.func) or '') in ('np.dot', 'np.matmul') and len(v.args) == 2:
            good = norm(v.args[0]) == 'self.m' or norm(v.args[1]) == 'self.m.T'
        elif isinstance(v, ast.Call) and norm(v.func) == 'self.m.dot':
            good = True
        forms.append(t)
        ok = ok and good
    ck.ob('R-LIT.rotation', 'apply', ok, ap.loc(), 'apply(vec) returns %s' % forms)

    # ---------------------------------------------------------------- D2
    expect = {
        ('Wire', 'rotate'): (['self.p1', 'self.p2'], 'rmatrix'),
        ('Wire', 'translate'): (['self.p1', 'self.p2'], 'translation'),
        ('Wire', 'scale'): (['self.p1', 'self.p2', 'self._r'], 'factor'),
        ('Curve', 'rotate'): (['self.segends'], 'rmatrix'),
        ('Curve', 'translate'): (['self.segends'], 'translation'),
        ('Curve', 'scale'): (['self.segends', 'self._r'], 'factor'),
    }
    # decided on the symbolic walk with effects (private helpers, lambdas and bound methods handed
    # to them are resolved): the value every geometric attribute holds at the end of each path
    from ..symx import SymExec
    from ..poly import poly_roles, cancel, Poly
    for (cls, op), (attrs, param) in sorted(expect.items()):
        # the method an object of the class runs (defined in the class or inherited), walked for that class:
        # hooks it calls on self are the ones of the class
        g = m.resolve_method(cls, op)
        if g is None:
            raise AnalysisError('anchor vanished: %s has no method %s' % (cls, op))
        gkey = 'mininec.%s.%s' % (cls, op)
        cache_fn = m.resolve_method(cls, 'compute_endpoints')
        sx_ = SymExec(ctx, g, effects=True, max_paths=2000, depth=3,
                      no_expand={cache_fn.qual} if cache_fn is not None else ())
        sx_.self_cls = cls
        paths = [p_ for p_ in sx_.run() if p_.end != 'raise']
        miss, wrong, extra = [], [], []
        if not paths:
            wrong.append('no path returns normally')
        for p_ in paths:
            final = {}
            order = {}
            for i_, ev in enumerate(p_.events):
                if ev[0] == 'store' and ev[1].startswith('self.') and '[' not in ev[1]:
                    final[ev[1]] = ev[2]
                    order[ev[1]] = i_
            for k in attrs:
                if k not in final:
                    if k not in miss:
                        miss.append(k)
                    continue
                v = final[k]
                txt = norm(v)
                good = False
                if op == 'rotate':
                    good = txt == '%s.apply(%s)' % (param, k) or \
                        (k == 'self.segends' and txt in ('%s.apply(self.segends.T).T' % param, '(%s.m @ self.segends.T).T' % param,
                                                         'self.segends @ %s.m.T' % param))
                    if not good and isinstance(v, ast.Call) and norm(v.func) == '%s.apply' % param and \
                       any(isinstance(x_, ast.Attribute) and norm(x_) == k for a_ in v.args for x_ in ast.walk(a_)):
                        good = True
                    if not good and param in txt and k in txt and '.apply(' in txt:
                        good = True
                else:
                    try:
                        pol = cancel(poly_roles(v, {}))
                        kk = Poly.var(k.split('.')[-1])
                        pp = Poly.var(param)
                        good = cancel(pol - (kk * pp if op == 'scale' else kk + pp)).t == {}
                    except (ValueError, ZeroDivisionError):
                        good = False
                if not good:
                    w_ = '%s = %s is not %s' % (k, txt[:60], {'rotate': 'the rotated old value', 'scale': 'old * factor',
                                                              'translate': 'old + translation'}[op])
                    if w_ not in wrong:
                        wrong.append(w_)
            for k in final:
                if k not in attrs and k not in extra:
                    extra.append(k)
            if cls == 'Wire':
                rec = [i_ for i_, ev in enumerate(p_.events) if ev[0] == 'call' and norm(ev[1].func) == 'self.compute_endpoints']
                if len(rec) != 1 or any(order[k] > rec[0] for k in attrs if k in order):
                    if 'end-point cache not recomputed after the update' not in wrong:
                        wrong.append('end-point cache not recomputed after the update')
                elif cache_fn is not None:
                    # the refresh really refreshes: called with these arguments it stores everything it stores when
                    # called plainly (a flag that makes it return early leaves `diff` / `wire_len` of the old position)
                    call_ = p_.events[rec[0]][1]
                    if call_.args or call_.keywords:
                        def stored_always(env_):
                            ps_ = [q_ for q_ in SymExec(ctx, cache_fn, max_paths=500).run(env=env_) if q_.end != 'raise']
                            sets_ = [{ev_[1] for ev_ in q_.events if ev_[0] == 'store' and ev_[1].startswith('self.')} for q_ in ps_]
                            return set.intersection(*sets_) if sets_ else set()
                        pos_ = [a_.arg for a_ in cache_fn.node.args.args][1:]
                        env_ = {}
                        for n_, a_ in zip(pos_, call_.args):
                            env_[n_] = a_
                        for k_ in call_.keywords:
                            if k_.arg is not None:
                                env_[k_.arg] = k_.value
                        dflt_ = {a_.arg: d_ for a_, d_ in zip(cache_fn.node.args.args[len(cache_fn.node.args.args) - len(cache_fn.node.args.defaults):],
                                                              cache_fn.node.args.defaults)}
                        full_ = stored_always(dict(dflt_))
                        here_ = stored_always({**dflt_, **env_})
                        lost_ = sorted(full_ - here_ - ({'self.wire_len'} if op in ('rotate', 'translate') else set()))   # (a rigid motion keeps the length)
                        if lost_:
                            w_ = 'compute_endpoints(%s) does not refresh %s' % (', '.join(norm(x_) for x_ in list(call_.args) + [k_.value for k_ in call_.keywords]), lost_)
                            if w_ not in wrong:
                                wrong.append(w_)
        ok = not miss and not wrong and not extra
        ck.ob('R-SIB.transform', gkey, ok, g.loc(),
              'updates %s with %s on %d paths' % (sorted(attrs), param, len(paths)) if ok else
              'missing %s wrong %s extra %s' % (miss, wrong, extra))
    # geometric attributes of the classes: constructor assigns exactly the point attributes above
    wi = m.func('mininec.Wire.__init__')
    pts = sorted(norm(s.targets[0]) for s in wi.body() if isinstance(s, ast.Assign) and
                 isinstance(s.value, ast.Call) and (dotted(s.value.func) or '').endswith('array'))
    ck.ob('R-SIB.transform', 'Wire|point-attributes', pts == ['self.p1', 'self.p2'], wi.loc(),
          'Wire stores its geometry in %s' % pts)
    for cname in ('Arc', 'Helix'):
        ci = m.func('mininec.%s.__init__' % cname)
        arrs = sorted(norm(s.targets[0]) for s in ci.body() if isinstance(s, ast.Assign) and
                      isinstance(s.targets[0], ast.Attribute) and isinstance(s.value, ast.Call) and
                      (dotted(s.value.func) or '').endswith('array'))
        ck.ob('R-SIB.transform', '%s|point-attributes' % cname, arrs == ['self.segends'], ci.loc(),
              '%s stores its geometry in %s' % (cname, arrs))
        # subclasses must not override the transformations
        own = [op for op in ('rotate', 'translate', 'scale') if op in m.cls(cname).methods]
        ck.ob('R-SIB.transform', '%s|inherits-transforms' % cname, not own, ci.loc(),
              '%s inherits rotate/translate/scale from Curve' % cname if not own else 'overrides %s' % own)
    # dispatchers, on the symbolic walk (helpers taking the operation as a callable looked through): with
    # tag None the operation is applied once to every object of the container, otherwise once to by_tag[tag]
    import re as _re
    for op, arg in (('rotate', 'Rotation_Matrix(rotation)'), ('translate', 'translation'), ('scale', 'factor')):
        g = m.func('mininec.Geo_Container.%s' % op)
        bad = None
        seen_all = seen_one = 0
        n_mat = set()
        for p_ in SymExec(ctx, g, bind_loops=True, effects=True, max_paths=2000).run():
            if p_.end == 'raise':
                continue
            none_ = [b_ for t_, b_ in p_.conds if isinstance(b_, bool) and t_ == 'tag is None']
            if not none_:
                bad = bad or 'the tag is not tested on the path %s' % (p_.conds[:4],)
                continue
            calls_ = [ev for ev in p_.events if ev[0] == 'call' and isinstance(ev[1].func, ast.Attribute) and
                      ev[1].func.attr == op and norm(ev[1].func.value) != 'self']
            ent = [t_ for k_, t_ in p_.conds if k_ == 'loop' and t_ in ('self', 'self.geo')]
            skp = [t_ for k_, t_ in p_.conds if k_ == 'loop-skipped' and t_ in ('self', 'self.geo')]
            for ev in calls_:
                n_mat.add(norm(ev[1].args[0]) if ev[1].args else '?')
            if none_[-1]:
                if skp and not ent:
                    if calls_:
                        bad = bad or 'operation applied although the container is empty'
                    continue
                ok_ = len(calls_) == 1 and bool(ent) and _re.match(r'^(self|self\.geo)\[_k\d+\]$', norm(calls_[0][1].func.value)) \
                    and calls_[0][3] and calls_[0][3][-1] in ('self', 'self.geo') and [norm(a_) for a_ in calls_[0][1].args] == [arg]
                seen_all += 1
                if not ok_:
                    bad = bad or 'without a tag: %s' % [norm(ev[1])[:60] for ev in calls_]
            else:
                ok_ = len(calls_) == 1 and norm(calls_[0][1].func.value) == 'self.by_tag[tag]' and not calls_[0][3] and \
                    [norm(a_) for a_ in calls_[0][1].args] == [arg]
                seen_one += 1
                if not ok_:
                    bad = bad or 'with a tag: %s' % [norm(ev[1])[:60] for ev in calls_]
        ok = bad is None and seen_all >= 1 and seen_one >= 1
        ck.ob('R-SIB.dispatch', g.qual, ok, g.loc(), 'tag None -> every object, else by_tag[tag]' if ok else
              'tag None -> every object, else by_tag[tag]: %s' % (bad or 'a case is missing (all: %d, tagged: %d)' % (seen_all, seen_one)))
        if op == 'rotate':
            ck.ob('R-SIB.dispatch', g.qual + '|matrix', n_mat == {'Rotation_Matrix(rotation)'}, g.loc(),
                  'one Rotation_Matrix(rotation) shared by all objects: %s' % sorted(n_mat))

    # ---------------------------------------------------------------- D3
    from ._mainorder import check_transform_order
    check_transform_order(ctx, ck)

    # ---------------------------------------------------------------- D4
    from .C14 import check_f_setter
    check_f_setter(ctx, ck, rule='R-EFFECT.wavelength', with_resets=False)
    # the speed of light (299.8, written out or kept in a module-level constant) is used by the frequency setter
    # (and its private helpers) only: nothing else derives a wavelength of its own
    def is_c(n):
        return isinstance(n, ast.Constant) and isinstance(n.value, float) and abs(n.value - 299.8) < 1e-9
    c_names = {nm_ for (mod_, nm_), v_ in m.module_consts.items() if is_c(v_)}
    lits = []
    for g in m.all_funcs():
        for n in walk_no_nested(g.node):
            if is_c(n) or (isinstance(n, ast.Name) and isinstance(n.ctx, ast.Load) and n.id in c_names and
                           n.id not in g.all_params):
                lits.append(g.qual)
    from ..rules import self_closure
    setter = m.func('mininec.Mininec.f@setter')
    allowed = {setter.qual} | {g_.qual for g_ in self_closure(ctx, setter) if g_.name.startswith('_')}
    if not lits:
        raise AnalysisError('no use of the speed of light (299.8) found: where the wavelength comes from is not understood')
    ck.ob('R-EFFECT.wavelength', 'speed-of-light-literal', set(lits) <= allowed and setter.qual in set(lits) | allowed,
          setter.loc(), 'functions using the constant 299.8: %s' % sorted(set(lits)))
    # which ends are joined must not depend on where the structure is: the matching test is a function of the
    # distance between two ends only (shared with C12)
    ck.rule('R-SYM.end-matching', 'wire ends are joined by a test on their distance alone (translation / rotation invariant)')
    from .C12 import check_end_match_distance
    check_end_match_distance(ctx, ck, 'R-SYM.end-matching')
    # ---------------------------------------------------------------- D5
    # a decision taken from the sign of a horizontal direction cosine changes when the antenna is turned by
    # 180 degrees about the vertical: tests on direction vectors may ask "is there a horizontal component"
    # (truth value, != 0, abs, square, norm) but not "is it positive"
    ck.rule('R-SYM.direction-sign', 'no decision depends on the sign of a horizontal direction component')
    n_dir = 0
    for g in sorted(m.all_funcs(), key=lambda x: x.qual):
        if g.module.name not in ('mininec', 'pulse', 'segment'):
            continue
        cmps = [c for c in walk_no_nested(g.node) if isinstance(c, ast.Compare) and len(c.ops) == 1 and
                isinstance(c.ops[0], (ast.Lt, ast.Gt, ast.LtE, ast.GtE))]
        uses_dir = any(isinstance(x, ast.Attribute) and x.attr in ('dirvec', 'diff') for x in ast.walk(g.node))
        if not cmps or not uses_dir:
            continue
        gfl = ctx.flow(g)
        for c in cmps:
            sides = [c.left, c.comparators[0]]
            zero = [isinstance(x, ast.Constant) and x.value == 0 for x in sides]
            if zero[0] == zero[1]:
                continue
            e = sides[1] if zero[0] else sides[0]
            try:
                e = gfl.inline(e, gfl.node_id_of(c), depth=3)
            except Exception:
                pass

            def signed_horizontal(x, under_abs=False):
                """a horizontal component of a direction vector that reaches the comparison with its sign"""
                if isinstance(x, ast.Call):
                    nm = (dotted(x.func) or '').split('.')[-1]
                    if nm in ('abs', 'absolute', 'fabs', 'norm', 'hypot', 'square'):
                        return None
                    for a_ in list(x.args) + ([x.func.value] if isinstance(x.func, ast.Attribute) else []):
                        r_ = signed_horizontal(a_)
                        if r_ is not None:
                            return r_
                    return None
                if isinstance(x, ast.BinOp) and isinstance(x.op, ast.Pow):
                    return None
                if isinstance(x, ast.Subscript):
                    b_ = x.value
                    if isinstance(b_, ast.Attribute) and b_.attr in ('dirvec', 'diff'):
                        sl = x.slice
                        idx = sl.elts[-1] if isinstance(sl, ast.Tuple) and sl.elts else sl
                        horiz = (isinstance(idx, ast.Constant) and idx.value in (0, 1)) or \
                            (isinstance(idx, ast.Slice) and idx.lower is None and isinstance(idx.upper, ast.Constant) and idx.upper.value == 2)
                        return x if horiz else None
                for ch in ast.iter_child_nodes(x):
                    r_ = signed_horizontal(ch)
                    if r_ is not None:
                        return r_
                return None
            hit = signed_horizontal(e)
            if hit is not None:
                n_dir += 1
                ck.ob('R-SYM.direction-sign', '%s|%s' % (g.qual, norm(c)[:60]), False, g.loc(c),
                      'the test %s depends on the sign of the horizontal direction component %s: turning the antenna by '
                      '180 degrees about the vertical changes the decision' % (norm(c)[:60], norm(hit)[:50]))
    ck.ob('R-SYM.direction-sign', 'package', n_dir == 0, m.func('pulse.Pulse.is_non_vertical_grounded').loc(),
          'no ordering test on a signed horizontal direction component' if n_dir == 0 else '%d sign-dependent tests' % n_dir)
    # the values as entered (`*_unscaled`) are kept for the option writer only: computing with them ignores the scaling
    ck.rule('R-DEP.unscaled-for-writer', 'attributes holding the geometry as entered (`*_unscaled`) are read by the option writers only')
    from ..rules import writer_functions
    wset_ = {g_.qual for g_ in writer_functions(ctx, ('as_cmdline',), ())}
    n_un = 0
    for g_ in m.all_funcs():
        for x_ in walk_no_nested(g_.node):
            if isinstance(x_, ast.Attribute) and isinstance(x_.ctx, ast.Load) and x_.attr.endswith('_unscaled'):
                p_ = parent(x_)
                none_test = isinstance(p_, ast.Compare) and len(p_.ops) == 1 and isinstance(p_.ops[0], (ast.Is, ast.IsNot)) and \
                    isinstance(p_.comparators[0], ast.Constant) and p_.comparators[0].value is None
                n_un += 1
                ok_ = g_.qual in wset_ or g_.name.startswith('as_cmdline') or none_test or g_.name in ('__str__', '__repr__')
                ck.ob('R-DEP.unscaled-for-writer', '%s|%s' % (g_.qual, norm(x_)), ok_, g_.loc(x_),
                      'written back as entered' if ok_ else
                      '%s computes with %s, the value as entered before --geo-scale: the result does not scale with the '
                      'structure' % (g_.qual, norm(x_)))
    ck.floor('reads of the as-entered geometry', n_un, 3)
    ck.undecided += ['invariance of impedances, currents and pattern to 5e-4 (numeric)']
