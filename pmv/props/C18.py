"""C18  Generated BASIC-MININEC input describes the same antenna.

Decided:
 D1 R-KIND units   a value written under a prompt that asks for DEGREES (the prompt is documented
                   in the comment above the answer, read with tokenize, or in the literal label of
                   the sibling report writer) is of degree kind; kinds are inferred from the unit
                   constructors (x/180*pi -> radians, x/pi*180 -> degrees, np.angle -> radians).
                   Every np.angle() that reaches a printed PHASE column passes through exactly one
                   /pi*180.
 D2 R-EXH counts   NO. OF SOURCES = len(sources) followed by one block per source; NUMBER OF LOADS
                   = sum of attached pulses followed by one writer call per load, each writing one
                   entry per pulse; NO. OF WIRES = sum of emulated wires followed by one writer call
                   per object; each emulated wire block has the five answers (segments, end 1,
                   end 2, radius, N) and an object writes n_emulated_wires blocks.
 D3                pulse numbers are 1-based (= C17-D2).  (How many answers carry their prompt as
                   a comment is reported as information only: comments are not behaviour.)
Not decided: the true prompt order of the BASIC program (its source is not in the repository),
             re-reading as MININEC would.
"""
import ast
import re
from ..model import AnalysisError, walk_no_nested, norm, dotted, parent, enclosing_stmt
from ..dataflow import product_of
from ..rules import loops_in, loop_reaches_on_all_paths, calls_in


def unit_kinds(ctx, clsname):
    """{attr: 'deg' | 'rad'} inferred from assignments in the class"""
    kinds = {}
    ci = ctx.model.cls(clsname)
    for f in ci.methods.values():
        for s in walk_no_nested(f.node):
            if isinstance(s, ast.Assign) and isinstance(s.targets[0], ast.Attribute) and \
               isinstance(s.targets[0].value, ast.Name) and s.targets[0].value.id == 'self':
                k = expr_unit(s.value, kinds, f)
                if k:
                    a = s.targets[0].attr
                    if a in kinds and kinds[a] != k:
                        kinds[a] = 'conflict'
                    else:
                        kinds[a] = k
    return kinds


def expr_unit(e, kinds, f=None):
    """'deg' / 'rad' / None"""
    if isinstance(e, ast.Call) and (dotted(e.func) or '') in ('np.angle', 'numpy.angle', 'cmath.phase',
                                                             'np.arctan2', 'math.atan2'):
        if any(k.arg == 'deg' and isinstance(k.value, ast.Constant) and k.value.value for k in e.keywords):
            return 'deg'
        return 'rad'
    if isinstance(e, ast.Call) and (dotted(e.func) or '') in ('np.degrees', 'np.rad2deg', 'math.degrees'):
        return 'deg'
    if isinstance(e, ast.Call) and (dotted(e.func) or '') in ('np.radians', 'np.deg2rad', 'math.radians'):
        return 'rad'
    if isinstance(e, ast.BinOp) and isinstance(e.op, (ast.Mult, ast.Div)):
        pr = product_of(e)
        nn, dd = pr.texts()
        pi_num = any(t in ('np.pi', 'math.pi', 'pi') for t in nn)
        pi_den = any(t in ('np.pi', 'math.pi', 'pi') for t in dd)
        c = abs(pr.coef) if not isinstance(pr.coef, complex) else abs(pr.coef)
        if pi_num and abs(c - 1 / 180) < 1e-12:
            return 'rad'
        if pi_den and abs(c - 180) < 1e-9:
            return 'deg'
        return None
    if isinstance(e, ast.Attribute) and isinstance(e.value, ast.Name) and e.value.id == 'self':
        return kinds.get(e.attr)
    if isinstance(e, ast.Name) and f is not None:
        # parameter documented in degrees: `phase` of Excitation.__init__ (docstring says degrees)
        return None
    return None


def prompt_comment(module, lineno, back=3):
    """nearest comment line above `lineno` (within `back` lines)"""
    for k in range(1, back + 1):
        c = module.comments.get(lineno - k)
        if c:
            return c
        if module.lines[lineno - k - 1].strip() and not module.lines[lineno - k - 1].strip().startswith('#'):
            break
    return None


def run(ctx, ck):
    m = ctx.model
    ck.rule('R-KIND.degrees', 'a value under a DEGREES prompt/label is of degree kind')
    ck.rule('R-KIND.angle-conversion', 'np.angle() reaching a printed column passes through /pi*180 once')
    ck.rule('R-EXH.counts', 'announced counts equal the number of blocks that follow')

    # ---------------------------------------------------------------- D1
    kinds = unit_kinds(ctx, 'Excitation')
    ck.info('excitation_unit_kinds', kinds)
    if not ({'phase', 'phase_d'} <= set(kinds)):
        raise AnalysisError('unit kinds of Excitation.phase / phase_d could not be inferred: %s' % kinds)
    ck.ob('R-KIND.degrees', 'Excitation|unit-constructors', kinds.get('phase') == 'rad' and
          kinds.get('phase_d') == 'deg', m.func('mininec.Excitation.__init__').loc(),
          'phase is %s, phase_d is %s' % (kinds.get('phase'), kinds.get('phase_d')))
    # the labelled sibling (report line "PULSE NO., VOLTAGE MAGNITUDE, PHASE (DEGREES):") fixes the
    # unit of each of the three values; the BASIC writer answers the same prompt
    def triple(q):
        from ..fmt import written_values
        f = m.func(q)
        fl_ = ctx.flow(f)
        mods = []
        for n in walk_no_nested(f.node):
            if isinstance(n, ast.BinOp) and isinstance(n.op, ast.Mod):
                vals = written_values(n.right, fl_, fl_.node_id_of(n))
                if len(vals) == 3:
                    mods.append((n, vals))
        if len(mods) != 1:
            raise AnalysisError('%s: expected one 3-value format, found %d' % (q, len(mods)))
        label = ' '.join(x.value for x in walk_no_nested(f.node) if isinstance(x, ast.Constant)
                         and isinstance(x.value, str))
        c = prompt_comment(f.module, enclosing_stmt(mods[0][0]).lineno)
        return f, mods[0], label, c
    sf, smod, slabel, _ = triple('mininec.Excitation.as_mininec_short')
    bf, bmod, blabel, bcomment = triple('mininec.Excitation.as_basic_input')
    n_deg = 1 if re.search(r'DEG', slabel) else 0
    ck.floor('DEGREES label on the source report line', n_deg, 1)
    ck.info('basic_input_prompt_comment', bcomment)
    (smod, svals), (bmod, bvals) = smod, bmod
    skinds = [expr_unit(a, kinds) for a in svals]
    bkinds = [expr_unit(a, kinds) for a in bvals]
    ck.ob('R-KIND.degrees', sf.qual, 'deg' in skinds and 'rad' not in skinds, sf.loc(smod),
          'label asks for DEGREES; writes %s with kinds %s' % ([norm(a) for a in svals], skinds))
    ok = bkinds == skinds
    why = 'BASIC answer %s has the unit kinds %s of the labelled report line' % (
        [norm(a) for a in bvals], bkinds)
    if not ok:
        bad = [norm(a) for a, k, k2 in zip(bvals, bkinds, skinds) if k != k2]
        why = ('the prompt PULSE NO., VOLTAGE MAGNITUDE, PHASE (DEGREES) is answered with %s (kinds %s) '
               'but the report line with that label writes %s (kinds %s): %s is in radians'
               % ([norm(a) for a in bvals], bkinds, [norm(a) for a in svals], skinds, bad))
    ck.ob('R-KIND.degrees', bf.qual, ok, bf.loc(bmod), why)
    # angle conversions in report writers
    n_ang = 0
    for f in sorted(m.all_funcs(), key=lambda x: x.qual):
        if 'as_mininec' not in f.name:
            continue
        fl = None
        for c in walk_no_nested(f.node):
            if isinstance(c, ast.Call) and (dotted(c.func) or '') == 'np.angle':
                fl = fl or ctx.flow(f)
                # find the name the angle is stored in and follow it to the use in a format
                st = enclosing_stmt(c)
                tgt = st.targets[0].id if isinstance(st, ast.Assign) and isinstance(st.targets[0], ast.Name) else None
                conv_here = expr_unit(st.value, {}) if isinstance(st, ast.Assign) else None
                ok = conv_here == 'deg'
                if not ok and tgt:
                    # a later re-assignment  a = a / np.pi * 180  dominating every use
                    later = [s for s in walk_no_nested(f.node) if isinstance(s, ast.Assign) and
                             isinstance(s.targets[0], ast.Name) and s.targets[0].id == tgt and s is not st
                             and expr_unit(s.value, {}) == 'deg' and
                             any(isinstance(x, ast.Name) and x.id == tgt for x in ast.walk(s.value))]
                    uses = [u for u in walk_no_nested(f.node) if isinstance(u, ast.Name) and u.id == tgt and
                            isinstance(u.ctx, ast.Load) and isinstance(parent(u), (ast.Tuple,))]
                    if later and uses:
                        lid = fl.node_id_of(later[0])
                        ok = all(fl.cfg.must_pass(fl.node_id_of(u), {lid}, start=fl.node_id_of(st)) for u in uses)
                n_ang += 1
                ck.ob('R-KIND.angle-conversion', '%s|%s' % (f.qual, norm(c)), ok, f.loc(c),
                      'angle %s converted to degrees before printing' % norm(c) if ok else
                      'np.angle result printed without / pi * 180')
    ck.floor('np.angle sites in report writers', n_ang, 6)

    # ---------------------------------------------------------------- D2
    w = m.func('mininec.Mininec.as_basic_input')
    wfl = ctx.flow(w)
    body_txt = [norm(s) for s in w.body()]

    def appended_after(count_expr_txt, loop_iter_txt, call_attr):
        """r.append(str(<count>)) followed by a loop over <iter> appending one writer call each"""
        cnt = [s for s in walk_no_nested(w.node) if isinstance(s, ast.Expr) and
               norm(s) == 'r.append(str(%s))' % count_expr_txt]
        lp = [l for l in loops_in(w.node) if isinstance(l, ast.For) and norm(l.iter) == loop_iter_txt and
              any(isinstance(c, ast.Call) and isinstance(c.func, ast.Attribute) and c.func.attr == call_attr
                  for c in ast.walk(l))]
        return cnt, lp

    def one_per_iter(l, call_attr):
        lv = l.target.id if isinstance(l.target, ast.Name) else '?'
        return loop_reaches_on_all_paths(wfl, l, lambda n: n.kind == 'stmt' and n.stmt is not None and any(
            isinstance(c, ast.Call) and isinstance(c.func, ast.Attribute) and c.func.attr == call_attr and
            norm(c.func.value) == lv for c in ast.walk(n.stmt)))

    cnt, lp = appended_after('len(self.sources)', 'self.sources', 'as_basic_input')
    ok = len(cnt) == 1 and len(lp) == 1 and one_per_iter(lp[0], 'as_basic_input') == (1, 1) and \
        wfl.cfg.must_pass(wfl.cfg.node_of(lp[0]), {wfl.node_id_of(cnt[0])})
    ck.ob('R-EXH.counts', w.qual + '|sources', ok, w.loc(cnt[0] if cnt else None),
          'NO. OF SOURCES = len(self.sources), then one block per source')
    # wires
    nw = [s for s in walk_no_nested(w.node) if isinstance(s, ast.Assign) and
          norm(s.value) == 'sum((w.n_emulated_wires for w in self.geo))']
    ok = len(nw) == 1
    if ok:
        v = nw[0].targets[0].id
        cnt, lp = appended_after(v, 'self.geo', 'as_basic_input')
        ok = len(cnt) == 1 and len(lp) == 1 and one_per_iter(lp[0], 'as_basic_input') == (1, 1)
    ck.ob('R-EXH.counts', w.qual + '|wires', ok, w.loc(nw[0] if nw else None),
          'NO. OF WIRES = sum of emulated wires, then one writer call per object')
    # loads
    acc = [s for s in walk_no_nested(w.node) if isinstance(s, ast.AugAssign) and isinstance(s.op, ast.Add)
           and norm(s.value) == 'len(l.pulses)']
    ok = len(acc) == 1
    if ok:
        v = acc[0].target.id
        cnt, lp = appended_after(v, 'self.loads', 'as_basic_input')
        l0 = parent(acc[0])
        ok = len(cnt) == 1 and len(lp) == 1 and one_per_iter(lp[0], 'as_basic_input') == (1, 1) and \
            isinstance(l0, ast.For) and norm(l0.iter) == 'self.loads' and \
            loop_reaches_on_all_paths(wfl, l0, lambda n: n.stmt is acc[0]) == (1, 1)
        init = [d for d in wfl.def_exprs(v, wfl.cfg.node_of(l0)) if d[0] == 'assign' and
                d[2] not in wfl.cfg.loops[wfl.cfg.node_of(l0)][0]]
        ok = ok and [norm(d[1]) for d in init] == ['0']
    ck.ob('R-EXH.counts', w.qual + '|loads', ok, w.loc(acc[0] if acc else None),
          'NUMBER OF LOADS = sum(len(l.pulses)), then one writer call per load')
    # each load writer: one entry per pulse
    for q in ('mininec.Impedance_Load.as_basic_input', 'mininec.Distributed_Load.as_basic_input',
              'mininec.Laplace_Load.as_basic_input'):
        g = m.func(q)
        gfl = ctx.flow(g)
        ls = [l for l in loops_in(g.node) if isinstance(l, ast.For) and norm(l.iter) == 'self.pulses']
        ok = len(ls) == 1
        cntr = None
        if ok:
            def is_head(n):
                s = n.stmt
                return n.kind == 'stmt' and isinstance(s, ast.Expr) and isinstance(s.value, ast.Call) and \
                    isinstance(s.value.func, ast.Attribute) and s.value.func.attr == 'append' and \
                    'pulse.idx + 1' in norm(s)
            cntr = loop_reaches_on_all_paths(gfl, ls[0], is_head)
            ok = cntr == (1, 1)
        ck.ob('R-EXH.counts', q, ok, g.loc(), 'one entry (with 1-based pulse number) per attached pulse: %s' % (cntr,))
    # wire blocks
    g = m.func('mininec.Geobj.as_basic_input')
    gfl = ctx.flow(g)
    top = [n for n in g.body() if isinstance(n, ast.If) and norm(n.test) == 'self.n_emulated_wires == 1']
    ok = len(top) == 1
    why = 'unexpected shape'
    if ok:
        single = [s for s in top[0].body if isinstance(s, ast.Expr)]
        multi_first = [s for s in top[0].orelse if isinstance(s, ast.Expr)]
        loops = [s for s in top[0].orelse if isinstance(s, ast.For)]
        ok = len(single) == 5 and len(multi_first) == 5 and len(loops) == 1 and \
            norm(loops[0].iter) == 'self.segments[1:]' and \
            len([s for s in loops[0].body if isinstance(s, ast.Expr)]) == 5
        why = 'single wire: %d answers; emulated: %d answers + %d per further segment' % (
            len(single), len(multi_first), len([s for s in loops[0].body if isinstance(s, ast.Expr)]) if loops else -1)
        if ok:
            for blk in (single, multi_first, [s for s in loops[0].body if isinstance(s, ast.Expr)]):
                ok = ok and norm(blk[-1]) == "r.append('N')" and 'self.r' in norm(blk[3])
    ck.ob('R-EXH.counts', g.qual + '|wire-blocks', ok, g.loc(), why)
    # n_emulated_wires definitions agree with the number of blocks written
    wprop = m.func('mininec.Wire.n_emulated_wires')
    rets = sorted(norm(r.value) for r in walk_no_nested(wprop.node) if isinstance(r, ast.Return))
    ok = rets == ['1', 'self.n_segments']
    for cname in ('Arc', 'Helix'):
        ci = m.func('mininec.%s.__init__' % cname)
        ok = ok and any(norm(s) == 'self.n_emulated_wires = self.n_segments' for s in ci.body())
    ck.ob('R-EXH.counts', 'n_emulated_wires', ok, wprop.loc(),
          'emulated wires = 1 (plain wire) or n_segments (tapered wire, arc, helix)')

    # ---------------------------------------------------------------- D3 documentation of prompts
    n_ans = 0
    n_doc = 0
    for q in ('mininec.Mininec.as_basic_input', 'mininec.Excitation.as_basic_input',
              'mininec.Medium.as_basic_input', 'mininec.Geobj.as_basic_input',
              'mininec.Impedance_Load.as_basic_input', 'mininec.Laplace_Load.as_basic_input',
              'mininec.Distributed_Load.as_basic_input'):
        f = m.func(q)
        for s in walk_no_nested(f.node):
            if isinstance(s, ast.Expr) and isinstance(s.value, ast.Call) and \
               isinstance(s.value.func, ast.Attribute) and s.value.func.attr == 'append' and \
               norm(s.value.func.value) == 'r':
                n_ans += 1
                # comment within the 3 lines above, or the answer continues a documented group
                c = prompt_comment(f.module, s.lineno, back=4)
                if c:
                    n_doc += 1
    ck.info('answers', n_ans)
    ck.info('answers_with_prompt_comment', n_doc)
    ck.floor('answers in BASIC input writers', n_ans, 60)
    # media: an answer is written exactly when its prompt is asked; the report writer of the same
    # class prints the same item under the same condition (sibling)
    from ..fmt import Evaluator, template_text, arg_text
    ck.rule('R-SIB.media-prompts', 'Medium: coordinate written iff there is a next medium, height iff a previous one')
    want = {'self.coord': 'self.next', 'self.height': 'self.prev'}
    for q in ('mininec.Medium.as_basic_input', 'mininec.Medium.as_mininec'):
        g = m.func(q)
        ev = Evaluator(g)
        em = ev.emissions()
        paths = {}
        for (t, conds, il, node, pconds) in em:
            paths.setdefault(pconds, set())
            for p_ in t:
                if p_[0] == 'conv' and p_[2] is not None:
                    a_ = arg_text(p_[2])
                    for attr in want:
                        if a_ and attr in a_:
                            paths[pconds].add(attr)
        for attr, guard in want.items():
            bad = []
            n_paths = 0
            for pc, emitted in paths.items():
                gv = [b for (t_, b) in pc if t_ == guard and isinstance(b, bool)]
                # a path on which the guard is not tested stands for both values of the guard
                vals = [gv[-1]] if gv else [True, False]
                n_paths += 1
                for val in vals:
                    if val != (attr in emitted):
                        bad.append((pc + ((guard, val),) if not gv else pc, attr in emitted))
            ok = not bad and n_paths >= 2
            why = '%s written exactly on the paths with `%s` (%d paths)' % (attr, guard, n_paths)
            if bad:
                pc, em_ = bad[0]
                why = ('%s is %s on the path %s although `%s` is %s: the answers do not match the prompts '
                       'for that medium' % (attr, 'written' if em_ else 'NOT written',
                                            ['%s=%s' % (t_, b) for t_, b in pc if isinstance(b, bool)],
                                            guard, not em_))
            ck.ob('R-SIB.media-prompts', '%s|%s' % (q, attr), ok, g.loc(), why)
    ck.undecided += ['true prompt order of the BASIC program', 're-reading the answers as MININEC would']
