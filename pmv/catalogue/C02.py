M = 'mininec.Mininec.'
MUTANTS = [
    ('swap direction vectors of the halves', [(M + 'compute_impedance_matrix', "                ( f7v * u [..., np.newaxis] * di2\n                + f6v * v [..., np.newaxis] * di1", "                ( f7v * u [..., np.newaxis] * di1\n                + f6v * v [..., np.newaxis] * di2")], ['coherent-product', 'complete-term']),
    ('sign of half 0 for the positive half', [(M + 'compute_impedance_matrix', "u  [compu] = vp [compu] * sg [..., 1][compu]", "u  [compu] = vp [compu] * sg [..., 0][compu]")], ['coherent-product']),
    ('sign of half 1 for the negative half', [(M + 'compute_impedance_matrix', "v [compu]  = vp [compu] * sg [..., 0] [compu]", "v [compu]  = vp [compu] * sg [..., 1] [compu]")], ['coherent-product', 'complete-term']),
    ('ground sign of wrong half', [(M + 'compute_impedance_matrix', "f7v [..., 2] = gs [..., 1]", "f7v [..., 2] = gs [..., 0]")], ['coherent-product', 'complete-term']),
    ('difference divided by other half length', [(M + 'compute_impedance_matrix', "u12 [c]    = (sp [c] - u56 [c]) / sl [..., 1][c]", "u12 [c]    = (sp [c] - u56 [c]) / sl [..., 0][c]")], ['difference-length']),
    ('second difference divided by other half length', [(M + 'compute_impedance_matrix', "u12 [c]   += (u34 [c] - sp [c]) / sl [..., 0][c]", "u12 [c]   += (u34 [c] - sp [c]) / sl [..., 1][c]")], ['difference-length']),
    ('sign taken from observer pulse', [(M + 'compute_impedance_matrix', "sg           = self.pulses.matrix_sign [1]", "sg           = self.pulses.matrix_sign [0]")], ['source-side']),
    ('sign factor dropped', [(M + 'compute_impedance_matrix', "u  [compu] = vp [compu] * sg [..., 1][compu]", "u  [compu] = vp [compu]")], ['complete-term', 'families']),
    ('image not weighted by sign', [(M + 'compute_impedance_matrix', "self.Z    += k * (d + u12)", "self.Z    += (d + u12)")], ['image-term']),
    ('image includes grounded sources', [(M + 'compute_impedance_matrix', "ng         = ngnd if k < 0 else True", "ng         = True")], ['image-mask']),
    ('psi takes radius of fixed half', [(M + 'psi', "r       = self.pulses.radius.T  [int (scale > 0)][pidx]", "r       = self.pulses.radius.T  [1][pidx]")], ['one-selector']),
    ('vector potential geometry of other half', [(M + 'vector_potential', "dv  = self.pulses.matrix_dvecs (ds) [1]", "dv  = self.pulses.matrix_dvecs (-ds) [1]")], ['potential-half', 'one-selector']),
    ('scalar potential passes wrong scale', [(M + 'scalar_potential', "(v2, vv, k, ds2, px [co1], fvs = 1, exact = xct [co1])", "(v2, vv, k, ds1, px [co1], fvs = 1, exact = xct [co1])")], ['potential-half', 'one-selector']),
    ('negative half potential with positive scale', [(M + 'compute_impedance_matrix', "vp [c]     = self.vector_potential (k, c, -0.5)", "vp [c]     = self.vector_potential (k, c, 0.5)")], ['coherent-product', 'complete-term', 'both-halves']),
    ('end-2 neighbour segment chosen by the end-1 sign', [('mininec.Geobj.compute_connections', "            if sgn [1] < 0:\n                oseg = other.segments [-1]", "            if sgn [0] < 0:\n                oseg = other.segments [-1]")], ['junction-geometry']),
    ('outer point of end 2 ignores the direction', [('mininec.Geobj.compute_connections', "oinc = oseg.dirvec * oseg.seg_len * sgn [1]", "oinc = oseg.dirvec * oseg.seg_len")], ['junction-geometry']),
]
REFACTORS = [
    ('rename locals', [(M + 'compute_impedance_matrix', "        di1          = dv [..., 0, :]\n        di2          = dv [..., 1, :]", "        dminus       = dv [..., 0, :]\n        dplus        = dv [..., 1, :]"),
                       (M + 'compute_impedance_matrix', "                ( f7v * u [..., np.newaxis] * di2\n                + f6v * v [..., np.newaxis] * di1", "                ( f7v * u [..., np.newaxis] * dplus\n                + f6v * v [..., np.newaxis] * dminus")]),
    ('terms reordered', [(M + 'compute_impedance_matrix', "                ( f7v * u [..., np.newaxis] * di2\n                + f6v * v [..., np.newaxis] * di1", "                ( di1 * f6v * v [..., np.newaxis]\n                + di2 * u [..., np.newaxis] * f7v")]),
    ('widx inlined', [(M + 'vector_potential', "(cond, self.pulses.matrix_radius [1][..., widx] >= self.srm)", "(cond, self.pulses.matrix_radius [1][..., int (ds > 0)] >= self.srm)")]),
    ('Z accumulate reordered', [(M + 'compute_impedance_matrix', "self.Z    += k * (d + u12)", "self.Z    += (u12 + d) * k")]),
]
