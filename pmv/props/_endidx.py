"""R-COUNT.end-index: Geobj.compute_connections predicts the global index of the pulse at the
second end of an object (`end_segs[1] = pulse_idx + npulse`) before the pulses are created.  The
prediction must equal the number of pulses the same function creates before the end-2 pulse, for
every combination of end states.  Decided on the creation model (_creation.py): symbolic paths with
ordered events, evaluated over the finite abstract domain of end states - no repository code is
executed."""
import ast
from ..model import AnalysisError, norm
from ._creation import (CC, PIDX, Undecidable, creation_model, make_env, aeval, path_feasible,
                        actual_sequence, states, feasible_paths, AssertionFails)


def _final_store(p, key):
    vals = [ev for ev in p.events if ev[0] == 'store' and ev[1] == key]
    return vals[-1] if vals else None


def check_end_index(ctx, ck, rule='R-COUNT.end-index'):
    f, paths = creation_model(ctx)
    n_cases = 0
    bad = []
    bad0 = []
    where = None
    try:
        for s0, s1, nseg in states():
            env = make_env(s0, s1, nseg)
            try:
                feas = feasible_paths(paths, env, 'end states (%s, %s), %d segments' % (s0, s1, nseg))
            except AssertionFails as e_:
                bad.append((s0, s1, nseg, str(e_), -1))
                continue
            for p in feas:
                seq = actual_sequence(p, env)
                # end 2
                if s1 != 'free':
                    st = _final_store(p, 'self.end_segs[1]')
                    if st is None:
                        raise AnalysisError('%s: self.end_segs[1] is not assigned on a path' % CC)
                    where = where or st[3]
                    pos = [i for i, (k, e) in enumerate(seq) if e == 2]
                    val = aeval(st[2], env)
                    n_cases += 1
                    if len(pos) != 1 or val is None or val - PIDX != pos[0]:
                        bad.append((s0, s1, nseg, None if val is None else val - PIDX, pos[0] if pos else len(seq)))
                # end 1: the first pulse of the object
                if seq and not (s0 == 'free' and nseg == 1):
                    st0 = _final_store(p, 'self.end_segs[0]')
                    if st0 is None:
                        raise AnalysisError('%s: self.end_segs[0] is not assigned on a path' % CC)
                    v0 = aeval(st0[2], env)
                    if v0 != PIDX:
                        bad0.append((s0, s1, nseg, v0))
    except Undecidable as e:
        raise AnalysisError('%s: end-index expressions not understood: %s' % (CC, e))
    bad = sorted(set(bad), key=str)
    asf = [b for b in bad if b[4] == -1]
    if asf:
        ck.ob(rule, CC + '|end_segs[1]', False, f.loc(where),
              'for end states (end1=%s, end2=%s, %d segments) every path fails: %s' % asf[0][:4])
        bad = []
        ck.ob(rule, CC + '|end_segs[0]', True, f.loc(where), 'not judged')
        return n_cases
    ck.ob(rule, CC + '|end_segs[1]', not bad, f.loc(where),
          'predicted index of the end-2 pulse equals the number of pulses created before it in all %d '
          'end-state cases' % n_cases if not bad else
          'for end states (end1=%s, end2=%s, %d segments) end_segs[1] is predicted as pulse_idx+%s but %d '
          'pulses are created before the end-2 pulse (%d of %d cases differ): junction lines and sources '
          'addressed through this end use the wrong pulse' % (bad[0] + (len(bad), n_cases)))
    bad0 = sorted(set(bad0), key=str)
    ck.ob(rule, CC + '|end_segs[0]', not bad0, f.loc(where),
          'end_segs[0] = global index of the first pulse created for the object, read before any creation'
          if not bad0 else 'for end states (end1=%s, end2=%s, %d segments) end_segs[0] is %s, not the index of the '
          'first pulse of the object' % bad0[0])
    return n_cases
