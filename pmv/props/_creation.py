"""Pulse creation model of Geobj.compute_connections, shared by C09 / C12 / C17.

The function is walked symbolically (symx: every path, temporaries and private helpers resolved,
created objects given identities, one iteration of the interior loop).  Each path carries
  - the tests it passed, as closed texts over self.idx_1, self.is_ground[K], self.conn[K].list ...
  - the ordered events: Pulse(...) creations, `<pulse>.n = ...`, `self.pulses.append(<pulse>)`,
    stores into self.end_segs[K].
The paths are then evaluated over the finite abstract domain of end states
  free / ground / joined to an earlier object (either direction) / joined to itself (either direction)
x number of segments.  For one abstract state the feasible paths are selected by evaluating their
tests; what they create is compared with what the topology calls for.  Nothing from the repository
is executed: the evaluation is arithmetic on small integers and booleans of the abstract state.
"""
import ast
import re
from ..model import AnalysisError, norm, dotted

CC = 'mininec.Geobj.compute_connections'
END_STATES = ('free', 'ground', 'other+', 'other-', 'self+', 'self-')
END_STATES_2 = END_STATES + ('otherB+', 'otherB-')      # end 2 may join a second earlier object
N_SELF = 2          # position of the object under analysis
N_OTHER = 0         # position of an earlier object (A)
N_OTHER_B = 1       # position of another earlier object (B)
PIDX = 100          # parent.pulses.pulse_idx at entry
USER_TAG = 77       # explicit tag of the object under analysis (differs from every position + 1)


class Undecidable(Exception):
    pass


_PARSED = {}
_VALUES = {}
_FIRST = set()


def idx_value(state):
    """value of Geobj.idx(end) as documented in Geobj.idx / Connected_Geobj.idx"""
    if state == 'free':
        return 0
    if state == 'ground':
        return -(N_SELF + 1)
    sign = 1 if state.endswith('+') else -1
    if state.startswith('otherB'):
        return (N_OTHER_B + 1) * sign
    if state.startswith('other'):
        return (N_OTHER + 1) * sign
    return (N_SELF + 1) * sign


def object_of(state):
    """identity of the object an end is joined to: 'self' | 'A' | 'B' | None"""
    if state.startswith('self'):
        return 'self'
    if state.startswith('otherB'):
        return 'B'
    if state.startswith('other'):
        return 'A'
    return None


def make_env(s0, s1, nseg):
    return {
        'self.idx_1': idx_value(s0), 'self.idx_2': idx_value(s1),
        'self.n': N_SELF, 'self.n_segments': nseg,
        'self.is_ground[0]': s0 == 'ground', 'self.is_ground[1]': s1 == 'ground',
        'self.conn[0].list': s0.startswith(('other', 'self')),
        'self.conn[1].list': s1.startswith(('other', 'self')),
        'self.conn[0].list[0][0] is self': s0.startswith('self'),
        'self.conn[1].list[0][0] is self': s1.startswith('self'),
        'self.conn[0].list[0][0] is not self': not s0.startswith('self'),
        'self.conn[1].list[0][0] is not self': not s1.startswith('self'),
        'parent.pulses.pulse_idx': PIDX,
        # a tag is chosen by the user: unrelated to the position of the object (Geobj.idx: "must NOT use the tag")
        'self.tag': USER_TAG,
        '_state': (s0, s1, nseg),
        '_objs': {'self': 'self', 'self.conn[0].list[0][0]': object_of(s0), 'self.conn[1].list[0][0]': object_of(s1)},
    }


def aeval(e, env, depth=0):
    """value of a closed expression in the abstract state env"""
    if depth > 40:
        raise Undecidable('too deep')
    if isinstance(e, ast.Constant):
        return e.value
    if isinstance(e, ast.Name):
        if e.id in env:
            return env[e.id]
        raise Undecidable('name %s' % e.id)
    t = None
    if isinstance(e, (ast.Attribute, ast.Subscript, ast.Compare)):
        t = norm(e)
        if t in env:
            return env[t]
    if t is None:
        t = '<expr>'
    if isinstance(e, ast.BoolOp):
        if isinstance(e.op, ast.And):
            v = True
            for x in e.values:
                v = aeval(x, env, depth + 1)
                if not v:
                    return v
            return v
        v = False
        for x in e.values:
            v = aeval(x, env, depth + 1)
            if v:
                return v
        return v
    if isinstance(e, ast.UnaryOp):
        v = aeval(e.operand, env, depth + 1)
        if isinstance(e.op, ast.Not):
            return not v
        if isinstance(e.op, ast.USub):
            return -v
        return v
    if isinstance(e, ast.BinOp):
        a = aeval(e.left, env, depth + 1)
        b = aeval(e.right, env, depth + 1)
        if isinstance(e.op, ast.Add):
            return a + b
        if isinstance(e.op, ast.Sub):
            return a - b
        if isinstance(e.op, ast.Mult):
            return a * b
        raise Undecidable('operator in %s' % t[:60])
    if isinstance(e, ast.Compare) and len(e.ops) == 1 and isinstance(e.ops[0], (ast.Is, ast.IsNot)) and _FIRST:
        def canon_first(x):
            t_ = norm(x)
            for nm_ in _FIRST:
                t_ = re.sub(r'^(self\.conn\[[01]\])\.%s(\(\))?$' % re.escape(nm_), r'\1.list[0][0]', t_)
            return t_
        if canon_first(e.left) != norm(e.left) or canon_first(e.comparators[0]) != norm(e.comparators[0]):
            e = ast.Compare(left=ast.parse(canon_first(e.left), mode='eval').body, ops=e.ops,
                            comparators=[ast.parse(canon_first(e.comparators[0]), mode='eval').body])
            t = norm(e)
            if t in env:
                return env[t]
    if isinstance(e, ast.Compare) and len(e.ops) == 1 and isinstance(e.ops[0], (ast.Is, ast.IsNot)) and \
       norm(e.left) in env.get('_objs', {}) and norm(e.comparators[0]) in env.get('_objs', {}):
        # identity of the objects the two ends are joined to
        a, b = env['_objs'][norm(e.left)], env['_objs'][norm(e.comparators[0])]
        if a is None or b is None:
            raise Undecidable('identity of the neighbour of an end that is not joined: %s' % t[:60])
        return (a == b) if isinstance(e.ops[0], ast.Is) else (a != b)
    if isinstance(e, ast.Compare) and len(e.ops) == 1:
        a = aeval(e.left, env, depth + 1)
        b = aeval(e.comparators[0], env, depth + 1)
        op = e.ops[0]
        table = {ast.Eq: lambda: a == b, ast.NotEq: lambda: a != b, ast.Lt: lambda: a < b, ast.Gt: lambda: a > b,
                 ast.LtE: lambda: a <= b, ast.GtE: lambda: a >= b}
        for k, fn in table.items():
            if isinstance(op, k):
                return fn()
        raise Undecidable('comparison in %s' % t[:60])
    if isinstance(e, ast.IfExp):
        return aeval(e.body if aeval(e.test, env, depth + 1) else e.orelse, env, depth + 1)
    if isinstance(e, ast.Call) and isinstance(e.func, ast.Name) and e.func.id == '_read' and len(e.args) == 2:
        # the pulse counter as read after k creations of the walk (creation increments it)
        k = e.args[1].value
        if k != 0:
            raise Undecidable('the pulse counter is read after %d pulses of the object were created' % k)
        return aeval(e.args[0], env, depth + 1)
    if isinstance(e, ast.Call) and norm(e.func) == 'self.idx' and len(e.args) == 1 and not e.keywords:
        # self.idx(0) / self.idx(1): what the properties idx_1 / idx_2 return
        k = aeval(e.args[0], env, depth + 1)
        if k in (0, 1) and 'self.idx_%d' % (k + 1) in env:
            return env['self.idx_%d' % (k + 1)]
    mo_ = re.match(r'^self\.conn\[([01])\]\.idx$', norm(e.func)) if isinstance(e, ast.Call) else None
    if mo_ and len(e.args) == 1 and norm(e.args[0]) == 'self':
        # the not-grounded arm of Geobj.idx(K), written out by the walk (on a grounded end the path is not feasible:
        # its test of is_ground decides that, whatever is returned here)
        return env['self.idx_%d' % (int(mo_.group(1)) + 1)]
    if isinstance(e, ast.Call) and isinstance(e.func, ast.Name) and e.func.id == 'abs' and len(e.args) == 1:
        return abs(aeval(e.args[0], env, depth + 1))
    if isinstance(e, ast.Call) and isinstance(e.func, ast.Name) and e.func.id in ('int', 'bool') and len(e.args) == 1:
        v = aeval(e.args[0], env, depth + 1)
        return int(v) if e.func.id == 'int' else bool(v)
    if isinstance(e, ast.Call) and (dotted(e.func) or '') == 'np.sign' and len(e.args) == 1:
        v = aeval(e.args[0], env, depth + 1)
        return (v > 0) - (v < 0)
    if isinstance(e, ast.Call) and isinstance(e.func, ast.Name) and e.func.id == 'sum' and len(e.args) == 1 and \
       isinstance(e.args[0], ast.Call) and norm(e.args[0].func) == '_each' and len(e.args[0].args) == 2 and \
       'self.segments' in norm(e.args[0].args[1]):
        # a sum over the interior loop: (segments - 1) iterations of a loop-invariant term
        term = e.args[0].args[0]
        if re.search(r'_k\d+', norm(term)):
            raise Undecidable('loop-variant term %s' % norm(term)[:40])
        return iter_len(e.args[0].args[1], env) * aeval(term, env, depth + 1)
    raise Undecidable(t[:70])


def iter_len(it, env):
    """number of iterations of a loop over the iterable `it` (text or AST) in the abstract state"""
    if isinstance(it, str):
        e = _PARSED.get(it)
        if e is None:
            e = ast.parse(it, mode='eval').body
            _PARSED[it] = e
        it = e
    nseg = env['self.n_segments']
    if isinstance(it, ast.Call) and isinstance(it.func, ast.Name) and it.func.id == 'enumerate' and it.args:
        return iter_len(it.args[0], env)
    if isinstance(it, ast.Call) and isinstance(it.func, ast.Name) and it.func.id == 'zip' and it.args:
        return min(iter_len(a, env) for a in it.args)
    if isinstance(it, ast.Call) and isinstance(it.func, ast.Name) and it.func.id == 'range' and len(it.args) == 1:
        return max(0, aeval(it.args[0], env))
    if isinstance(it, ast.Call) and isinstance(it.func, ast.Name) and it.func.id == 'range' and len(it.args) == 2:
        return max(0, aeval(it.args[1], env) - aeval(it.args[0], env))
    if isinstance(it, ast.Call) and (dotted(it.func) or '') in ('pairwise', 'itertools.pairwise') and len(it.args) == 1:
        return max(0, iter_len(it.args[0], env) - 1)
    if isinstance(it, ast.Attribute) and norm(it) == 'self.segments':
        return nseg
    if isinstance(it, ast.Subscript) and norm(it.value) == 'self.segments' and isinstance(it.slice, ast.Slice) \
       and it.slice.step is None:
        lo = aeval(it.slice.lower, env) if it.slice.lower is not None else 0
        hi = aeval(it.slice.upper, env) if it.slice.upper is not None else nseg
        lo = lo + nseg if lo < 0 else lo
        hi = hi + nseg if hi < 0 else hi
        lo = min(max(lo, 0), nseg)
        hi = min(max(hi, 0), nseg)
        return max(0, hi - lo)
    raise Undecidable('iterations of %s' % norm(it)[:60])


def _relevant(st, skip_names=()):
    txt = norm(st)
    helpers = set(re.findall(r'self\.(_\w+)\(', txt))
    return not (isinstance(st, (ast.For, ast.While)) and 'Pulse(' not in txt and 'end_segs' not in txt
                and helpers <= set(skip_names))


class Creation:
    def count(self, env):
        """how many pulses this creation event stands for (iterations of the loops it is in)"""
        n = 1
        for l in self.loops:
            n *= iter_len(l, env)
        return n

    def __init__(self, token, call, stmt, loops):
        self.token = token
        self.call = call
        self.stmt = stmt
        self.loops = loops
        self.kws = {k.arg: k.value for k in call.keywords}
        args = [norm(a) for a in call.args]
        self.args = args
        self.interior = any('self.segments' in l for l in loops)
        self.end = None         # 1 | 2 for the pulses at the ends
        g = self.kws.get('gnd')
        if isinstance(g, ast.Constant) and g.value in (0, 1):
            self.end = g.value + 1
        elif not self.interior and len(args) >= 6:
            if args[5] == 'self.segments[0]' and args[4] != 'self.segments[0]':
                self.end = 1
            elif args[4] == 'self.segments[-1]' and args[5] != 'self.segments[-1]':
                self.end = 2
            elif args[4] == 'self.segments[-1]' and args[5] == 'self.segments[0]':
                # single segment joined at both sides is not a form the code produces
                self.end = None
        self.kind = 'interior' if self.interior else ('gnd' if 'gnd' in self.kws else ('conn' if 'sgn' in self.kws else 'other'))


def creation_model(ctx):
    """(func, [path]) - symbolic paths with events; cached on ctx"""
    cache = ctx.__dict__.setdefault('_creation_model', None)
    if cache is not None:
        return cache
    from ..symx import SymExec
    f = ctx.func(CC)
    # names under which Connected_Geobj hands out the object that was linked first (`first`, `first_geobj()`): a
    # method / property whose returned value is `self.list[0][0]`
    _FIRST.clear()
    cg_ = ctx.model.classes.get('Connected_Geobj')
    for nm_, g_ in (cg_.methods.items() if cg_ is not None else []):
        rets_ = [x_ for x_ in ast.walk(g_.node) if isinstance(x_, ast.Return) and x_.value is not None]
        if rets_ and norm(rets_[-1].value) == 'self.list[0][0]' and all(
                norm(x_.value) in ('self.list[0][0]', 'None') for x_ in rets_) and len(g_.params) == 1:
            _FIRST.add(nm_)
    # helpers that (with everything they call on self) neither create pulses nor touch end_segs /
    # the pulse lists do not matter for this model (the end matching): not looked into
    from ..rules import self_closure
    skip = set()
    for g in self_closure(ctx, f):
        if g.qual == f.qual:
            continue
        txt = ' '.join(norm(h.node) for h in self_closure(ctx, g))
        returns_value = any(isinstance(n_, ast.Return) and n_.value is not None for n_ in ast.walk(g.node))
        if 'Pulse(' not in txt and 'end_segs' not in txt and '.pulses' not in txt and not returns_value:
            skip.add(g.qual)
    stmts = [st for st in f.body() if _relevant(st, {q.rsplit('.', 1)[1] for q in skip})]
    # simple properties of the object are looked through, except the ones the abstract state gives a value
    keep_atomic = {k_[len('self.'):] for k_ in make_env('free', 'free', 2) if k_.startswith('self.') and
                   k_[len('self.'):].isidentifier()}
    for nm_ in keep_atomic:
        g_ = ctx.model.resolve_method(f.cls.name, nm_) if f.cls is not None else None
        if g_ is not None and g_.kind in ('property', 'cached_property'):
            skip.add(g_.qual)
    paths = [p for p in SymExec(ctx, f, depth=3, bind_loops=True, objects=True, effects=True, max_paths=20000,
                                   volatile=('pulse_idx',), no_expand=skip, props=True).run(stmts=stmts)
             if p.end != 'raise']
    n_create = sum(1 for p in paths for ev in p.events if ev[0] == 'create' and norm(ev[2].func) == 'Pulse')
    if not paths or not n_create:
        raise AnalysisError('%s: no Pulse creation found on the symbolic paths' % CC)
    ctx.__dict__['_creation_model'] = (f, paths)
    return f, paths


def feasible_paths(paths, env, what):
    """paths whose tests hold in the abstract state; a state in which every path ends in a failing
    assertion is reported by the caller (AssertionFails), a state without any path is an analysis error"""
    feas = []
    failed = []
    for p in paths:
        r = path_feasible(p, env, report_assert=True)
        if r is True:
            feas.append(p)
        elif r:
            failed.append(r)
    if not feas and failed:
        raise AssertionFails(sorted(failed)[0])
    if not feas:
        raise AnalysisError('%s: no path of the walk is feasible for %s' % (CC, what))
    return feas


class AssertionFails(Exception):
    pass


def path_feasible(p, env, report_assert=False):
    """do the tests passed on path p hold in the abstract state env?  (tests on the loop index of
    the interior loop are iteration specific and do not select)"""
    failed_assert = None
    for t, b in p.conds:
        if t == 'loop':
            if 'self.segments' in b and iter_len(b, env) < 1:
                return False
            continue
        if t == 'loop-skipped':
            if 'self.segments' in b and iter_len(b, env) >= 1:
                return False
            continue
        if t == 'iteration-ended':
            continue
        if not isinstance(b, bool):
            continue
        if re.search(r'_k\d+', t):
            continue
        e = _PARSED.get(t)
        if e is None:
            try:
                e = ast.parse(t, mode='eval').body
            except SyntaxError:
                raise Undecidable('test %s' % t[:60])
            _PARSED[t] = e
        key = (t, env['_state'])
        if key in _VALUES:
            v = _VALUES[key]
        else:
            v = aeval(e, env)
            _VALUES[key] = v
        if bool(v) != b:
            if report_assert and (t, b) in getattr(p, 'asserted', ()):
                failed_assert = failed_assert or ('assert %s%s' % ('' if b else 'not ', t))
                continue
            return False
    return failed_assert if failed_assert else True


def creations_of(p):
    return [Creation(ev[1], ev[2], ev[3], ev[4]) for ev in p.events
            if ev[0] == 'create' and norm(ev[2].func) == 'Pulse']


def states(nsegs=(1, 2, 5)):
    for s0 in END_STATES:
        for s1 in END_STATES_2:
            if s0.startswith('self') != s1.startswith('self'):
                continue
            if s1.startswith('otherB') and not s0.startswith('other'):
                continue        # a second neighbour only matters next to a first one
            for nseg in nsegs:
                if nseg == 1 and s0.startswith('self'):
                    continue        # a single segment cannot be joined to itself
                yield s0, s1, nseg


def expected_sequence(s0, s1, nseg):
    """what the topology calls for: [(kind, end)] in creation order"""
    seq = []
    if s0 == 'ground':
        seq.append(('gnd', 1))
    elif s0.startswith('other'):
        seq.append(('conn', 1))
    seq += [('interior', None)] * (nseg - 1)
    if s1 == 'ground':
        seq.append(('gnd', 2))
    elif s1.startswith(('other', 'self')):
        seq.append(('conn', 2))
    return seq


def actual_sequence(p, env):
    seq = []
    for c in creations_of(p):
        if c.interior:
            seq += [('interior', None)] * c.count(env)
        else:
            seq.append((c.kind, c.end))
    return seq


def check_neighbour_segment(ctx, ck, rule='R-SIB.add-conn'):
    """the outer half of a junction pulse lies on the neighbour's segment that touches the junction: joined
    to the neighbour's same end (index negative) it is the neighbour's first segment at end 1 and its last
    at end 2, otherwise the other way round; the outer point continues one segment along it.  Over all
    abstract end states (shared by C02 / C06: the geometry of the junction pulse enters every matrix term)."""
    import ast
    from ..poly import poly_roles, cancel
    g, cpaths = creation_model(ctx)
    badn = None
    n_j = 0
    try:
        for s0, s1, nseg in states():
            env_ = make_env(s0, s1, nseg)
            try:
                feas = feasible_paths(cpaths, env_, 'end states (%s, %s), %d segments' % (s0, s1, nseg))
            except AssertionFails:
                continue
            for p_ in feas:
                for c in creations_of(p_):
                    if c.kind != 'conn' or c.end not in (1, 2) or len(c.args) < 6:
                        continue
                    K = c.end
                    st_ = s0 if K == 1 else s1
                    rev = st_.endswith('-')
                    oseg = c.args[4] if K == 1 else c.args[5]
                    other = 'parent.geo[abs(self.idx_%d) - 1]' % K
                    want_i = ('0' if rev else '-1') if K == 1 else ('-1' if rev else '0')
                    n_j += 1
                    if oseg != '%s.segments[%s]' % (other, want_i):
                        badn = badn or ('end %d joined to the %s end of the neighbour (state %s): outer half on %s, expected '
                                        '%s.segments[%s]' % (K, 'same' if rev else 'opposite', st_, oseg[:70], other, want_i), c.stmt)
                        continue
                    far = c.call.args[2] if K == 1 else c.call.args[3]
                    want_far = '%s %s %s.dirvec * %s.seg_len * np.sign(self.idx_%d)' % (
                        c.args[1], '-' if K == 1 else '+', oseg, oseg, K)
                    # (the polynomial comparison names quantities by role; which segment they are read from is
                    # compared here: the step along the neighbour is taken on the very segment the pulse is given)
                    recv = sorted({norm(x_.value) for x_ in ast.walk(far) if isinstance(x_, ast.Attribute)
                                   and x_.attr in ('dirvec', 'seg_len') and 'parent.geo' in norm(x_.value)})
                    if recv and recv != [oseg]:
                        badn = badn or ('end %d (state %s): the outer point steps along %s but the pulse is given the segment %s'
                                        % (K, st_, recv[0][:70], oseg[:70]), c.stmt)
                        continue
                    try:
                        d_ = cancel(poly_roles(far, {}) - poly_roles(ast.parse(want_far, mode='eval').body, {}))
                        if d_.t != {}:
                            badn = badn or ('end %d: outer point is %s, expected %s' % (K, norm(far)[:80], want_far[:80]), c.stmt)
                    except (ValueError, ZeroDivisionError) as e_:
                        badn = badn or ('end %d: outer point not understood: %s' % (K, e_), c.stmt)
    except Undecidable as e_:
        raise AnalysisError('%s: creation model not understood: %s' % (g.qual, e_))
    ck.floor('junction pulses examined over the end states', n_j, 8)
    ck.ob(rule, g.qual + '|neighbour-segment', badn is None, g.loc(badn[1]) if badn else g.loc(),
          'outer half of a junction pulse on the neighbour segment touching the junction, outer point one segment along it'
          if badn is None else badn[0])
