"""Statement-level control-flow graph for one function and the path analyses used by the rules.

Nodes: one per simple statement; compound statements contribute a header node
(`if`/`while` test, `for` header, `with` header, `try` has none).  Special nodes ENTRY,
EXIT (normal return / fall off the end) and RAISE (uncaught explicit raise).
"""
import ast
from .model import walk_no_nested, norm


class Node:
    __slots__ = ('id', 'kind', 'stmt', 'succ', 'pred', 'label')

    def __init__(self, id, kind, stmt=None):
        self.id = id
        self.kind = kind        # entry exit raise stmt test for with handler
        self.stmt = stmt
        self.succ = []          # [(node_id, label)]  label: None | True | False | 'exc' | 'iter' | 'done'
        self.pred = []

    @property
    def lineno(self):
        return getattr(self.stmt, 'lineno', 0)

    def __repr__(self):
        return '<N%d %s L%d>' % (self.id, self.kind, self.lineno)


class CFG:
    def __init__(self, func_node, body=None):
        self.func = func_node
        self.nodes = []
        self.entry = self._new('entry')
        self.exit = self._new('exit')
        self.raise_exit = self._new('raise')
        self.by_stmt = {}           # id(ast stmt) -> node id (header node for compound stmts)
        self.loops = {}             # header node id -> (set(body node ids), after node id)
        body = func_node.body if body is None else body
        first = self._seq(body, self.exit.id, ctx=dict(brk=None, cont=None, handlers=[]))
        self._edge(self.entry.id, first, None)
        self._prune()

    # ---------------------------------------------------------------- build
    def _new(self, kind, stmt=None):
        n = Node(len(self.nodes), kind, stmt)
        self.nodes.append(n)
        return n

    def _edge(self, a, b, label):
        if (b, label) not in self.nodes[a].succ:
            self.nodes[a].succ.append((b, label))
            self.nodes[b].pred.append((a, label))

    def _seq(self, stmts, nxt, ctx):
        """build nodes for a statement list; returns id of the first node (nxt if empty)"""
        entry = nxt
        for st in reversed(stmts):
            entry = self._stmt(st, entry, ctx)
        return entry

    def _exc_targets(self, ctx):
        return [h for h in ctx['handlers']]

    def _may_raise_edges(self, nid, ctx):
        for h in self._exc_targets(ctx):
            self._edge(nid, h, 'exc')

    def _stmt(self, st, nxt, ctx):
        if isinstance(st, ast.If):
            n = self._new('test', st)
            self.by_stmt[id(st)] = n.id
            b = self._seq(st.body, nxt, ctx)
            e = self._seq(st.orelse, nxt, ctx)
            self._edge(n.id, b, True)
            self._edge(n.id, e, False)
            self._may_raise_edges(n.id, ctx)
            return n.id
        if isinstance(st, ast.For) and isinstance(st.target, ast.Name) and st.target.id.startswith('__once') and \
           isinstance(st.iter, ast.Tuple) and len(st.iter.elts) == 1 and not st.orelse:
            # the one-pass wrapper that inlining an early-returning helper leaves: a straight block
            # (`break` and the end of the body both leave it; nothing comes back)
            n = self._new('stmt', st)
            self.by_stmt[id(st)] = n.id
            c2 = dict(ctx, brk=nxt, cont=nxt)
            b = self._seq(st.body, nxt, c2)
            self._edge(n.id, b, None)
            return n.id
        if isinstance(st, (ast.For, ast.AsyncFor)):
            n = self._new('for', st)
            self.by_stmt[id(st)] = n.id
            after = self._seq(st.orelse, nxt, ctx)
            c2 = dict(ctx, brk=nxt, cont=n.id)
            before = len(self.nodes)
            b = self._seq(st.body, n.id, c2)
            self.loops[n.id] = (set(range(before, len(self.nodes))), nxt)
            self._edge(n.id, b, 'iter')
            self._edge(n.id, after, 'done')
            self._may_raise_edges(n.id, ctx)
            return n.id
        if isinstance(st, ast.While):
            n = self._new('test', st)
            self.by_stmt[id(st)] = n.id
            after = self._seq(st.orelse, nxt, ctx)
            c2 = dict(ctx, brk=nxt, cont=n.id)
            before = len(self.nodes)
            b = self._seq(st.body, n.id, c2)
            self.loops[n.id] = (set(range(before, len(self.nodes))), nxt)
            self._edge(n.id, b, True)
            self._edge(n.id, after, False)
            self._may_raise_edges(n.id, ctx)
            return n.id
        if isinstance(st, (ast.With, ast.AsyncWith)):
            n = self._new('with', st)
            self.by_stmt[id(st)] = n.id
            b = self._seq(st.body, nxt, ctx)
            self._edge(n.id, b, None)
            self._may_raise_edges(n.id, ctx)
            return n.id
        if isinstance(st, ast.Try) or st.__class__.__name__ == 'TryStar':
            # finally: executed on normal completion and before propagating; modelled on the
            # normal path only (no `finally` in the analysed package; counted by the loader)
            fin = self._seq(st.finalbody, nxt, ctx) if st.finalbody else nxt
            hentries = []
            for h in st.handlers:
                hn = self._new('handler', h)
                self.by_stmt[id(h)] = hn.id
                hb = self._seq(h.body, fin, ctx)
                self._edge(hn.id, hb, None)
                hentries.append(hn.id)
            els = self._seq(st.orelse, fin, ctx)
            # exceptions raised in the body may reach our handlers or (if no handler matches)
            # the enclosing ones
            c2 = dict(ctx, handlers=hentries + ctx['handlers'])
            b = self._seq(st.body, els, c2)
            self.by_stmt[id(st)] = b
            return b
        if isinstance(st, ast.Return):
            n = self._new('stmt', st)
            self.by_stmt[id(st)] = n.id
            self._edge(n.id, self.exit.id, None)
            self._may_raise_edges(n.id, ctx)
            return n.id
        if isinstance(st, ast.Raise):
            n = self._new('stmt', st)
            self.by_stmt[id(st)] = n.id
            hs = self._exc_targets(ctx)
            for h in hs:
                self._edge(n.id, h, 'exc')
            # may also escape (handler classes are not matched here)
            self._edge(n.id, self.raise_exit.id, 'exc')
            return n.id
        if isinstance(st, ast.Break):
            n = self._new('stmt', st)
            self.by_stmt[id(st)] = n.id
            self._edge(n.id, ctx['brk'] if ctx['brk'] is not None else nxt, None)
            return n.id
        if isinstance(st, ast.Continue):
            n = self._new('stmt', st)
            self.by_stmt[id(st)] = n.id
            self._edge(n.id, ctx['cont'] if ctx['cont'] is not None else nxt, None)
            return n.id
        if isinstance(st, (ast.FunctionDef, ast.AsyncFunctionDef, ast.ClassDef)):
            n = self._new('stmt', st)
            self.by_stmt[id(st)] = n.id
            self._edge(n.id, nxt, None)
            return n.id
        # simple statement
        n = self._new('stmt', st)
        self.by_stmt[id(st)] = n.id
        self._edge(n.id, nxt, None)
        self._may_raise_edges(n.id, ctx)
        return n.id

    def _prune(self):
        """drop edges from unreachable nodes (keeps ids stable)"""
        reach = self.reachable_from(self.entry.id)
        for n in self.nodes:
            if n.id not in reach:
                for (b, l) in n.succ:
                    self.nodes[b].pred = [(a, ll) for (a, ll) in self.nodes[b].pred if a != n.id]
                n.succ = []
        self.reach = reach

    # ---------------------------------------------------------------- queries
    def node_of(self, stmt):
        return self.by_stmt.get(id(stmt))

    def reachable_from(self, start, avoid=(), labels_excluded=()):
        seen = set()
        todo = [start]
        avoid = set(avoid)
        while todo:
            a = todo.pop()
            if a in seen or a in avoid:
                continue
            seen.add(a)
            for (b, l) in self.nodes[a].succ:
                if l in labels_excluded:
                    continue
                if b not in seen:
                    todo.append(b)
        return seen

    def must_pass(self, target, through, start=None, no_exc=True):
        """True iff every path start->target contains a node of `through` (set of ids)."""
        start = self.entry.id if start is None else start
        if target in through:
            return True
        r = self.reachable_from(start, avoid=through,
                                labels_excluded=('exc',) if no_exc else ())
        return target not in r

    def dominators(self):
        ids = sorted(self.reach)
        dom = {i: set(ids) for i in ids}
        dom[self.entry.id] = {self.entry.id}
        changed = True
        while changed:
            changed = False
            for i in ids:
                if i == self.entry.id:
                    continue
                ps = [p for (p, l) in self.nodes[i].pred if p in self.reach]
                if not ps:
                    new = {i}
                else:
                    new = set.intersection(*[dom[p] for p in ps]) | {i}
                if new != dom[i]:
                    dom[i] = new
                    changed = True
        return dom

    def count_range(self, start, stops, weight, region=None, no_exc=True):
        """(min, max) number of weighted nodes on paths from `start` until a node in `stops`
        is reached (stops are not counted).  max is capped at 3 (3 = 'many / unbounded').
        `region`: restrict to these node ids (paths leaving it are ignored)."""
        INF = 10 ** 6
        CAP = 3
        mn = {}
        mx = {}
        ids = [n.id for n in self.nodes]
        for i in ids:
            mn[i] = INF
            mx[i] = -1
        # backward fixpoint: value at node = w(node) + best over successors
        for s in stops:
            mn[s] = 0
            mx[s] = 0
        for _ in range(len(ids) * CAP + 5):
            changed = False
            for n in self.nodes:
                i = n.id
                if i in stops:
                    continue
                if region is not None and i not in region and i != start:
                    continue
                w = 1 if weight(n) else 0
                best_min, best_max = INF, -1
                for (b, l) in n.succ:
                    if no_exc and l == 'exc':
                        continue
                    if region is not None and b not in region and b not in stops:
                        continue
                    if mn[b] < best_min:
                        best_min = mn[b]
                    if mx[b] > best_max:
                        best_max = mx[b]
                nm = min(INF, best_min + w) if best_min < INF else INF
                nx = min(CAP, best_max + w) if best_max >= 0 else -1
                if nm != mn[i] or nx != mx[i]:
                    mn[i] = nm
                    mx[i] = nx
                    changed = True
            if not changed:
                break
        return (mn[start] if mn[start] < INF else None, mx[start] if mx[start] >= 0 else None)

    def paths_hit(self, start, stops, pred, region=None):
        """convenience: (min,max) of nodes satisfying pred(stmt) between start and stops"""
        return self.count_range(start, set(stops), lambda n: n.stmt is not None and
                                n.kind in ('stmt', 'test', 'for', 'with') and pred(n), region)


# -------------------------------------------------------------------- definitions / uses
def stmt_defs(node):
    """names (re)bound by the CFG node itself (not by nested statements)"""
    st = node.stmt
    out = []
    if st is None:
        return out
    if node.kind == 'stmt':
        if isinstance(st, ast.Assign):
            for t in st.targets:
                out += _target_names(t)
        elif isinstance(st, (ast.AugAssign, ast.AnnAssign)):
            out += _target_names(st.target)
        elif isinstance(st, (ast.Import, ast.ImportFrom)):
            out += [(a.asname or a.name).split('.')[0] for a in st.names]
        elif isinstance(st, (ast.FunctionDef, ast.ClassDef)):
            out.append(st.name)
        elif isinstance(st, ast.Delete):
            pass
        for n in _walk_expr_of_stmt(st):
            if isinstance(n, ast.NamedExpr):
                out += _target_names(n.target)
    elif node.kind == 'for':
        out += _target_names(st.target)
    elif node.kind == 'with':
        for it in st.items:
            if it.optional_vars is not None:
                out += _target_names(it.optional_vars)
    elif node.kind == 'handler':
        if st.name:
            out.append(st.name)
    elif node.kind == 'test':
        for n in ast.walk(st.test):
            if isinstance(n, ast.NamedExpr):
                out += _target_names(n.target)
    return out


def weak_defs(node):
    """[(name, value expr)] : locals mutated in place by the node: x[...] = v, x[...] += v,
    x.attr = v, x.append(v) / add / extend / update / insert"""
    st = node.stmt
    out = []
    if st is None or node.kind != 'stmt':
        return out

    def base_name(t):
        while isinstance(t, (ast.Subscript, ast.Attribute)):
            t = t.value
        return t.id if isinstance(t, ast.Name) else None

    if isinstance(st, ast.Assign):
        for t in st.targets:
            ts = t.elts if isinstance(t, (ast.Tuple, ast.List)) else [t]
            for x in ts:
                if isinstance(x, (ast.Subscript, ast.Attribute)):
                    b = base_name(x)
                    if b and b != 'self':
                        out.append((b, st.value, x))
    elif isinstance(st, ast.AugAssign) and isinstance(st.target, (ast.Subscript, ast.Attribute)):
        b = base_name(st.target)
        if b and b != 'self':
            out.append((b, st.value, st.target))
    elif isinstance(st, ast.Expr) and isinstance(st.value, ast.Call):
        c = st.value
        if isinstance(c.func, ast.Attribute) and c.func.attr in (
                'append', 'add', 'extend', 'update', 'insert') and c.args:
            b = base_name(c.func.value)
            if b and b != 'self' and isinstance(c.func.value, ast.Name):
                out.append((b, c.args[-1], c.func))
    return out


def _target_names(t):
    if isinstance(t, ast.Name):
        return [t.id]
    if isinstance(t, (ast.Tuple, ast.List)):
        r = []
        for e in t.elts:
            r += _target_names(e)
        return r
    if isinstance(t, ast.Starred):
        return _target_names(t.value)
    return []


def _walk_expr_of_stmt(st):
    for n in walk_no_nested(st):
        yield n


def node_exprs(node):
    """expression roots evaluated by the CFG node itself"""
    st = node.stmt
    if st is None:
        return []
    if node.kind == 'test':
        return [st.test]
    if node.kind == 'for':
        return [st.iter]
    if node.kind == 'with':
        return [it.context_expr for it in st.items]
    if node.kind == 'handler':
        return [st.type] if st.type is not None else []
    if node.kind == 'stmt':
        if isinstance(st, (ast.FunctionDef, ast.ClassDef)):
            return []
        return [st]
    return []


def node_uses(node):
    """Name loads evaluated by the node (comprehension-bound names excluded)"""
    out = []
    for root in node_exprs(node):
        bound = set()
        for n in ast.walk(root):
            if isinstance(n, (ast.ListComp, ast.SetComp, ast.GeneratorExp, ast.DictComp)):
                for g in n.generators:
                    bound |= set(_target_names(g.target))
            elif isinstance(n, ast.Lambda):
                a = n.args
                bound |= {x.arg for x in a.args + a.posonlyargs + a.kwonlyargs}
        for n in walk_no_nested(root) if not isinstance(root, ast.expr) else ast.walk(root):
            if isinstance(n, ast.Name) and isinstance(n.ctx, ast.Load) and n.id not in bound:
                out.append(n)
        if isinstance(root, ast.AugAssign) and isinstance(root.target, ast.Name):
            out.append(root.target)
    return out


class ReachingDefs:
    """classic reaching definitions; a definition is (name, node_id); parameters are defined at
    ENTRY; ('name', None) = 'no definition on this path' (used by definite-assignment)."""

    def __init__(self, cfg, params=()):
        self.cfg = cfg
        self.params = set(params)
        names = set(self.params)
        self.gen = {}
        self.weak = {}
        for n in cfg.nodes:
            d = stmt_defs(n)
            self.gen[n.id] = d
            names |= set(d)
            w = weak_defs(n)
            if w:
                self.weak[n.id] = w
        self.names = names
        self.IN = {n.id: {} for n in cfg.nodes}
        self.OUT = {n.id: {} for n in cfg.nodes}
        self._solve()

    def _solve(self):
        cfg = self.cfg
        ent = cfg.entry.id
        init = {}
        for v in self.names:
            init[v] = frozenset([ent]) if v in self.params else frozenset([None])
        self.OUT[ent] = init
        work = [b for (b, l) in cfg.entry.succ]
        inq = set(work)
        while work:
            i = work.pop(0)
            inq.discard(i)
            n = cfg.nodes[i]
            ins = {}
            for (p, l) in n.pred:
                o = self.OUT[p]
                for v, ds in o.items():
                    ins[v] = ins.get(v, frozenset()) | ds
            self.IN[i] = ins
            out = dict(ins)
            for v in self.gen[i]:
                out[v] = frozenset([i])
            for (v, _val, _t) in self.weak.get(i, ()):
                if v in self.names and v not in self.gen[i]:
                    out[v] = out.get(v, frozenset()) | frozenset([i])
            if out != self.OUT[i]:
                self.OUT[i] = out
                for (b, l) in n.succ:
                    if b not in inq:
                        work.append(b)
                        inq.add(b)

    def defs_at(self, node_id, name):
        """node ids whose definition of `name` reaches the *entry* of node_id (None = undefined path)"""
        return self.IN.get(node_id, {}).get(name, frozenset([None]) if name in self.names
                                            else frozenset())


def if_chain_preds(cfg, node_id):
    """list of (normalised test text, branch taken) of the `if` statements enclosing the
    statement of the node (syntactic nesting)"""
    from .model import parent
    st = cfg.nodes[node_id].stmt
    out = []
    child = st
    p = parent(st) if st is not None else None
    while p is not None and p is not cfg.func:
        if isinstance(p, ast.If):
            if any(child is x for x in p.body):
                out.append((norm(p.test), True))
            elif any(child is x for x in p.orelse):
                out.append((norm(p.test), False))
        child = p
        p = parent(p)
    return out


def must_conds(cfg):
    """{node id: set of (normalised test text, branch)}: the tests every path from the entry to the
    node has passed with that outcome (branch edges of if / while; early returns and `continue`
    included, which the syntactic nesting does not show).  A fact dies when a name of its test
    is assigned."""
    import ast as _ast
    names_of = {}

    def names(t):
        if t not in names_of:
            try:
                names_of[t] = {n.id for n in _ast.walk(_ast.parse(t, mode='eval')) if isinstance(n, _ast.Name)}
            except SyntaxError:
                names_of[t] = {'*'}
        return names_of[t]
    ids = sorted(cfg.reach)
    TOP = None
    inn = {i: TOP for i in ids}
    inn[cfg.entry.id] = frozenset()

    def out_of(i, label):
        facts = inn[i]
        if facts is TOP:
            return TOP
        nd = cfg.nodes[i]
        defs = set(stmt_defs(nd)) | set(weak_defs(nd)) if nd.stmt is not None and nd.kind not in ('test',) else set()
        if nd.kind == 'for':
            defs = set(_target_names(nd.stmt.target))
        if defs:
            facts = frozenset(f for f in facts if not (names(f[0]) & defs) and '*' not in names(f[0]))
        if nd.kind == 'test' and label in (True, False) and nd.stmt is not None:
            facts = facts | {(norm(nd.stmt.test), label)}
        return facts
    changed = True
    while changed:
        changed = False
        for i in ids:
            if i == cfg.entry.id:
                continue
            acc = TOP
            for (p, l) in cfg.nodes[i].pred:
                if p not in cfg.reach or l == 'exc':
                    continue
                o = out_of(p, l)
                if o is TOP:
                    continue
                acc = o if acc is TOP else (acc & o)
            if acc is not TOP and acc != inn[i]:
                inn[i] = acc
                changed = True
    return {i: (set(v) if v is not None else set()) for i, v in inn.items()}


def must_atoms(cfg, node_id, _cache={}):
    """the must-hold tests at the node, split into atoms in positive form: {(text, bool)} with
    `x is not None` False given as (`x is None`, True) etc."""
    import ast as _ast
    from .symx import atomize
    key = id(cfg)
    if key not in _cache:
        _cache.clear()
        _cache[key] = must_conds(cfg)
    out = set()
    for t, b in _cache[key].get(node_id, set()):
        try:
            e = _ast.parse(t, mode='eval').body
        except SyntaxError:
            continue
        out |= set(atomize(e, b))
    return out
