"""C06  Results do not depend on how the same conductor structure is described.

Decided (bookkeeping that must not depend on wire direction / order / ownership):
 D1 R-HALF   every half of a pulse uses its own direction, sign, ground sign, segment length in
             the matrix fill and in the near-field helper (same obligations as C02-D1 / C04-D1).
 D2 R-SIB    junction lines of the current report treat end 1 and end 2 alike (= C09-D1).
 D3 R-CACHE  per-object caches filled while evaluating a junction pulse (zins, zint) are computed
             from the object they are stored on, not from the load / object that happens to own
             the pulse.
 D4 R-SIB    _add_conn registers the connection symmetrically on both objects; pulse sign vector
             of a junction pulse is built from the sign of the connection index at both ends.
Not decided: numeric equality under reversal / reordering / splitting.
"""
import ast
import re
from ..model import AnalysisError, walk_no_nested, norm, dotted
from ._half import half_obligations
from .C09 import check_junction_accumulate
from .C14 import run_cache_rule

FILL = 'mininec.Mininec.compute_impedance_matrix'
HELPER = 'mininec.Mininec.nf_helper'


def check_add_conn(ctx, ck, rule='R-SIB.add-conn'):
    """_add_conn registers a junction in both directions on every path, with the sign of the end numbers (shared
    with C12: a junction that is silently not registered loses its pulse)"""
    m = ctx.model
    # D4 - on the symbolic walk of _add_conn (temporaries, conditional expressions and table lookups
    # resolved): both directions are registered, the sign is -1 exactly when the two joined ends
    # have the same end number
    from ..symx import SymExec, simplify, copy_replace
    f = m.func('mininec.Geobj._add_conn')
    apaths = [p_ for p_ in SymExec(ctx, f, bind_loops=True, effects=True).run() if p_.end != 'raise']
    if not apaths:
        raise AnalysisError('%s: no path returns' % f.qual)
    n1 = f.params[-1] if f.params else 'n1'
    both = []
    signs = {}
    for p_ in apaths:
        adds = [ev[1] for ev in p_.events if ev[0] == 'call' and isinstance(ev[1].func, ast.Attribute)
                and ev[1].func.attr == 'add']
        recv = sorted(norm(c.func.value) for c in adds)
        own = [c for c in adds if norm(c.func.value) == 'self.conn[%s]' % n1]
        oth = [c for c in adds if re.match(r'^(.+)\[1\]\.conn\[\1\[0\]\]$', norm(c.func.value))]
        both.append((len(adds) == 2 and len(own) == 1 and len(oth) == 1, recv))
        if not (own and oth):
            continue
        look = re.match(r'^(.+)\[1\]\.conn', norm(oth[0].func.value)).group(1)
        n2 = '%s[0]' % look
        # arguments: (connected object, owner, end of the owner, sign of the entry, sign for idx())
        a_own = [norm(a) for a in own[0].args]
        a_oth = [norm(a) for a in oth[0].args]
        shape_ok = len(a_own) == 5 and len(a_oth) == 5 and a_own[:3] == ['%s[1]' % look, 'self', n1] and \
            a_oth[:3] == ['self', 'self', n1] and a_own[3] == '1'
        for which, e in (('entry sign at the other object', oth[0].args[3] if len(a_oth) == 5 else None),
                         ('index sign at the other object', oth[0].args[4] if len(a_oth) == 5 else None),
                         ('index sign at this object', own[0].args[4] if len(a_own) == 5 else None)):
            if e is None:
                continue
            for same in (True, False):
                known = [b_ for t_, b_ in p_.conds if isinstance(b_, bool) and t_ in
                         ('%s == %s' % (n2, n1), '%s == %s' % (n1, n2))]
                known += [not b_ for t_, b_ in p_.conds if isinstance(b_, bool) and t_ in
                          ('%s != %s' % (n2, n1), '%s != %s' % (n1, n2))]
                if known and known[-1] != same:
                    continue

                def fix(x, same=same):
                    if isinstance(x, ast.Compare) and len(x.ops) == 1 and \
                       {norm(x.left), norm(x.comparators[0])} == {n1, n2}:
                        if isinstance(x.ops[0], ast.Eq):
                            return ast.Constant(value=same)
                        if isinstance(x.ops[0], ast.NotEq):
                            return ast.Constant(value=not same)
                    return None
                v = simplify(copy_replace(e, fix))
                signs.setdefault((which, same), set()).add(norm(v))
        if not shape_ok:
            both[-1] = (False, ['%s(%s)' % (norm(c.func), ', '.join(norm(a) for a in c.args)) for c in adds])
    ok = all(b_[0] for b_ in both)
    ck.ob(rule, f.qual + '|both-directions', ok, f.loc(),
          'connection added to %s' % sorted({tuple(b_[1]) for b_ in both}))
    want = {(w_, sm): {'-1' if sm else '1'} for w_ in ('entry sign at the other object', 'index sign at the other object',
                                                        'index sign at this object') for sm in (True, False)}
    ok = signs == want
    ck.ob(rule, f.qual + '|sign', ok, f.loc(),
          'sign is -1 when both ends have the same number and 1 otherwise' if ok else
          'signs (which, same end number) -> value: %s' % {('%s, %s' % k_): sorted(v_) for k_, v_ in sorted(signs.items())})


def run(ctx, ck):
    m = ctx.model
    # a cached value is not taken while what it is computed from is still being filled
    ck.rule('R-CACHE.read-while-built', 'no cached_property is read by code from which its sources are still being filled in place')
    from ..cache import cached_read_while_built
    hz_, n_cp = cached_read_while_built(ctx)
    for g_, rf_, ms_ in hz_:
        ck.ob('R-CACHE.read-while-built', '%s|%s' % (g_.qual, rf_.qual), False, rf_.loc(),
              '%s reads the cached %s while %s (reachable from it) still fills the collections it is computed from: '
              'what is added later never shows up in the cached value' % (rf_.qual, g_.qual, ms_[0]))
    ck.ob('R-CACHE.read-while-built', 'package', True, 'mininec', '%d cached properties examined' % n_cp)
    ck.floor('cached properties', n_cp, 10)
    if hz_:
        return      # (the rules below would only report that they cannot follow the construction any more)
    ck.rule('R-HALF.coherent-product', 'a product never combines quantities of different halves')
    ck.rule('R-HALF.potential-half', 'psi is given the scale of the half whose geometry it integrates')
    ck.rule('R-HALF.complete-term', 'each vector-potential term = potential*sign*direction*ground-sign of one half')
    ck.rule('R-HALF.difference-length', 'scalar-potential difference / segment length of its own half')
    ck.rule('R-SIB.junction-accumulate', 'junction current of each end = sum over conn[K] (both ends alike)')
    ck.rule('R-CACHE.owner-only', 'per-object cache computed from the object it is stored on')
    ck.rule('R-SIB.add-conn', '_add_conn registers both directions; junction pulse signs from both indices')

    # (the near field too: which half of a pulse is the 'upper' one depends on how the wires are written down)
    NF = 'mininec.Mininec.compute_near_field'
    cnt = half_obligations(ctx, ck, [FILL, HELPER, NF, 'mininec.Mininec.psi_near_field_56'], want_sums=(FILL, HELPER),
                           want_divs=(FILL, NF), sym_funcs=('mininec.Mininec.psi_near_field_56',))
    ck.info('half_counts', cnt)
    # (a term reported above for lacking factors has that many products fewer: not a lost anchor)
    ck.floor('per-half products', cnt['products'] + cnt['missing_factors'], 14)
    ck.floor('vector-potential sums', cnt['sums'], 2)

    check_junction_accumulate(ctx, ck)

    sites, n = run_cache_rule(ctx, ck, only={('*', 'zins'),
                                             ('*', 'zint')})
    ck.floor('per-object caches', n, 2)

    check_add_conn(ctx, ck)
    # junction pulses: sign vector [sign(idx_1), 1] at end 1 and [1, sign(idx_2)] at end 2
    from ._creation import creation_model, creations_of
    g, cpaths = creation_model(ctx)
    txt = {}
    for p_ in cpaths:
        for c in creations_of(p_):
            if 'sgn' in c.kws:
                txt.setdefault(c.end, set()).add(norm(c.kws['sgn']))
    ok = txt == {1: {'[np.sign(self.idx_1), 1]'}, 2: {'[1, np.sign(self.idx_2)]'}}
    ck.ob('R-SIB.add-conn', g.qual + '|pulse-signs', ok, g.loc(),
          'junction pulse sign vectors: %s' % {k_: sorted(v_) for k_, v_ in sorted(txt.items(), key=str)})
    from ._creation import check_neighbour_segment
    check_neighbour_segment(ctx, ck)
    from ._sym import check_ground_symmetry
    ck.rule('R-SYM.ground-halves', 'statements selecting one half of the ground flags select the other too')
    nsel, nst = check_ground_symmetry(ctx, ck)
    ck.floor('statements selecting a half of the ground flags', nst, 3)
    # the closed-form self term describes one segment: its length and its radius are of the same pulse
    ck.rule('R-ROLE.self-term', 'length and radius combined in one closed-form potential term belong to the same pulse of the pair')
    from ._roles import check_self_term_roles
    ck.floor('closed-form terms combining length and radius', check_self_term_roles(ctx, ck), 1)
    ck.undecided += ['numeric equality under wire reversal / reordering / splitting']
