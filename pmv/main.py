"""./check driver.  exit 0 = all obligations discharged (known findings printed),
1 = VIOLATION, 2 = ANALYSIS-ERROR."""
import argparse
import importlib
import os
import sys
import traceback

HERE = os.path.dirname(os.path.abspath(__file__))
sys.path.insert(0, os.path.dirname(HERE))

from pmv.model import AnalysisError          # noqa: E402
from pmv.report import Checker, analysis_error  # noqa: E402
from pmv.ctx import Ctx                      # noqa: E402


def run_one(pid, tier, seed, replay=None):
    try:
        mod = importlib.import_module('pmv.props.%s' % pid)
    except ImportError as e:
        return analysis_error(pid, tier, 'no checker module: %s' % e)
    try:
        ctx = Ctx()
        ck = Checker(pid, tier, seed)
        mod.run(ctx, ck)
        if tier == 'thorough' and hasattr(mod, 'thorough'):
            mod.thorough(ctx, ck)
        if tier == 'thorough':
            from pmv import selftest
            selftest.run(pid, ck)
        rc = ck.finish()
        if tier == 'thorough' and rc == 0 and ck.selftest:
            # the positive examples of the rules must fire and their corrected twins must stay silent on every
            # thorough run: otherwise a rule has stopped seeing what it is meant to see (fail closed)
            bad_ = [r_ for r_ in ck.selftest.get('results', []) if r_.get('outcome') in ('MISSED', 'FALSE-ALARM')]
            if bad_:
                print('ANALYSIS-ERROR property=%s self-test: %d catalogue entr%s not decided as recorded (%s)' % (
                    pid, len(bad_), 'y' if len(bad_) == 1 else 'ies', bad_[0].get('name')))
                rc = 2
        if replay:
            import json
            with open(replay) as f:
                rp = json.load(f)
            want = {(x['rule'], x['key']) for x in rp.get('failing', [])}
            still = [o for o in ck.obs if (o.rule, o.key) in want and not o.ok]
            print('replay: %d of %d recorded failures still fail' % (len(still), len(want)))
            for o in still:
                print('REPLAY-FAIL %s %s %s %s' % (o.where, o.rule, o.key, o.why))
        return rc
    except AnalysisError as e:
        return analysis_error(pid, tier, str(e))
    except Exception:
        traceback.print_exc()
        return analysis_error(pid, tier, 'analyser raised (see traceback)')


def main():
    ap = argparse.ArgumentParser()
    ap.add_argument('pid')
    ap.add_argument('--tier', default=os.environ.get('VERIF_TIER', 'quick'),
                    choices=('quick', 'thorough'))
    ap.add_argument('--replay')
    a = ap.parse_args()
    seed = int(os.environ.get('VERIF_SEED', '0') or 0)
    if a.pid == 'all':
        rc = 0
        for i in range(1, 21):
            r = run_one('C%02d' % i, a.tier, seed)
            rc = max(rc, r)
        return rc
    return run_one(a.pid, a.tier, seed, a.replay)


if __name__ == '__main__':
    sys.exit(main())
