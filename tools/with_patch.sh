#!/bin/sh
# usage: tools/with_patch.sh <patch> <check ids...>  - apply patch to /repo, run quick checks, undo
P=$(realpath "$1"); shift
cd "$(dirname "$0")/.."
git -C /repo apply "$P" || exit 3
for c in "$@"; do timeout 300 ./check "$c" 2>&1 | grep -E "^==|FAIL|VIOL|ERROR|Trace|line [0-9]|Error" | cut -c1-300; done
git -C /repo checkout -- .
