"""R-COUNT.end-index: Geobj.compute_connections predicts the global index of the pulse at the
second end of an object (`end_segs[1] = pulse_idx + npulse`) before the pulses are created.  The
prediction must equal the number of pulses the same function creates before the end-2 pulse, for
every combination of end states.  Both sides are small expressions over the end states; they are
evaluated over the finite abstract domain of end states (free / grounded / joined to an earlier
object with either direction / joined to itself) - no repository code is executed."""
import ast
from ..model import AnalysisError, walk_no_nested, norm, dotted, parent
from ..cfg import if_chain_preds

CC = 'mininec.Geobj.compute_connections'
END_STATES = ('free', 'ground', 'other+', 'other-', 'self+', 'self-')
N_SELF = 2          # position of the object under analysis
N_OTHER = 0         # position of an earlier object


class Undecidable(Exception):
    pass


def idx_value(state):
    """value of Geobj.idx(end) as documented in Geobj.idx / Connected_Geobj.idx"""
    if state == 'free':
        return 0
    if state == 'ground':
        return -(N_SELF + 1)
    sign = 1 if state.endswith('+') else -1
    if state.startswith('other'):
        return (N_OTHER + 1) * sign
    return (N_SELF + 1) * sign


def make_env(s0, s1, nseg):
    env = {
        'self.idx_1': idx_value(s0), 'self.idx_2': idx_value(s1),
        'self.n': N_SELF, 'self.n_segments': nseg,
        'self.is_ground[0]': s0 == 'ground', 'self.is_ground[1]': s1 == 'ground',
        'self.conn[0].list': s0.startswith(('other', 'self')),
        'self.conn[1].list': s1.startswith(('other', 'self')),
        'self.conn[0].list[0][0] is self': s0.startswith('self'),
        'self.conn[1].list[0][0] is self': s1.startswith('self'),
        'parent.pulses.pulse_idx': 100,
    }
    return env


def aeval(e, env, flow, at, depth=0):
    if depth > 12:
        raise Undecidable('too deep')
    t = norm(e)
    if t in env:
        return env[t]
    if isinstance(e, ast.Constant):
        return e.value
    if isinstance(e, ast.Name):
        if e.id in flow.rd.names:
            ds = flow.def_exprs(e.id, at)
            plain = [d for d in ds if d[0] == 'assign']
            augs = [d for d in ds if d[0] == 'aug']
            others = [d for d in ds if d[0] not in ('assign', 'aug')]
            if len(plain) == 1 and not others:
                v = aeval(plain[0][1], env, flow, plain[0][2], depth + 1)
                for d in sorted(augs, key=lambda x: x[2]):
                    st = d[1]
                    guards = if_chain_preds(flow.cfg, d[2])
                    take = True
                    for (tt, br) in guards:
                        gv = aeval(ast.parse(tt, mode='eval').body, env, flow, d[2], depth + 1)
                        if bool(gv) != br:
                            take = False
                    if take:
                        dv = aeval(st.value, env, flow, d[2], depth + 1)
                        if isinstance(st.op, ast.Sub):
                            v = v - dv
                        elif isinstance(st.op, ast.Add):
                            v = v + dv
                        else:
                            raise Undecidable('augmented op')
                return v
        raise Undecidable('name %s' % e.id)
    if isinstance(e, ast.BoolOp):
        if isinstance(e.op, ast.And):
            v = True
            for x in e.values:
                v = aeval(x, env, flow, at, depth + 1)
                if not v:
                    return v
            return v
        v = False
        for x in e.values:
            v = aeval(x, env, flow, at, depth + 1)
            if v:
                return v
        return v
    if isinstance(e, ast.UnaryOp):
        v = aeval(e.operand, env, flow, at, depth + 1)
        if isinstance(e.op, ast.Not):
            return not v
        if isinstance(e.op, ast.USub):
            return -v
        return v
    if isinstance(e, ast.BinOp):
        a = aeval(e.left, env, flow, at, depth + 1)
        b = aeval(e.right, env, flow, at, depth + 1)
        if isinstance(e.op, ast.Add):
            return a + b
        if isinstance(e.op, ast.Sub):
            return a - b
        if isinstance(e.op, ast.Mult):
            return a * b
        raise Undecidable('binop')
    if isinstance(e, ast.Compare) and len(e.ops) == 1:
        a = aeval(e.left, env, flow, at, depth + 1)
        b = aeval(e.comparators[0], env, flow, at, depth + 1)
        op = e.ops[0]
        if isinstance(op, ast.Eq):
            return a == b
        if isinstance(op, ast.NotEq):
            return a != b
        if isinstance(op, ast.Lt):
            return a < b
        if isinstance(op, ast.Gt):
            return a > b
        if isinstance(op, ast.LtE):
            return a <= b
        if isinstance(op, ast.GtE):
            return a >= b
        raise Undecidable('compare')
    if isinstance(e, ast.Call) and isinstance(e.func, ast.Name) and e.func.id == 'abs' and len(e.args) == 1:
        return abs(aeval(e.args[0], env, flow, at, depth + 1))
    if isinstance(e, ast.Call) and (dotted(e.func) or '') == 'np.sign' and len(e.args) == 1:
        v = aeval(e.args[0], env, flow, at, depth + 1)
        return (v > 0) - (v < 0)
    raise Undecidable(norm(e)[:60])


def check_end_index(ctx, ck, rule='R-COUNT.end-index'):
    f = ctx.func(CC)
    fl = ctx.flow(f)
    # prediction
    stores = [s for s in walk_no_nested(f.node) if isinstance(s, ast.Assign) and
              norm(s.targets[0]) == 'self.end_segs[1]' and not
              (isinstance(s.value, ast.Constant) and s.value.value is None)]
    if len(stores) != 1:
        raise AnalysisError('%s: expected one non-None assignment of self.end_segs[1], found %d' % (CC, len(stores)))
    pred = stores[0]
    # creation sites
    creations = sorted([s for s in walk_no_nested(f.node) if isinstance(s, ast.Assign) and
                        isinstance(s.value, ast.Call) and isinstance(s.value.func, ast.Name) and
                        s.value.func.id == 'Pulse'], key=lambda s: s.lineno)
    end2 = [c for c in creations if any(t in ('self.is_ground[1]', 'self.idx_2 != 0') and b
                                        for t, b in if_chain_preds(fl.cfg, fl.node_id_of(c)))]
    before = [c for c in creations if c not in end2]
    if len(end2) != 2 or len(before) != 3:
        raise AnalysisError('%s: creation sites not recognised (%d before, %d at end 2)' % (CC, len(before), len(end2)))
    n_cases = 0
    bad = []
    try:
        for s0 in END_STATES:
            for s1 in END_STATES:
                if s1 == 'free':
                    continue            # no end-2 pulse: the prediction is not used (set to None / unused)
                if s0.startswith('self') != s1.startswith('self'):
                    continue
                for nseg in (2, 5):
                    env = make_env(s0, s1, nseg)
                    predicted = aeval(pred.value, env, fl, fl.node_id_of(pred)) - env['parent.pulses.pulse_idx']
                    actual = 0
                    for c in before:
                        guards = if_chain_preds(fl.cfg, fl.node_id_of(c))
                        inloop = None
                        p = parent(c)
                        while p is not None and p is not f.node:
                            if isinstance(p, ast.For):
                                inloop = p
                            p = parent(p)
                        if inloop is not None:
                            if norm(inloop.iter) != 'enumerate(self.segments[:-1])':
                                raise Undecidable('interior loop iterates %s' % norm(inloop.iter))
                            actual += nseg - 1
                            continue
                        ok = True
                        # if / elif chain: a site in an elif is reached only if the earlier tests fail
                        for (tt, br) in guards:
                            gv = aeval(ast.parse(tt, mode='eval').body, env, fl, fl.node_id_of(c))
                            if bool(gv) != br:
                                ok = False
                        if ok:
                            actual += 1
                    n_cases += 1
                    if predicted != actual:
                        bad.append((s0, s1, nseg, predicted, actual))
    except Undecidable as e:
        raise AnalysisError('%s: end-index expressions not understood: %s' % (CC, e))
    ck.ob(rule, CC + '|end_segs[1]', not bad, f.loc(pred),
          'predicted index of the end-2 pulse equals the number of pulses created before it in all %d '
          'end-state cases' % n_cases if not bad else
          'for end states (end1=%s, end2=%s, %d segments) end_segs[1] is predicted as pulse_idx+%d but %d '
          'pulses are created before the end-2 pulse (%d of %d cases differ): junction lines and sources '
          'addressed through this end use the wrong pulse' % (bad[0] + (len(bad), n_cases)))
    # end_segs[0] = index of the first pulse of the object
    st0 = [s for s in walk_no_nested(f.node) if isinstance(s, ast.Assign) and
           norm(s.targets[0]) == 'self.end_segs[0]' and not
           (isinstance(s.value, ast.Constant) and s.value.value is None)]
    ok = len(st0) == 1 and norm(st0[0].value) == 'parent.pulses.pulse_idx'
    if ok:
        first_creation = min(fl.node_id_of(c) for c in creations)
        ok = all(fl.node_id_of(st0[0]) not in fl.cfg.reachable_from(fl.node_id_of(c)) for c in creations)
    ck.ob(rule, CC + '|end_segs[0]', ok, f.loc(st0[0] if st0 else None),
          'end_segs[0] = global index of the first pulse created for the object, taken before any creation')
    return n_cases
