"""C07  Currents are linear in the source voltages; source data are V/I and Re(V I*)/2.

Decided:
 D1 R-EFFECT  the system matrix (fill + loads) and its closure read neither Mininec.sources nor
              any Excitation attribute (the matrix cannot depend on the excitation).
 D2 R-DEP     compute_rhs: every element stored into the right-hand side is
              coef * <source>.voltage with a voltage-free coef, the source being the loop
              variable over all of self.sources; the voltage passes through no call / .real / abs.
              The vector is created zero-filled and stored in self.rhs; compute_currents solves
              Z x = rhs with exactly these two operands.
 D3 R-DEP     Excitation.impedance == voltage / current, Excitation.power == 1/2 Re(V conj(I)),
              Excitation.current == parent.current[idx]; register() stores the index it is given.
 D4           dBi pattern independent of a common voltage factor: shared with C10 (far-field
              normalisation by self.power), re-checked here.
Not decided: numerical superposition; two sources on the same pulse.
"""
import ast
from ..model import AnalysisError, walk_no_nested, parent, dotted, norm, const_value, is_const
from ..dataflow import product_of, sum_terms
from ..rules import forbidden_effects, unresolved_named, describe_path, assigns_to_attr

FILL = ['mininec.Mininec.compute_impedance_matrix', 'mininec.Mininec.compute_impedance_matrix_loads']
RHS = 'mininec.Mininec.compute_rhs'
CONJ_NAMES = ('conj', 'conjugate')
EXC_VALUE_ATTRS = {'voltage', 'magnitude', 'phase', 'phase_d', 'current', 'power', 'impedance'}


def excitation_attrs(ctx):
    ci = ctx.model.cls('Excitation')
    names = set(ci.methods)
    for f in ci.methods.values():
        for n in walk_no_nested(f.node):
            if isinstance(n, ast.Attribute) and isinstance(n.ctx, ast.Store) and \
               isinstance(n.value, ast.Name) and n.value.id == 'self':
                names.add(n.attr)
    return names


def strip_conj(e):
    """(inner, conjugated?)"""
    if isinstance(e, ast.Call):
        if isinstance(e.func, ast.Attribute) and e.func.attr in CONJ_NAMES:
            d = dotted(e.func)
            if d and d.split('.')[0] in ('np', 'numpy') and len(e.args) == 1:
                return e.args[0], True
            if not e.args:
                return e.func.value, True
    return e, False


def real_part_of(e):
    """inner expression if e is  X.real  or np.real(X), else None"""
    if isinstance(e, ast.Attribute) and e.attr == 'real':
        return e.value
    if isinstance(e, ast.Call) and isinstance(e.func, ast.Attribute) and e.func.attr == 'real' \
       and len(e.args) == 1 and (dotted(e.func) or '').split('.')[0] in ('np', 'numpy'):
        return e.args[0]
    return None


def single_return(func):
    rets = [n for n in walk_no_nested(func.node) if isinstance(n, ast.Return)]
    if len(rets) != 1 or rets[0].value is None:
        return None
    return rets[0]


def current_lookup(ctx):
    """Excitation.current is the solved current on the feed pulse (closed returned expression)"""
    from ..symx import closed_returns
    f = ctx.func('mininec.Excitation.current')
    rets = closed_returns(ctx, f, private_only=True)
    if len(rets) != 1:
        return False, 'no single returned expression'
    e = rets[0][1]
    return norm(e) == 'self.parent.current[self.idx]', 'returns %s' % norm(e)


def check_power_formula(ctx, ck, rule='R-DEP.power-formula', pid_key='mininec.Excitation.power'):
    f = ctx.func('mininec.Excitation.power')
    from ..symx import closed_returns
    rets = closed_returns(ctx, f, private_only=True)
    r = None
    ok, why = False, 'no single returned expression (%d paths return)' % len(rets)
    if len(rets) == 1:
        r = f.node
        e = rets[0][1]
        inner = real_part_of(e)
        outer_coef = 1
        if inner is None:
            # c * Re(...) / d
            po = product_of(e)
            if len(po.num) == 1 and not po.den and real_part_of(po.num[0][1]) is not None:
                inner = real_part_of(po.num[0][1])
                outer_coef = po.coef
        if inner is None:
            why = 'returned value is not the real part of an expression: %s' % norm(e)
        else:
            p = product_of(inner)
            p.coef = p.coef * outer_coef
            facs = [strip_conj(x) for _, x in p.num]
            names = sorted(norm(a) for a, c in facs)
            nconj = sum(1 for a, c in facs if c)
            if p.den:
                why = 'unexpected divisor %s' % [t for t, _ in p.den]
            elif abs(p.coef - 0.5) > 1e-12:
                why = 'coefficient is %r, expected 1/2' % (p.coef,)
            elif names != ['self.current', 'self.voltage']:
                why = 'factors are %s, expected voltage and current' % names
            elif nconj != 1:
                why = '%d conjugated factors, expected exactly one' % nconj
            else:
                ok, why = True, '1/2 * Re(voltage * conj(current))'
    ck.ob(rule, pid_key, ok, f.loc(), why)
    return ok


def run(ctx, ck):
    prog = ctx.program
    m = ctx.model
    ck.rule('R-EFFECT.matrix-source-free', 'matrix fill/loads closure reads no source data')
    ck.rule('R-DEP.rhs-linear', 'rhs element = voltage-free coef * source.voltage, over all sources')
    ck.rule('R-DEP.solve-operands', 'currents = solve(Z, rhs)')
    ck.rule('R-DEP.power-formula', 'Excitation.power = 1/2 Re(V conj(I))')
    ck.rule('R-DEP.impedance-formula', 'Excitation.impedance = V / I')
    ck.rule('R-DEP.current-lookup', 'Excitation.current = parent.current[idx]; register stores idx')
    ck.rule('R-DEP.dbi-normalised', 'dBi pattern normalised by total source power (shared with C10)')

    # ------------------------------------------------------------------ D1
    exattrs = excitation_attrs(ctx)
    forbidden = {('Excitation', a) for a in exattrs} | {('Mininec', 'sources')}
    ents = [m.func(q) for q in FILL]
    seen = prog.closure(ents)
    ck.info('closure_matrix_functions', len(seen))
    unres = unresolved_named(prog, seen, EXC_VALUE_ATTRS | {'sources'})
    if unres:
        e = unres[0]
        raise AnalysisError('unresolved receiver reads source-like attribute .%s in %s (%s)'
                            % (e.attr, e.func.qual, e.func.loc(e.node)))
    off = forbidden_effects(prog, seen, forbidden)
    exc_funcs = {f.qual for f in m.cls('Excitation').methods.values()}
    per = {}
    for e in off:
        per.setdefault(e.func.qual, []).append(e)
    for q in sorted(seen):
        es = per.get(q, [])
        where, why, ok = m.funcs[q].loc(), 'no source data touched', True
        if es:
            e = es[0]
            ok = False
            where = e.func.loc(e.node)
            why = '%s %s.%s via %s' % (e.mode, e.cls, e.attr, describe_path(prog, seen, q))
        elif q in exc_funcs:
            ok = False
            why = 'Excitation method reachable: ' + describe_path(prog, seen, q)
        ck.ob('R-EFFECT.matrix-source-free', q, ok, where, why)
    ck.floor('functions in matrix closure', len(seen), 30)
    # positive control: compute_rhs does read the sources
    rhs_f = m.func(RHS)
    rhs_cl = prog.closure([rhs_f], edge_filter=lambda e: e.callee.cls is rhs_f.cls and e.callee.name.startswith('_'))
    rhs_reads = [e for q_ in rhs_cl for e in prog.effects.get(q_, []) if (e.cls, e.attr) in forbidden]
    ck.floor('source reads resolved in compute_rhs', len(rhs_reads), 2)

    # ------------------------------------------------------------------ D2
    # on the symbolic weights model: every element store of compute_rhs is
    #   rhs[<source>.idx] = (coefficient free of source data) * <source>.voltage
    # for the element <source> of a loop over all of self.sources; the vector starts as zeros
    from ._weights import rhs_model
    import re as _re
    g_, rents, rfinals, rpaths = rhs_model(ctx)
    ck.floor('assignments of self.rhs in compute_rhs', len(rfinals), 1)
    ck.floor('element stores in compute_rhs', len(rents), 1)
    seen_keys = set()
    for e_ in rents:
        key = '%s|%s[%s]' % (RHS, e_.vector, _re.sub(r'_k\d+', '_k', e_.index))
        ok, why = True, ''
        if e_.problems:
            ok, why = False, e_.problems[0]
        elif e_.source is None or not _re.match(r'^self\.sources\[_k\d+\]$', e_.source):
            ok, why = False, 'the voltage belongs to %s, not to the element of a loop over self.sources' % e_.source
        elif e_.index != e_.source + '.idx':
            ok, why = False, 'element index is %s, expected %s.idx' % (e_.index, e_.source)
        else:
            its = [t_ for k_, t_ in e_.conds if k_ == 'loop']
            it_ok = any(t_ == 'self.sources' or (t_.startswith('_each(') and t_.endswith(', self.sources)')) for t_ in its)
            bad_atoms = sorted({v_ for mono in e_.weight.t for v_, ex in mono
                                if any(a_ in v_ for a_ in EXC_VALUE_ATTRS) or 'sources' in v_})
            if not it_ok:
                ok, why = False, 'sources loop iterates over %s, not over all of self.sources' % its
            elif bad_atoms:
                ok, why = False, 'coefficient depends on source data %s' % bad_atoms
            else:
                why = 'rhs[%s.idx] = (%r) * %s.voltage' % (e_.source, e_.weight, e_.source)
        if (key, ok) in seen_keys:
            continue
        seen_keys.add((key, ok))
        ck.ob('R-DEP.rhs-linear', key + ('' if ok else '|bad'), ok, rhs_f.loc(e_.stmt), why)
    # the vector stored in self.rhs is the one written above and starts as zeros
    ok = bool(rfinals)
    why = 'self.rhs = zero vector with one entry per source'
    vecs = {e_.vector for e_ in rents}
    for p_, v_, st_ in rfinals:
        ents_here = [e_ for e_ in rents if e_.path is p_]
        while isinstance(v_, ast.Call) and isinstance(v_.func, ast.Name) and v_.func.id in ('_upd', '_with') and v_.args:
            v_ = v_.args[0]         # the vector before the element stores
        if isinstance(v_, ast.Name):
            if v_.id not in vecs:
                ok, why = False, 'self.rhs is not the vector filled in the loop'
        elif not (isinstance(v_, ast.Call) and (dotted(v_.func) or '').endswith('zeros')):
            ok, why = False, 'self.rhs = %s' % norm(v_)[:60]
    # creation of the vector: np.zeros(...) on every path
    for p_ in rpaths:
        pass
    zero_ok = True
    for n_ in walk_no_nested(rhs_f.node):
        if isinstance(n_, ast.Assign) and len(n_.targets) == 1 and isinstance(n_.targets[0], ast.Name) and \
           n_.targets[0].id in vecs:
            v_ = n_.value
            if not (isinstance(v_, ast.Call) and (dotted(v_.func) or '').endswith('zeros')):
                zero_ok = False
    if ok and not zero_ok:
        ok, why = False, 'right-hand side vector is not created zero-filled'
    ck.ob('R-DEP.rhs-linear', RHS + '|self.rhs', ok, rhs_f.loc(), why)

    # compute_currents: solve(self.Z, self.rhs)
    cc = m.func('mininec.Mininec.compute_currents')
    asg = assigns_to_attr(cc, 'self.current')
    ck.floor('assignments of self.current', len(asg), 1)
    for a in asg:
        v = a.value
        ok = isinstance(v, ast.Call) and (dotted(v.func) or '').endswith('linalg.solve')
        if ok:
            # solve(a, b): positionally or by keyword
            ops = [norm(x) for x in v.args]
            kw_ = {k_.arg: norm(k_.value) for k_ in v.keywords}
            if len(ops) < 1 and 'a' in kw_:
                ops.append(kw_.pop('a'))
            if len(ops) < 2 and 'b' in kw_:
                ops.append(kw_.pop('b'))
            ok = ops == ['self.Z', 'self.rhs'] and not kw_
        ck.ob('R-DEP.solve-operands', cc.qual + '|self.current', ok, cc.loc(a),
              'self.current = %s' % norm(v))

    # ------------------------------------------------------------------ D3
    check_power_formula(ctx, ck)
    # the power that normalises the dBi pattern is the sum of the source powers (a pattern that is to be
    # unchanged under a common complex factor on all voltages needs exactly Re(V conj I) per source)
    from .C01 import check_total_power
    ck.rule('R-DEP.total-power', 'self.power = sum of the power of all sources, after the solve')
    check_total_power(ctx, ck)
    from ..symx import closed_returns
    f = m.func('mininec.Excitation.impedance')
    rets = closed_returns(ctx, f, private_only=True)
    ok, why = False, 'no single returned expression'
    if len(rets) == 1:
        e = rets[0][1]
        p = product_of(e)
        n, d = p.texts()
        ok = (n == ['self.voltage'] and d == ['self.current'] and p.coef == 1)
        why = 'returns %s' % norm(e)
    ck.ob('R-DEP.impedance-formula', f.qual, ok, f.loc(), why)

    ok, why = current_lookup(ctx)
    f = m.func('mininec.Excitation.current')
    ck.ob('R-DEP.current-lookup', f.qual, ok, f.loc(), why)

    f = m.func('mininec.Excitation.register')
    params = f.params
    from ..symx import SymExec
    stored_sets = []
    for p_ in SymExec(ctx, f, private_only=True).run():
        if p_.end == 'raise':
            continue
        fin = {}
        for k_, v_, st_ in p_.stores:
            fin[k_] = norm(v_)
        stored_sets.append(fin)
    ok = len(params) >= 3 and bool(stored_sets) and all(
        fin.get('self.idx') == params[2] and fin.get('self.parent') == params[1] for fin in stored_sets)
    ck.ob('R-DEP.current-lookup', f.qual, ok, f.loc(), 'register(parent, pulse) stores both unchanged')

    # coefficient of one source must not depend on the other sources (weight re-initialised per source)
    from .C08 import check_weights
    ck.rule('R-SIB.weight', 'source weight: -1j/m, doubled only for its own grounded pulse, recomputed per source')
    check_weights(ctx, ck)

    # ------------------------------------------------------------------ D4 (shared with C10)
    from .C10 import check_dbi_normalisation
    check_dbi_normalisation(ctx, ck, rule='R-DEP.dbi-normalised')
    # the voltage that drives the model is the voltage that was given: as a complex number it is used as it is,
    # as magnitude and phase (degrees) it is magnitude * e^(j phase pi / 180)
    ck.rule('R-KIND.source-voltage', 'Excitation.voltage is the given complex voltage resp. magnitude * exp(j * phase_deg * pi / 180)')
    from ..symx import SymExec as _SX
    from ..poly import poly_roles as _pr, cancel as _cancel
    ex = m.func('mininec.Excitation.__init__')
    vparam, pparam = ex.params[1], ex.params[2]
    seen_v = {}
    for p_ in _SX(ctx, ex, bind_loops=True, effects=True, depth=3, max_paths=500).run():
        if p_.end == 'raise':
            continue
        none_ = [b_ for t_, b_ in p_.conds if isinstance(b_, bool) and t_ == '%s is None' % pparam]
        if not none_:
            continue
        vs = [ev[2] for ev in p_.events if ev[0] == 'store' and ev[1] == 'self.voltage']
        if not vs:
            seen_v[none_[-1]] = (False, 'self.voltage is not set', None)
            continue
        v_ = vs[-1]
        ok_, why_ = False, 'self.voltage = %s' % norm(v_)[:100]
        base = expo = None
        if isinstance(v_, ast.BinOp) and isinstance(v_.op, ast.Mult):
            for a_, b_ in ((v_.left, v_.right), (v_.right, v_.left)):
                if isinstance(b_, ast.BinOp) and isinstance(b_.op, ast.Pow) and norm(b_.left) in ('np.e', 'math.e'):
                    base, expo = a_, b_.right
                elif isinstance(b_, ast.Call) and (dotted(b_.func) or '').split('.')[-1] == 'exp' and len(b_.args) == 1:
                    base, expo = a_, b_.args[0]
        try:
            if none_[-1]:
                # complex voltage given
                if norm(v_) == vparam:
                    ok_ = True
                elif base is not None and norm(base) in ('np.abs(%s)' % vparam, 'abs(%s)' % vparam):
                    ok_ = _cancel(_pr(expo, {}) - _pr(ast.parse('1j * np.angle(%s)' % vparam, mode='eval').body, {})).t == {}
            else:
                ok_ = base is not None and norm(base) == vparam and \
                    _cancel(_pr(expo, {}) - _pr(ast.parse('1j * (%s / 180 * np.pi)' % pparam, mode='eval').body, {})).t == {}
        except (ValueError, ZeroDivisionError):
            ok_ = False
        prev = seen_v.get(none_[-1])
        if prev is None or (prev[0] and not ok_):
            seen_v[none_[-1]] = (ok_, why_, p_)
    for isc in (True, False):
        r_ = seen_v.get(isc)
        ck.ob('R-KIND.source-voltage', '%s|%s' % (ex.qual, 'complex' if isc else 'polar'), r_ is not None and r_[0], ex.loc(),
              ('%s given: %s' % ('complex voltage' if isc else 'magnitude and phase in degrees', r_[1])) if r_ else 'no such path')
    # the currents of a solve belong to the sources and voltages of that solve: every step of compute() runs on
    # every call (a right-hand side kept from an earlier solve would pair new voltages with old currents)
    ck.rule('R-FRESH.solve-order', 'compute() fills matrix, loads, right-hand side and currents exactly once each, in this order, on every path')
    from .C14 import check_solve_order
    check_solve_order(ctx, ck, rule='R-FRESH.solve-order')
    ck.undecided += ['numerical superposition of several sources',
                     'two sources registered on the same pulse (statement does not define it)']
