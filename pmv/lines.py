"""Idiom-independent helpers: call inlining of one-expression helpers, sums over a collection
(accumulator loop or sum(generator)), and "one entry per element" of a joined list."""
import ast
from .model import AnalysisError, norm, dotted, walk_no_nested, parent
from .poly import subst_names


def _single_return(g):
    """the returned expression if the body of g is (docstring +) local assignments + one `return E`,
    with the assignments folded into E; else None"""
    body = [s for s in g.body()]
    if not body:
        return None
    env = {}
    for s in body[:-1]:
        if isinstance(s, ast.Assign) and len(s.targets) == 1 and isinstance(s.targets[0], ast.Name):
            env[s.targets[0].id] = subst_names(s.value, env)
        else:
            return None
    last = body[-1]
    if not isinstance(last, ast.Return) or last.value is None:
        return None
    return subst_names(last.value, env)


def helper_inline(ctx, func, expr, depth=2):
    """copy of expr where every call of a repo function that consists of a single returned
    expression is replaced by that expression with the arguments substituted"""
    prog = ctx.program
    if depth <= 0:
        return expr

    def rec(n):
        if isinstance(n, ast.Call):
            gs = []
            try:
                gs = prog.callees(n, prog.env[func.qual], func)
            except Exception:
                gs = []
            if len(gs) == 1:
                g, bound = gs[0]
                e = _single_return(g)
                if e is not None and not any(isinstance(a, ast.Starred) for a in n.args):
                    params = g.bound_params() if bound else list(g.all_params)
                    env = {}
                    for p_, a in zip(params, n.args):
                        env[p_] = a
                    for k in n.keywords:
                        if k.arg:
                            env[k.arg] = k.value
                    if bound and isinstance(n.func, ast.Attribute) and not g.is_static and g.all_params:
                        env[g.all_params[0]] = n.func.value
                    sub = subst_names(e, env)
                    return helper_inline(ctx, g, sub, depth - 1) if depth > 1 else sub
        if not isinstance(n, ast.AST):
            return n
        new = n.__class__()
        for fld, val in ast.iter_fields(n):
            if isinstance(val, list):
                setattr(new, fld, [rec(x) for x in val])
            else:
                setattr(new, fld, rec(val))
        for a in ('lineno', 'col_offset', 'end_lineno', 'end_col_offset'):
            if hasattr(n, a):
                setattr(new, a, getattr(n, a))
        return new
    return rec(expr)


def _rename(e, var):
    return norm(subst_names(e, {var: ast.Name(id='_', ctx=ast.Load())}))


def sums_over(flow, name, at):
    """How the local `name` is computed as a sum over a collection, in either idiom:
         name = 0; for v in IT: name += E(v)        ->  ('loop', 'IT', 'E(_)', loop stmt, acc stmt)
         name = sum(E(v) for v in IT)               ->  ('gen', 'IT', 'E(_)', None, assign stmt)
       returns a list of such tuples (one per reaching definition group); [] if not a sum."""
    out = []
    defs = flow.def_exprs(name, at)
    gens = [d for d in defs if d[0] == 'assign' and isinstance(d[1], ast.Call) and
            isinstance(d[1].func, ast.Name) and d[1].func.id == 'sum' and len(d[1].args) == 1 and
            isinstance(d[1].args[0], (ast.GeneratorExp, ast.ListComp))]
    if gens and len(gens) == len(defs):
        for d in gens:
            ge = d[1].args[0]
            if len(ge.generators) != 1 or ge.generators[0].ifs or not isinstance(ge.generators[0].target, ast.Name):
                return []
            v = ge.generators[0].target.id
            out.append(('gen', norm(ge.generators[0].iter), _rename(ge.elt, v), None, flow.cfg.nodes[d[2]].stmt))
        return out
    augs = [d for d in defs if d[0] == 'aug']
    inits = [d for d in defs if d[0] == 'assign']
    if len(augs) == 1 and len(inits) == 1 and len(defs) == 2 and norm(inits[0][1]) == '0':
        st = flow.cfg.nodes[augs[0][2]].stmt
        if isinstance(st, ast.AugAssign) and isinstance(st.op, ast.Add):
            lp = parent(st)
            if isinstance(lp, ast.For) and isinstance(lp.target, ast.Name):
                hid = flow.cfg.node_of(lp)
                body, after = flow.cfg.loops[hid]
                if inits[0][2] in body:
                    return []
                from .rules import loop_reaches_on_all_paths
                if loop_reaches_on_all_paths(flow, lp, lambda n: n.stmt is st) != (1, 1):
                    return []
                out.append(('loop', norm(lp.iter), _rename(st.value, lp.target.id), lp, st))
    return out


def entries_per_element(ctx, func, iter_text, is_head):
    """For a writer that returns '\\n'.join(<entries>): how many entries satisfying is_head(expr text,
    loop variable) are produced per element of the collection `iter_text`.
      for v in IT: r.append(E)  ... return '\\n'.join(r)     -> (min, max) over paths of the body
      return '\\n'.join(E for v in IT)                        -> (1, 1) if E is a head
    Helper calls consisting of one returned expression are looked through.
    returns (form, (min, max)) or (None, None) when no production over IT is found."""
    from .rules import loops_in, loop_reaches_on_all_paths
    flow = ctx.flow(func)
    loops = [l for l in loops_in(func.node) if isinstance(l, ast.For) and norm(l.iter) == iter_text
             and isinstance(l.target, ast.Name)]
    gens = [g for g in walk_no_nested(func.node) if isinstance(g, (ast.GeneratorExp, ast.ListComp))
            and len(g.generators) == 1 and norm(g.generators[0].iter) == iter_text
            and isinstance(g.generators[0].target, ast.Name)]
    if len(loops) + len(gens) != 1:
        return None, None
    if loops:
        l = loops[0]
        v = l.target.id

        def pred(n):
            s = n.stmt
            if n.kind != 'stmt' or not isinstance(s, ast.Expr) or not isinstance(s.value, ast.Call):
                return False
            c = s.value
            if not (isinstance(c.func, ast.Attribute) and c.func.attr == 'append' and len(c.args) == 1):
                return False
            e = helper_inline(ctx, func, c.args[0])
            return is_head(norm(e), v)
        return 'loop', loop_reaches_on_all_paths(flow, l, pred)
    g = gens[0]
    if g.generators[0].ifs:
        return 'gen', (0, 1)
    v = g.generators[0].target.id
    e = helper_inline(ctx, func, g.elt)
    p = parent(g)
    joined = isinstance(p, ast.Call) and isinstance(p.func, ast.Attribute) and p.func.attr in ('join', 'extend')
    if not joined:
        # r = [E for v in IT] ... '\n'.join(r)
        joined = isinstance(p, (ast.Assign, ast.Return))
    ok = joined and is_head(norm(e), v)
    return 'gen', ((1, 1) if ok else (0, 0))


# --------------------------------------------------------------------------- symbolic rows
def printed_value(e):
    """the one value a line consists of:  str(X) / '%d' % X / f'{X}'  -> X ; a line that is a value
    already -> that value; None for lines with literal text around the value or several values"""
    if isinstance(e, ast.Call) and isinstance(e.func, ast.Name) and e.func.id == 'str' and len(e.args) == 1 and not e.keywords:
        return e.args[0]
    if isinstance(e, ast.BinOp) and isinstance(e.op, ast.Mod) and isinstance(e.left, ast.Constant) and \
       isinstance(e.left.value, str) and e.left.value in ('%d', '%s', '%g', '%i', '%r'):
        r = e.right
        if isinstance(r, ast.Tuple):
            return r.elts[0] if len(r.elts) == 1 else None
        return r
    if isinstance(e, ast.JoinedStr) and len(e.values) == 1 and isinstance(e.values[0], ast.FormattedValue):
        return e.values[0].value
    return None


def lines_with_loops(path):
    """[(line expression, loops it is written in (tuple of iterable texts), stmt)] in the order written:
    X.append(E) / X.extend([...]) statements with the loops of the walk they ran in; elements
    *_each(E, IT) count as written inside "each of IT" """
    from .symx import _is_each
    out = []

    def add(e, loops, st):
        if isinstance(e, ast.Starred):
            e = e.value
            if isinstance(e, (ast.List, ast.Tuple)):
                for x in e.elts:
                    add(x, loops, st)
                return
        if _is_each(e):
            add(e.args[0], loops + (norm(e.args[1]),), st)
        elif isinstance(e, (ast.Tuple, ast.Dict)) and st is not None:
            pass            # a row of a table being built, not a line of text
        else:
            out.append((e, loops, st))
    for ev in path.events:
        if ev[0] != 'call':
            continue
        c, st, loops = ev[1], ev[2], ev[3]
        if not (isinstance(c.func, ast.Attribute) and len(c.args) == 1):
            continue
        if c.func.attr == 'append':
            if isinstance(c.args[0], (ast.Tuple, ast.Dict)):
                continue        # a row of a table being built, not a line of text
            add(c.args[0], tuple(loops), st)
        elif c.func.attr == 'extend':
            a0 = c.args[0]
            if isinstance(a0, (ast.List, ast.Tuple)):
                for x in a0.elts:
                    add(x, tuple(loops), st)
            else:
                add(a0, tuple(loops), st)
    if path.ret is not None:
        # entries of the joined list that did not come in through a recorded append / extend: what the
        # list was started with (r = [first, second] / r = self._rows(...)), or a joined comprehension
        events_lines = out
        out = []
        joins = [n for n in ast.walk(path.ret) if isinstance(n, ast.Call) and isinstance(n.func, ast.Attribute)
                 and n.func.attr == 'join' and len(n.args) == 1]
        for n in joins:
            a0 = n.args[0]
            if isinstance(a0, ast.List):
                for x in a0.elts:
                    if not getattr(x, '_appended', False):
                        add(x, (), None)
            elif _is_each(a0):
                add(a0, (), None)
        out = out + events_lines
    return out


def default_none_env(func):
    """{parameter: None} for the parameters of func that default to None: the slice of the function a
    call without those options runs (sections guarded by them fold away)"""
    a = func.node.args
    pos = a.posonlyargs + a.args
    env = {p_.arg: d for p_, d in zip(pos[len(pos) - len(a.defaults):], a.defaults)
           if isinstance(d, ast.Constant) and d.value is None}
    for p_, d in zip(a.kwonlyargs, a.kw_defaults):
        if isinstance(d, ast.Constant) and d.value is None:
            env[p_.arg] = d
    return env


def ranges_over(it, coll):
    """does the iterable (text or AST) hand out one item per element of the collection `coll` (text)?
    enumerate / zip with other sequences / reversed / sorted / list / tuple / iter of it, and
    _each(E, it) (one E per element) all do"""
    if isinstance(it, str):
        if it == coll:
            return True
        try:
            it = ast.parse(it, mode='eval').body
        except SyntaxError:
            return False
    if norm(it) == coll:
        return True
    if isinstance(it, ast.Call) and isinstance(it.func, ast.Name):
        if it.func.id in ('enumerate', 'reversed', 'sorted', 'list', 'tuple', 'iter') and it.args:
            return ranges_over(it.args[0], coll)
        if it.func.id == 'zip':
            return any(ranges_over(a, coll) for a in it.args)
        if it.func.id == '_each' and len(it.args) == 2:
            return ranges_over(it.args[1], coll)
    return False



def opaque_text(p_):
    """the text a writer path returns is produced by a method of a local object (`report.render()`): the lines are
    collected inside that object and are not followed - a rule that counts lines must answer "not understood" """
    import ast as _ast
    r = p_.ret
    if isinstance(r, _ast.Call) and isinstance(r.func, _ast.Attribute) and isinstance(r.func.value, _ast.Name) and \
            r.func.attr not in ('join', 'format', 'strip', 'rstrip', 'lstrip', 'ljust', 'rjust', 'upper', 'replace') and \
            r.func.value.id not in ('self', 'np', 'str', 'os'):
        return '%s.%s()' % (r.func.value.id, r.func.attr)
    return None
