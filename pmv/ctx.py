"""Shared analysis context: model, resolved program, per-function flows (all lazy)."""
from .model import Model, AnalysisError
from .resolve import Program
from .dataflow import FuncFlow


class Ctx:
    def __init__(self, repo=None, overrides=None):
        self.model = Model(repo=repo, overrides=overrides)
        self._program = None
        self._flows = {}

    @property
    def program(self):
        if self._program is None:
            self._program = Program(self.model)
        return self._program

    def flow(self, func):
        if isinstance(func, str):
            func = self.model.func(func)
        key = (func.qual, id(func.node))
        fl = self._flows.get(key)
        if fl is None:
            fl = FuncFlow(func)
            self._flows[key] = fl
        return fl

    def flat(self, func):
        """func with its private helpers inlined (flatten.py): what the CFG / dataflow rules look at,
        so that moving a computation into a private helper does not hide it"""
        from .flatten import flatten
        if isinstance(func, str):
            func = self.model.func(func)
        return flatten(self, func)

    def func(self, qual):
        return self.model.func(qual)

    def loc(self, func, node=None):
        return func.loc(node)
