#!/bin/sh
# usage: tools/with_patch.sh <patch> <check ids...>  - scratch worktree of /repo HEAD with the patch, quick checks, removed
P=$(realpath "$1"); shift
cd "$(dirname "$0")/.."
W=/tmp/wp_$$
git -C /repo worktree add -q -f $W HEAD || exit 3
git -C $W apply "$P" || { git -C /repo worktree remove --force $W; exit 3; }
mkdir -p ${W}_ev/replay
for c in "$@"; do PMV_REPO=$W PMV_EVIDENCE_DIR=${W}_ev timeout 300 ./check "$c" 2>&1 | grep -E "^==|FAIL|VIOL|ERROR|Trace|line [0-9]|Error" | cut -c1-300; done
git -C /repo worktree remove --force $W; rm -rf ${W}_ev
