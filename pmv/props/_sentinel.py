"""R-BELIEF.none-sentinel: a contradiction rule (Engler et al.: if one place tests for the sentinel and another
does not, one of them is wrong).

A parameter that defaults to None means "not given".  Code that asks `p is None` / `p is not None` in one place
believes that every other value - 0 and empty values included - is a given value; a branch elsewhere on the same
parameter that asks `if p:` / `if not p:` believes that 0 is "not given" as well.  Both cannot be right: for p == 0
the function takes the "given" arm in one place and the "not given" arm in the other, so the preconditions checked
under one belief do not protect the computation done under the other (taper limits: a limit of 0 passes the
parameter check and reaches the fit loop that "cannot fail").

The parameter is followed into the package functions it is handed to unchanged (positionally or by keyword), so a
check moved into a helper is still judged together with the uses it protects.  `p or default` in a value position
is a default, not a branch, and is not counted; neither is an assert (it selects no arm: `assert not gnd or
gnd == 1` accepts None, 0 and 1 alike).
"""
import ast
from ..model import norm, walk_no_nested


def _truth_atoms(test):
    """names used for their truth value in the condition `test`"""
    out = []
    stack = [test]
    while stack:
        x = stack.pop()
        if isinstance(x, ast.BoolOp):
            stack += x.values
        elif isinstance(x, ast.UnaryOp) and isinstance(x.op, ast.Not):
            stack.append(x.operand)
        elif isinstance(x, ast.Name):
            out.append(x)
        elif isinstance(x, ast.Call) and isinstance(x.func, ast.Name) and x.func.id == 'bool' and len(x.args) == 1:
            stack.append(x.args[0])
    return out


def _tests_of(f, p):
    """([None-test nodes], [truthiness-branch nodes]) on parameter p in f; None when p is rebound in f"""
    none_t, truth_t = [], []
    for n in walk_no_nested(f.node):
        if isinstance(n, ast.Name) and n.id == p and isinstance(n.ctx, (ast.Store, ast.Del)):
            return None
    for n in walk_no_nested(f.node):
        if isinstance(n, ast.Compare) and isinstance(n.left, ast.Name) and n.left.id == p and len(n.ops) == 1 and \
           isinstance(n.ops[0], (ast.Is, ast.IsNot)) and isinstance(n.comparators[0], ast.Constant) and \
           n.comparators[0].value is None:
            none_t.append(n)
        tests = []
        if isinstance(n, (ast.If, ast.While, ast.IfExp)):
            tests = [n.test]
        elif isinstance(n, ast.comprehension):
            tests = list(n.ifs)
        for t in tests:
            truth_t += [x for x in _truth_atoms(t) if x.id == p]
    return none_t, truth_t


def _handed_on(ctx, f, p):
    """[(g, q)]: package functions that receive parameter p of f unchanged as their parameter q"""
    m = ctx.model
    out = []
    for c in walk_no_nested(f.node):
        if not isinstance(c, ast.Call):
            continue
        g = None
        fn = c.func
        if isinstance(fn, ast.Name):
            g = m.funcs.get('%s.%s' % (f.module.name, fn.id)) or m.module_funcs.get(fn.id)
        elif isinstance(fn, ast.Attribute) and isinstance(fn.value, ast.Name) and fn.value.id in ('self', 'cls') and f.cls is not None:
            g = m.resolve_method(f.cls.name, fn.attr)
        if g is None or isinstance(g.node, ast.Lambda) or g.kind in ('property', 'cached_property', 'setter'):
            continue
        params = g.bound_params() if (g.cls is not None and isinstance(fn, ast.Attribute)) else list(g.params)
        for i, a in enumerate(c.args):
            if isinstance(a, ast.Name) and a.id == p and i < len(params):
                out.append((g, params[i]))
        for k in c.keywords:
            if k.arg is not None and isinstance(k.value, ast.Name) and k.value.id == p and k.arg in g.all_params:
                out.append((g, k.arg))
    return out


def check_none_sentinel(ctx, ck, rule, funcs):
    """one obligation per parameter with default None that is asked `is None` somewhere; returns their number"""
    n = 0
    for f in sorted(funcs, key=lambda x: x.qual):
        if isinstance(f.node, ast.Lambda):
            continue
        for p, d in sorted(f.defaults().items()):
            if not (isinstance(d, ast.Constant) and d.value is None):
                continue
            group = [(f, p)]
            seen = {(f.qual, p)}
            for g, q in group:
                if len(group) > 12:
                    break
                for h, r in _handed_on(ctx, g, q):
                    if (h.qual, r) not in seen:
                        seen.add((h.qual, r))
                        group.append((h, r))
            none_t, truth_t = [], []
            for g, q in group:
                t = _tests_of(g, q)
                if t is None:
                    if g is f:
                        none_t = truth_t = None
                        break
                    continue
                none_t += [(g, x) for x in t[0]]
                truth_t += [(g, x) for x in t[1]]
            if none_t is None or not none_t:
                continue
            n += 1
            ok = not truth_t
            where = truth_t[0] if truth_t else none_t[0]
            ck.ob(rule, '%s|%s' % (f.qual, p), ok, where[0].loc(where[1]),
                  'parameter %s (None = not given) is tested `is None` at %s and by truth value at %s: a value of 0 '
                  'is "given" for one and "not given" for the other' % (
                      p, ', '.join(sorted({g_.loc(x_) for g_, x_ in none_t})[:3]),
                      ', '.join(sorted({g_.loc(x_) for g_, x_ in truth_t})[:3]))
                  if not ok else 'every branch on %s asks `is None` (%d tests in %d function(s))' % (p, len(none_t), len(group)))
    return n
