"""C15  Option file written for a model reproduces that model when read back.

R-WR: writer/reader table agreement.  Both tables are extracted on every run: the reader table
from `main` (registered options, comma-list arity guards, converters, which field is resolved
through by_tag, which options are zipped), the writer table by abstract evaluation of every
`as_cmdline*` method (option name, fields, conversions, argument expressions, path conditions).

Decided:
 D1  every emitted option is registered; emitted field count within the accepted arity; a value
     read by argparse `type=complex` is written with a signed imaginary conversion; int fields
     are written with %d.
 D2  R-KIND tag/position: a field the reader resolves through by_tag is written from a tag.
 D3  options the reader consumes pairwise (zip + equal length) are emitted together on every path.
 D4  R-EXH: Mininec.as_cmdline writes every source, medium, load; a load may be skipped only when
     an identical untagged (all-wires) line already covers it.
 D5  load numbers: the number a writer emits refers to the reader's numbering (class order).
Not decided: equality of the re-read model's impedance to the printed precision.
"""
import ast
import re
from ..model import AnalysisError, walk_no_nested, norm, dotted, parent
from ..fmt import Evaluator, template_text, arg_text
from ..symx import canon_k
from ..cli import registered_options, analyse_reader, paired_options, reader_load_class_order, INF
from ..rules import loops_in, loop_reaches_on_all_paths

OPT_RE = re.compile(r'^(--?[A-Za-z][A-Za-z0-9-]*)([= ])')


def split_fields(pieces):
    """split the pieces after the option name at literal commas -> list of fields (piece lists)"""
    fields = [[]]
    for p in pieces:
        if p[0] == 'lit':
            parts = p[1].split(',')
            for i, part in enumerate(parts):
                if i:
                    fields.append([])
                if part:
                    fields[-1].append(('lit', part))
        else:
            fields[-1].append(p)
    return fields


def field_count_range(fields):
    """(min, max) number of comma separated values (a 'var' piece repeats its element)"""
    mn = mx = 0
    for f in fields:
        vars_ = [p for p in f if p[0] == 'var']
        if vars_ and vars_[0][3] is not None and ',' in (vars_[0][3] or ''):
            mn += 0
            mx = INF
        elif any(p[0] == 'unk' for p in f):
            # a piece of text that is not known: it may hold any number of further fields
            mn += 1
            mx = INF
        else:
            mn += 1
            mx = INF if mx == INF else mx + 1
    return mn, mx


def writer_paths(ctx, f, wq):
    from ..symx import SymExec
    cache = ctx.__dict__.setdefault('_c15_paths', {})
    if f.qual not in cache:
        cache[f.qual] = [p_ for p_ in SymExec(ctx, f, bind_loops=True, no_expand=wq - {f.qual}, max_paths=50000).run()
                         if p_.end != 'raise']
    return cache[f.qual]


def path_lines(ev, p_):
    """[(line template, node)] written on the symbolic path p_ (closed expressions -> templates)"""
    from ..symx import line_exprs
    from ..fmt import split_lines
    out = []
    for e_, st_, it_ in line_exprs(p_, with_iter=True):
        t = ev.template(e_, {})
        for (t2, rep) in split_lines(t):
            out.append((t2, st_ if st_ is not None else e_))
    return out


def writer_table(ctx):
    """[(func, option string, fields, conds, in_loop, node, path conds, template)]
    The lines are taken from the symbolic walk of every writer: each is one closed expression
    (temporaries, literal loops, local and private helpers resolved) turned into a template."""
    rows = []
    unresolved = []
    m = ctx.model
    funcs = [f for f in m.all_funcs() if f.name.startswith('as_cmdline')]
    wq = {f.qual for f in funcs}
    for f in sorted(funcs, key=lambda x: x.qual):
        ev = Evaluator(f)
        seen = set()
        for p_ in writer_paths(ctx, f, wq):
            for (t, node) in path_lines(ev, p_):
                txt = template_text(t)
                k = (txt, tuple(arg_text(p[2]) for p in t if p[0] == 'conv'))
                if k in seen or txt == '':
                    continue
                seen.add(k)
                conds = il = pconds = None
                # option name
                if t and t[0][0] == 'lit':
                    mo = OPT_RE.match(t[0][1])
                    if mo:
                        name = mo.group(1)
                        rest = [('lit', t[0][1][mo.end():])] + list(t[1:])
                        rows.append((f, name, split_fields(rest), conds, il, node, pconds, t))
                        continue
                    if t[0][1].startswith('--') and len(t) > 1 and t[1][0] == 'conv':
                        # option name built with a conversion: --geo-%s=
                        rows.append((f, t[0][1] + '%s', None, conds, il, node, pconds, t))
                        continue
                if all(p[0] == 'unk' for p in t):
                    continue        # nested writer call, analysed as its own writer
                unresolved.append((f, txt, node))
    return rows, unresolved


_RECORDS = {}


def record_fields(ctx, cls, attr):
    """{index: set of texts} of the tuples appended to self.<attr> anywhere in class cls"""
    key = (cls.name, attr)
    if key not in _RECORDS:
        out = {}
        for g in cls.methods.values():
            for c in walk_no_nested(g.node):
                if isinstance(c, ast.Call) and isinstance(c.func, ast.Attribute) and c.func.attr == 'append' \
                   and norm(c.func.value) == 'self.' + attr and len(c.args) == 1 and isinstance(c.args[0], ast.Tuple):
                    for i, e in enumerate(c.args[0].elts):
                        out.setdefault(i, set()).add(norm(e))
        _RECORDS[key] = out
    return _RECORDS[key]


def resolve_record_arg(ctx, f, argtxt):
    """`self.<list>[_kN][i]` (element i of a record of a list kept by the class) -> the text that
    the append sites put at position i, when they all agree"""
    if argtxt is None or f.cls is None:
        return argtxt
    mo = re.match(r'^self\.(\w+)\[_k\d+\]\[(\d+)\]$', argtxt)
    if not mo:
        # the same list handed out in another order: sorted(self.X, key=...)[_k][i]
        mo = re.match(r'^(?:sorted|reversed|list|tuple)\(self\.(\w+)(?:, (?:key|reverse)=.*)?\)\[_k\d+\]\[(\d+)\]$', argtxt)
    if not mo:
        return argtxt
    rec = record_fields(ctx, f.cls, mo.group(1)).get(int(mo.group(2)))
    if rec and len(rec) == 1:
        return sorted(rec)[0]
    return argtxt


def tag_kind(argtxt):
    """'tag' | 'position' | 'other' for the text of a written argument"""
    if argtxt is None:
        return 'other'
    a = argtxt.replace(' ', '')
    if a == 'tag' or a.endswith('.tag') or a.endswith('geo_tag'):
        return 'tag'
    if re.search(r'\.n\+1$|\.n$|\.idx\+1$|\.idx$|^n\+1$', a):
        return 'position'
    return 'other'


def writer_functions_of(ctx):
    from ..rules import writer_functions
    return writer_functions(ctx, ('as_cmdline',))


def run(ctx, ck):
    m = ctx.model
    prog = ctx.program
    ck.rule('R-WR.registered', 'every emitted option is registered with the parser')
    ck.rule('R-WR.arity', 'emitted field count within the arity the reader accepts')
    ck.rule('R-WR.conversion', 'written text fits the reader converter (complex sign, int fields)')
    ck.rule('R-KIND.tag-field', 'fields resolved through by_tag are written from a tag')
    ck.rule('R-WR.paired', 'options consumed pairwise are emitted together on every path')
    ck.rule('R-EXH.writer-loops', 'every source / medium / load / object reaches its writer')
    ck.rule('R-WR.load-numbering', 'load numbers written refer to the reader numbering')

    mainf = m.func('mininec.main')
    if sum(1 for x_ in ast.walk(mainf.node) if isinstance(x_, ast.For) and 'args.' in norm(x_.iter)) < 5:
        mainf = ctx.flat('mininec.main')        # (the options are consumed in step functions of main: judged inlined)
    opts = registered_options(mainf)
    by_dest = analyse_reader(m, mainf, opts)
    # the reader model from the symbolic walk of main (exact per field count) takes precedence over
    # the pattern-based tables wherever it covers an option
    from ..mainx import reader_model
    rmodel = reader_model(ctx)
    lost = sorted((d_, sorted(om_.undecided)[0]) for d_, om_ in rmodel.items() if om_.undecided)
    if lost:
        # a test on the number of fields that the model cannot evaluate would make every count look accepted
        raise AnalysisError('reader model: the test on the number of fields of --%s is not understood: %s'
                            % (lost[0][0].replace('_', '-'), lost[0][1][:100]))
    for dest_, om_ in rmodel.items():
        o_ = by_dest.get(dest_)
        if o_ is not None and om_.accepted:
            o_.model = om_
            o_.arity = (min(om_.accepted), max(om_.accepted) if max(om_.accepted) < 12 else INF)
            o_.arity_source = 'symbolic walk of main, %d paths' % om_.npaths
    ck.info('reader_model_options', sorted(d_ for d_, om_ in rmodel.items() if om_.accepted))
    ck.floor('options covered by the symbolic reader model', len([1 for om_ in rmodel.values() if om_.accepted]), 15)
    ck.floor('tag fields found by the reader model', sum(len(om_.tags) for om_ in rmodel.values()), 12)
    ck.floor('converted fields found by the reader model', sum(len(om_.conv) for om_ in rmodel.values()), 60)
    ck.floor('registered options', len(set(opts.values())), 36)
    ck.floor('options with extracted arity', sum(1 for o in by_dest.values() if o.arity), 28)
    rows, unresolved = writer_table(ctx)
    ck.floor('resolved emitted option lines', len(rows), 25)
    ck.info('writers', sorted({r[0].qual for r in rows}))
    ck.info('unresolved_templates', [(f.qual, t) for f, t, n in unresolved][:6])

    # expand --geo-%s using the names recorded by Geo_Container.rotate / translate
    geo_kinds = []
    for q in ('mininec.Geo_Container.rotate', 'mininec.Geo_Container.translate'):
        g = m.func(q)
        for c in walk_no_nested(g.node):
            if isinstance(c, ast.Call) and isinstance(c.func, ast.Attribute) and c.func.attr == 'append' \
               and norm(c.func.value) == 'self.transforms' and isinstance(c.args[0], ast.Tuple):
                e = c.args[0].elts[1]
                if isinstance(e, ast.Constant):
                    geo_kinds.append(e.value)
    exp_rows = []
    for r in rows:
        f, name, fields, conds, il, node, pconds, t = r
        if fields is None and name.startswith('--geo-'):
            # '--geo-%s=%s,...' % ((t, key) + x)
            rest = list(t[2:])
            if rest and rest[0][0] == 'lit' and rest[0][1].startswith('='):
                rest[0] = ('lit', rest[0][1][1:])
            for k in geo_kinds:
                exp_rows.append((f, '--geo-' + k, split_fields(rest), conds, il, node, pconds, t))
        else:
            exp_rows.append(r)
    rows = exp_rows

    nkey = {}

    def key_of(f, name, extra):
        return '%s|%s|%s' % (f.qual, name, extra)

    _ob = ck.ob

    def ob_once(rule, key, ok, where, why):
        if (rule, key) in nkey:
            return
        nkey[(rule, key)] = True
        _ob(rule, key, ok, where, why)

    for (f, name, fields, conds, il, node, pconds, t) in rows:
        o = opts.get(name)
        ob_once('R-WR.registered', '%s|%s' % (f.qual, name), o is not None, f.loc(node),
              'option %s is %sregistered' % (name, '' if o else 'NOT '))
        if o is None:
            continue
        mn, mx = field_count_range(fields)
        shape = template_text(t)
        if o.arity is not None and mx >= INF:
            ck.info('variable_length_lines', sorted(set(ck.analysed.get('variable_length_lines', [])) | {name}))
        elif o.arity is not None:
            a0, a1 = o.arity
            ok = a0 <= mn and mx <= a1
            om = getattr(o, 'model', None)
            if om is not None and mx < INF:
                ok = all(k_ in om.accepted or (k_ >= 12 and a1 >= INF) for k_ in range(mn, mx + 1))
            ob_once('R-WR.arity', key_of(f, name, 'fields%s-%s' % (mn, 'n' if mx >= INF else mx)), ok, f.loc(node),
                  '%s writes %s..%s fields, reader accepts %s..%s (%s)'
                  % (shape, mn, 'n' if mx >= INF else mx, a0, 'n' if a1 >= INF else a1, o.arity_source))
        elif o.action not in ('store_true',) and o.choices is None and o.type is None:
            pass
        # conversions
        nfields = len(fields)
        for i, fld in enumerate(fields):
            convs = [p for p in fld if p[0] == 'conv']
            om = getattr(o, 'model', None)
            if om is not None and nfields in om.accepted:
                want = om.conv_at(nfields, i)
            else:
                want = o.field_conv.get(i)
            if om is not None and nfields in om.accepted:
                pass
            elif want is None and i == nfields - 1 and o.arity and nfields == o.arity[1]:
                want = o.field_conv.get('last')
            if om is not None and nfields in om.accepted:
                pass
            elif want is None and i == 0 and 'popped0' in o.field_conv and o.arity and nfields == o.arity[1]:
                want = o.field_conv.get('popped0')
            if want is None and not (om is not None and nfields in om.accepted):
                want = o.field_conv.get('*')
            if want == 'complex':
                # %g%+gj : real conv, then imaginary conv with '+' flag, then literal j
                okc = len(convs) >= 1
                lits = ''.join(p[1] for p in fld if p[0] == 'lit')
                if len(convs) == 2:
                    second = convs[1][1]
                    plus_flag = '+' in second[:second.index(second[-1])]
                    okc = plus_flag and '+' not in lits.replace('j', '') and lits.endswith('j')
                    why = 'complex written as %s' % ''.join(p[1] for p in fld if p[0] in ('lit', 'conv'))
                    if not plus_flag:
                        why += (': the imaginary part is written after a literal "+" without a sign '
                                'flag, a negative value gives "+-" which complex() rejects')
                elif len(convs) == 1:
                    okc = True
                    why = 'real part only'
                else:
                    why = 'unexpected number of conversions for a complex value'
                ob_once('R-WR.conversion', key_of(f, name, 'complex'), okc, f.loc(node), why)
            elif want == 'int' and convs:
                c = convs[0]
                at_ = resolve_record_arg(ctx, f, arg_text(c[2]))
                okc = c[1][-1] in 'di' or (c[1][-1] == 's' and tag_kind(at_) in ('tag', 'position'))
                if c[1][-1] == 's' and at_ in ('tag',):
                    okc = True
                ob_once('R-WR.conversion', key_of(f, name, 'int-field%d<-%s' % (i, canon_k(at_ or ''))), okc, f.loc(node),
                      'field %d read with int(), written with %s of %s' % (i, c[1], at_))
        # tag fields
        om = getattr(o, 'model', None)
        tag_list = list(o.tag_fields)
        if om is not None and nfields in om.accepted:
            tag_list = [i_ for i_ in range(nfields) if om.is_tag(nfields, i_)]
        for tf in tag_list:
            idx = None
            if tf == 'last':
                if o.arity and nfields == o.arity[1]:
                    idx = nfields - 1
            elif tf == 'popped0':
                # an optional leading tag: present when the count is one of the "with tag" counts
                if o.arity and nfields == o.arity[1]:
                    idx = 0
                elif name in ('-H', '--helix') and nfields == 7:
                    idx = 0
            elif isinstance(tf, int) and tf < nfields:
                idx = tf
            if idx is None:
                continue
            convs = [p for p in fields[idx] if p[0] == 'conv']
            if not convs:
                continue
            at = resolve_record_arg(ctx, f, arg_text(convs[0][2]))
            kind = tag_kind(at)
            ob_once('R-KIND.tag-field', key_of(f, name, 'field%d<-%s' % (idx, canon_k(at or ''))), kind == 'tag', f.loc(node),
                  'field %d of %s is resolved through by_tag by the reader and written from %s (%s)'
                  % (idx, name, at, kind))

    # ---------------------------------------------------------------- D3 paired options
    pairs = paired_options(mainf)
    ck.floor('zipped option pairs', len(pairs), 1)
    for (da, db) in pairs:
        oa, ob = by_dest[da], by_dest[db]
        sa = [s for s in oa.strings if s.startswith('--')][0]
        sb = [s for s in ob.strings if s.startswith('--')][0]
        wq_ = {g_.qual for g_ in m.all_funcs() if g_.name.startswith('as_cmdline')}
        for f in sorted({r[0] for r in rows if r[1] in (sa, sb)}, key=lambda x: x.qual):
            ev = Evaluator(f)
            paths = {}
            for p_ in writer_paths(ctx, f, wq_):
                pconds = tuple(c_ for c_ in p_.conds if isinstance(c_[1], bool))
                paths.setdefault(pconds, set())
                for (t, node) in path_lines(ev, p_):
                    txt = template_text(t)
                    for s in (sa, sb):
                        if txt.startswith(s):
                            paths[pconds].add(s)
            # parameters that the caller sets to "more than one element in the zipped list"
            # (e.g. explicit = len(self.sources) > 1): the pairing matters exactly then, because
            # with a single element the reader's defaults fill in the missing partner
            force = set()
            for q2, es in prog.edges.items():
                for e in es:
                    if e.callee is f and isinstance(e.node, ast.Call):
                        cfl = ctx.flow(m.funcs[q2])
                        for kw in e.node.keywords:
                            v_ = cfl.inline(kw.value, cfl.node_id_of(e.node), depth=2)
                            if isinstance(v_, ast.Compare) and 'len(' in norm(v_) and \
                               isinstance(v_.ops[0], (ast.Gt, ast.GtE, ast.NotEq)):
                                force.add(kw.arg)

            def infeasible(pc):
                # path conditions are atoms: `a or explicit` being false gives (explicit, False)
                return any(isinstance(b, bool) and b is False and t in force for t, b in pc)
            if force:
                paths = {pc: ss for pc, ss in paths.items() if not infeasible(pc)}
            bad = [pc for pc, ss in paths.items() if len(ss) == 1]
            why = 'both or neither on all %d paths%s' % (len(paths), (' with %s set' % sorted(force)) if force else '')
            if bad:
                pc = bad[0]
                why = ('on the path %s only %s is written; the reader zips the two lists and rejects '
                       'unequal lengths' % (['%s is %s' % (t, b) for t, b in pc if isinstance(b, bool)],
                                            sorted(paths[pc])[0]))
            ck.ob('R-WR.paired', '%s|%s~%s' % (f.qual, sb, sa), not bad, f.loc(), why)

    # ---------------------------------------------------------------- D4 writer loops
    w = m.func('mininec.Mininec.as_cmdline')
    # symbolic walk (loops entered once, loop variable = element, private helpers expanded):
    # on every path each element of the collection reaches its own as_cmdline() exactly once
    from ..symx import SymExec, line_exprs
    wq = {g_.qual for g_ in m.all_funcs() if g_.name.startswith('as_cmdline')}
    wpaths = writer_paths(ctx, w, wq)
    ck.info('symbolic_paths_as_cmdline', len(wpaths))
    found = 0

    def strip_it(t_):
        return re.sub(r' or \(\)$', '', t_)
    for coll in ('self.sources', 'self.media', 'self.loads'):
        bad = None
        n_ent = 0
        skips = set()
        for p_ in wpaths:
            ent = [t_ for k_, t_ in p_.conds if k_ == 'loop' and strip_it(t_) == coll]
            skp = [t_ for k_, t_ in p_.conds if k_ == 'loop-skipped' and strip_it(t_) == coll]
            lines = line_exprs(p_, with_iter=True)
            comp = [it_ for e_, st_, it_ in lines if it_ is not None and strip_it(norm(it_)) == coll]
            if ent and skp:
                continue
            n_ = 0
            for e_, st_, it_ in lines:
                for c_ in ast.walk(e_):
                    if isinstance(c_, ast.Call) and isinstance(c_.func, ast.Attribute) and c_.func.attr == 'as_cmdline' \
                       and re.match(r'^%s\[_k\d+\]$' % re.escape(coll), norm(c_.func.value).replace('(%s or ())' % coll, coll)):
                        n_ += 1
            # `cm = x.as_cmdline(); if cm: r.append(cm)`: the writer ran and had nothing to write
            if n_ == 0 and any(isinstance(b_, bool) and not b_ and re.match(
                    r'^%s\[_k\d+\]\.as_cmdline\(' % re.escape(coll), t_) for t_, b_ in p_.conds):
                n_ = 1
            want_ = 1 if (ent or comp) else 0
            n_ent += want_
            if n_ == want_:
                continue
            if n_ == 0 and want_ == 1:
                # accepted: an all-wires distributed load that is already written is not repeated
                gd = [t_ for t_, b_ in p_.conds if isinstance(b_, bool) and b_ and 'all_wires' in t_]
                if gd and coll == 'self.loads':
                    skips.add(gd[0])
                    continue
                gd2 = [t_ for t_, b_ in p_.conds if isinstance(b_, bool) and coll + '[_k' in t_]
                bad = bad or ('an element is skipped under %s' % gd2[-2:], p_)
            else:
                bad = bad or ('%d writer calls for one element' % n_, p_)
        if n_ent:
            found += 1
        ok = bad is None and n_ent > 0
        why = 'writer reached once per element on every path (%s)%s' % (coll, '; only all-wires duplicates are skipped (%s)' % sorted(skips)[0][:60] if skips else '')
        if bad is not None:
            why = ('%s: a load is skipped although no untagged (all-wires) line covers it; per-tag loads '
                   'of the same class are dropped from the file' % bad[0]) if coll == 'self.loads' else bad[0]
        ck.ob('R-EXH.writer-loops', '%s|for %s' % (w.qual, coll), ok, w.loc(), why)
    ck.floor('element loops in Mininec.as_cmdline', found, 3)
    gc = m.func('mininec.Geo_Container.as_cmdline')
    gfl = ctx.flow(gc)
    for l in [x for x in loops_in(gc.node) if isinstance(x, ast.For)]:
        mn, mx = loop_reaches_on_all_paths(gfl, l, lambda n: n.kind == 'stmt' and isinstance(n.stmt, ast.Expr)
                                           and isinstance(n.stmt.value, ast.Call) and
                                           isinstance(n.stmt.value.func, ast.Attribute) and
                                           n.stmt.value.func.attr == 'append')
        ck.ob('R-EXH.writer-loops', '%s|for %s' % (gc.qual, norm(l.iter)), (mn, mx) == (1, 1), gc.loc(l),
              'one line per element of %s' % norm(l.iter))
    # transformations are recorded once per call with (key, kind, vector, tag)
    for q, kind in (('mininec.Geo_Container.rotate', 'rotate'), ('mininec.Geo_Container.translate', 'translate'),
                    ('mininec.Geo_Container.scale', None)):
        g = m.func(q)
        gfl2 = ctx.flow(g)
        apps = [c for c in walk_no_nested(g.node) if isinstance(c, ast.Call) and isinstance(c.func, ast.Attribute)
                and c.func.attr == 'append' and norm(c.func.value) in ('self.transforms', 'self.scales')]
        if not apps:
            # recorded by something the method calls (a record object that enters itself into the container): if an
            # append to the record lists - or to a list handed out by a helper - is reachable, the recording is there
            # but not followed here
            far = [c for q2 in prog.closure([g]) if q2 in m.funcs and q2 != g.qual for c in walk_no_nested(m.funcs[q2].node)
                   if isinstance(c, ast.Call) and isinstance(c.func, ast.Attribute) and c.func.attr == 'append' and
                   (norm(c.func.value).endswith(('.transforms', '.scales')) or isinstance(c.func.value, ast.Call))]
            if far:
                raise AnalysisError('%s: the transformation is recorded through %s, which is not followed' % (q, norm(far[0])[:60]))
        ok = len(apps) == 1 and gfl2.cfg.must_pass(gfl2.cfg.exit.id, {gfl2.node_id_of(apps[0])})
        ck.ob('R-EXH.writer-loops', q + '|recorded', ok, g.loc(), 'every transformation is recorded for the writer')

    # the reader applies the transformations in the order of their sort key, equal keys in the order they are given
    # (a stable sort on the key alone): the writers must hand the recorded entries out in recorded order - or sorted
    # by that key alone.  Sorting the records as wholes orders entries with equal keys by kind and vector.
    ck.rule('R-WR.record-order', 'recorded transformations / loads are written in recorded order (or sorted by their key alone)')
    n_ro = 0
    for wf in sorted(writer_functions_of(ctx), key=lambda x: x.qual):
        for c_ in walk_no_nested(wf.node):
            seq_ = None
            if isinstance(c_, ast.Call) and isinstance(c_.func, ast.Name) and c_.func.id == 'sorted' and c_.args:
                seq_ = c_.args[0]
            elif isinstance(c_, ast.Call) and isinstance(c_.func, ast.Attribute) and c_.func.attr == 'sort' and not c_.args:
                seq_ = c_.func.value
            if seq_ is None or not (isinstance(seq_, ast.Attribute) and isinstance(seq_.value, ast.Name) and seq_.value.id == 'self'
                                    and seq_.attr in ('transforms', 'scales')):
                continue
            n_ro += 1
            key_ = [k_.value for k_ in c_.keywords if k_.arg == 'key']
            first = False
            if key_ and isinstance(key_[0], ast.Lambda) and len(key_[0].args.args) == 1:
                b_ = key_[0].body
                a_ = key_[0].args.args[0].arg
                first = isinstance(b_, ast.Subscript) and isinstance(b_.value, ast.Name) and b_.value.id == a_ and \
                    isinstance(b_.slice, ast.Constant) and b_.slice.value == 0
            elif key_ and isinstance(key_[0], ast.Call) and (dotted(key_[0].func) or '').endswith('itemgetter') and \
                    len(key_[0].args) == 1 and isinstance(key_[0].args[0], ast.Constant) and key_[0].args[0].value == 0:
                first = True
            ck.ob('R-WR.record-order', '%s|%s' % (wf.qual, norm(c_)[:50]), first, wf.loc(c_),
                  'sorted by the sort key alone (stable: equal keys keep their recorded order)' if first else
                  '%s orders entries with equal sort keys by their other fields (kind, vector): they are written - and read '
                  'back, applied - in another order than they were applied here' % norm(c_)[:60])
    ck.info('sorts_of_recorded_entries_in_writers', n_ro)

    # ---------------------------------------------------------------- media: what only a medium with a successor has
    # The reader gives a medium without a fourth field the interface coordinate "infinity", and the boundary kind /
    # ground screen belong to the first medium.  On every path of Medium.as_cmdline on which the medium may have a
    # successor the --medium line must carry the coordinate; on every path on which it may be the first of several
    # the boundary must be written, and the ground screen wherever the first medium may have one.
    ck.rule('R-WR.medium-interface', 'every medium that has a successor is written with its interface coordinate')
    mw = m.func('mininec.Medium.as_cmdline')
    mev = Evaluator(mw)
    wq_all = {g_.qual for g_ in m.all_funcs() if g_.name.startswith('as_cmdline')}
    n_mp = 0
    bad_m = None
    for p_ in writer_paths(ctx, mw, wq_all):
        cd = {t_: b_ for t_, b_ in p_.conds if isinstance(b_, bool)}
        for t_ in list(cd):
            if t_.endswith(' is None') or t_.endswith(' is not None'):
                base, neg = (t_[:-8], True) if t_.endswith(' is None') else (t_[:-12], False)
                cd.setdefault(base, (not cd[t_]) if neg else cd[t_])
        lines = {}
        # the text the writer hands back on this path: '\n'.join([...]) or one line
        rv = p_.ret
        if rv is None:
            raise AnalysisError('%s: a path returns nothing' % mw.qual)
        parts = [rv]
        if isinstance(rv, ast.Call) and isinstance(rv.func, ast.Attribute) and rv.func.attr == 'join' and \
           isinstance(rv.func.value, ast.Constant) and rv.func.value.value == '\n' and len(rv.args) == 1 and \
           isinstance(rv.args[0], (ast.List, ast.Tuple)):
            parts = list(rv.args[0].elts)
        from ..fmt import split_lines
        for e_ in parts:
            for t, rep in split_lines(mev.template(e_, {})):
                txt = template_text(t)
                mo_ = OPT_RE.match(txt)
                if mo_:
                    lines[mo_.group(1)] = [arg_text(x_[2]) for x_ in t if x_[0] == 'conv']
                elif txt.strip():
                    raise AnalysisError('%s: a returned line is not understood: %s' % (mw.qual, txt[:60]))
        if '--medium' not in lines:
            bad_m = bad_m or 'a path writes no --medium line'
            continue
        n_mp += 1
        may_next = cd.get('self.next') is not False
        may_first = cd.get('self.prev') is not True
        if may_next and not (len(lines['--medium']) >= 4 and lines['--medium'][3] == 'self.coord'):
            bad_m = bad_m or ('a medium that has a successor%s is written as --medium with %d fields: the interface '
                              'coordinate is lost and read back as infinity' % (
                                  ' and a predecessor' if cd.get('self.prev') is True else '', len(lines['--medium'])))
        if may_next and may_first and lines.get('--boundary') != ['self.boundary']:
            bad_m = bad_m or 'the first of several media is written without its --boundary'
        if may_first and cd.get('self.nradials') is not False and \
           (lines.get('--radial-count') != ['self.nradials'] or lines.get('--radial-radius') != ['self.radius']):
            bad_m = bad_m or 'a first medium with a ground screen is written without --radial-count / --radial-radius'
    ck.floor('paths of Medium.as_cmdline', n_mp, 2)
    ck.ob('R-WR.medium-interface', mw.qual, bad_m is None, mw.loc(),
          bad_m or 'coordinate, boundary and ground screen written wherever the medium may have them (%d paths)' % n_mp)

    # ---------------------------------------------------------------- D5 load numbering
    order = reader_load_class_order(ctx.flat(mainf))     # tables of (name, class, ...) rows spelled out
    ck.info('reader_load_class_order', order)
    ck.floor('reader load classes', len(order), 4)
    from ..rules import self_closure
    loads_loop = [l for g_ in self_closure(ctx, w) if not g_.name.startswith('as_cmdline') or g_ is w
                  for l in loops_in(g_.node) if isinstance(l, ast.For) and 'self.loads' in norm(l.iter)]
    loads_loop += [c_ for g_ in self_closure(ctx, w) if not g_.name.startswith('as_cmdline') or g_ is w
                   for c_ in ast.walk(g_.node) if isinstance(c_, ast.comprehension) and 'self.loads' in norm(c_.iter)]
    rl = m.func('mininec.Mininec.register_load')
    nw = sorted({norm(s.value) for s in walk_no_nested(rl.node) if isinstance(s, ast.Assign) and
                 norm(s.targets[0]) == 'load.n'})
    att = m.func('mininec._Load.as_cmdline_load_attach')
    uses_n = any(isinstance(x, ast.Attribute) and x.attr == 'n' and norm(x.value) == 'self'
                 for x in ast.walk(att.node))
    plain = bool(loads_loop) and norm(loads_loop[0].iter) == 'self.loads'
    ok = not (plain and uses_n and nw == ['len(self.loads)'])
    ck.ob('R-WR.load-numbering', '%s|definition-order' % w.qual, ok, w.loc(),
          'load definitions are written in attachment order (self.loads, numbered by first '
          'attachment) but the reader numbers them by class order %s: a Laplace-type load attached '
          'before a simple load is read back with the attachments swapped' % order if not ok else
          'load definitions are written in the order the reader numbers them')
    # an option is left out only when the reader's default reproduces the value
    ck.rule('R-WR.default-omission', 'the source voltage is left out of the option file only when the whole complex voltage equals the default 1')
    from ..symx import SymExec as _SX
    ew = m.func('mininec.Excitation.as_cmdline')
    n_om = 0
    bad_om = None
    for p_ in _SX(ctx, ew, depth=3, bind_loops=True).run():
        if p_.end == 'raise' or p_.ret is None:
            continue
        txt_ = ' '.join(c_.value for c_ in ast.walk(p_.ret) if isinstance(c_, ast.Constant) and isinstance(c_.value, str))
        stores_ = ' '.join(c_.value for ev_ in p_.events for x_ in ev_ if isinstance(x_, ast.AST)
                           for c_ in ast.walk(x_) if isinstance(c_, ast.Constant) and isinstance(c_.value, str))
        if 'excitation-voltage' in txt_ or 'excitation-voltage' in stores_:
            continue
        n_om += 1
        conds_ = [(t_, b_) for t_, b_ in p_.conds if isinstance(t_, str) and isinstance(b_, bool)]
        whole = any((re.match(r'^self\.voltage != (1|1\.0|1 \+ 0j|\(1\+0j\))$', t_) and b_ is False) or
                    (re.match(r'^self\.voltage == (1|1\.0|1 \+ 0j|\(1\+0j\))$', t_) and b_ is True) for t_, b_ in conds_)
        parts = {nm_ for nm_, v_ in (('real', '1'), ('imag', '0')) for t_, b_ in conds_
                 if (re.match(r'^self\.voltage\.%s == %s(\.0)?$' % (nm_, v_), t_) and b_ is True) or
                 (re.match(r'^self\.voltage\.%s != %s(\.0)?$' % (nm_, v_), t_) and b_ is False) or
                 (nm_ == 'imag' and ((t_ == 'self.voltage.imag' and b_ is False) or (t_ == 'not self.voltage.imag' and b_ is True)))}
        if not whole and parts != {'real', 'imag'}:
            bad_om = bad_om or [t_ for t_, b_ in conds_][:4]
    if n_om == 0:
        raise AnalysisError('%s: no path leaves the voltage option out - the form of the writer is not understood' % ew.qual)
    ck.ob('R-WR.default-omission', ew.qual, bad_om is None, ew.loc(),
          'the voltage is omitted only under `self.voltage == 1` (%d paths)' % n_om if bad_om is None else
          'a path writes no --excitation-voltage although only %s was tested: a voltage of magnitude / real part 1 with another '
          'phase is re-read as the default 1+0j' % bad_om)
    # the writer prints the geometry as it was entered: the snapshot must not share its array with state that is
    # updated in place
    ck.rule('R-ALIAS.snapshot', 'an attribute that is another name of an array attribute (`self.a = self.b`) is not changed through in-place updates of either')
    from ..rules import alias_mutations
    hits_, n_al = alias_mutations(ctx)
    seen_ = set()
    for ci_, s_, g_, A_, B_, x_, h_ in hits_:
        key_ = '%s|%s~%s|%s' % (ci_.name, A_, B_, h_.qual)
        if key_ in seen_:
            continue
        seen_.add(key_)
        ck.ob('R-ALIAS.snapshot', key_, False, h_.loc(x_),
              '`%s` updates in place the array that `self.%s` and `self.%s` both name (alias made by `%s` in %s): the '
              'value kept in the other attribute changes with it' % (norm(x_)[:60], A_, B_, norm(s_), g_.qual))
    ck.ob('R-ALIAS.snapshot', 'package', True, 'mininec', '%d attribute aliases of arrays examined' % n_al)
    ck.floor('attribute aliases of arrays', n_al, 1)
    ck.undecided += ['feed impedance of the re-read model equals the original to printed precision']
