#!/bin/sh
# re-evaluate every stored seed against the current checkers (patch applied to /repo and undone)
cd "$(dirname "$0")/.."
for d in seeded/*/; do
  id=$(basename "$d"); [ "$id" = refactors ] && continue
  prop=$(python3 -c "import json;print(json.load(open('$d/meta.json')).get('breaks_property') or '')" 2>/dev/null)
  python3 tools/seed_eval.py "$id" "$d" --property "$prop" --skip-verify 2>&1 | head -1
done
