"""Shared R-HALF obligations (used by C02, C04, C06)."""
import ast
from ..model import AnalysisError, norm
from ..halftag import HalfTagger, vector_potential_sums, seglen_divisions, fmt_tags

NEED_FAMS = {'pot', 'sign', 'dirvec', 'gnd_sgn'}


def fam_sig(av):
    return '*'.join(sorted(av.fams)) or '-'


def half_obligations(ctx, ck, quals, want_sums=(), want_divs=(), sym_funcs=()):
    """records obligations; returns dict of counts"""
    counts = dict(products=0, psi_calls=0, sums=0, divisions=0, selections=0, missing_factors=0)
    for q in quals:
        # private helpers inlined: the terms of a sum may be computed in a helper
        f = ctx.flat(q)
        t = HalfTagger(ctx, f).run()
        if t.unknown_selections:
            ck.info('unrecognised_selections:' + q, [norm(e) for e in t.unknown_selections][:5])
        # coherent products
        seen_keys = {}
        for node, a, b, ok, fams in list(t.products):
            key = '%s|product|%sx%s|%s' % (q, fmt_tags(a), fmt_tags(b), '*'.join(sorted(fams)) or '-')
            n = seen_keys.get(key, 0)
            seen_keys[key] = n + 1
            if n:
                key += '#%d' % n
            ck.ob('R-HALF.coherent-product', key, ok, f.loc(node),
                  'halves %s x %s in %s' % (fmt_tags(a), fmt_tags(b), norm(node)[:80]))
            counts['products'] += 1
        # potential calls: geometry half == scale half
        seen_keys = {}
        for node, name, tag, geom, ok in list(t.psi_calls):
            key = '%s|%s|scale%s-geom%s' % (q, name, fmt_tags(tag), fmt_tags(geom))
            n = seen_keys.get(key, 0)
            seen_keys[key] = n + 1
            if n:
                key += '#%d' % n
            ck.ob('R-HALF.potential-half', key, ok, f.loc(node),
                  '%s on half %s with geometry of half %s' % (name, fmt_tags(tag), fmt_tags(geom)))
            counts['psi_calls'] += 1
        if q in want_sums:
            sums = vector_potential_sums(t)
            if len(sums) != 1:
                raise AnalysisError('%s: expected one vector-potential sum, found %d' % (q, len(sums)))
            node, avs, st = sums[0]
            tagsets = []
            for term, av in avs:
                miss = sorted(NEED_FAMS - av.fams)
                single = av.tags is not None and len(av.tags) == 1
                tg = fmt_tags(av.tags)
                tagsets.append(av.tags)
                counts['missing_factors'] += len(miss)      # each factor a term lacks is one product fewer
                ck.ob('R-HALF.complete-term', '%s|term%s|families' % (q, tg), not miss, f.loc(term),
                      'term of half %s lacks factor(s) %s: %s' % (tg, miss, norm(term)[:70]) if miss
                      else 'term of half %s has potential, sign, direction, ground sign' % tg)
                ck.ob('R-HALF.complete-term', '%s|term%s|single-half' % (q, tg), single, f.loc(term),
                      'term mixes halves %s' % tg if not single else 'all factors of half %s' % tg)
                bad_role = 'obs' in av.roles
                ck.ob('R-HALF.complete-term', '%s|term%s|source-side' % (q, tg), not bad_role, f.loc(term),
                      'per-half factors taken from the %s pulse' % ('observer' if bad_role else 'source'))
            both = all(ts is not None for ts in tagsets) and \
                frozenset().union(*[ts for ts in tagsets if ts]) >= frozenset([0, 1])
            ck.ob('R-HALF.complete-term', '%s|both-halves' % q, both, f.loc(node),
                  'the two terms cover halves %s' % [fmt_tags(x) for x in tagsets])
            counts['sums'] += 1
        if q in want_divs:
            for node, htags, terms, st in seglen_divisions(t):
                exact = [av for term, av in terms if av.tags == htags]
                key = '%s|difference/seg_len%s' % (q, fmt_tags(htags))
                ck.ob('R-HALF.difference-length', key, bool(exact), f.loc(node),
                      'difference divided by segment length of half %s; operand halves %s'
                      % (fmt_tags(htags), [fmt_tags(av.tags) for term, av in terms]))
                counts['divisions'] += 1
        if q in sym_funcs:
            if not t.selections and not t.psi_calls:
                raise AnalysisError('%s: no per-half selection was recognised (anchors moved or the extraction no longer '
                                    'understands the code)' % q)
            syms = set()
            for node, fam, tags in t.selections:
                syms |= set(tags)
            for node, name, tag, geom, ok in t.psi_calls:
                syms |= set(tag)
            ok = len(syms) == 1 and all(isinstance(x, tuple) for x in syms)
            ck.ob('R-HALF.one-selector', q, ok, f.loc(),
                  'all per-half selections and the psi scale are chosen by %s (%d selections)'
                  % (fmt_tags(frozenset(syms)), len(t.selections)))
            counts['selections'] += len(t.selections)
    return counts
