"""Shared analysis context: model, resolved program, per-function flows (all lazy)."""
from .model import Model, AnalysisError
from .resolve import Program
from .dataflow import FuncFlow


class Ctx:
    def __init__(self, repo=None, overrides=None):
        self.model = Model(repo=repo, overrides=overrides)
        self._program = None
        self._flows = {}

    @property
    def program(self):
        if self._program is None:
            self._program = Program(self.model)
        return self._program

    def flow(self, func):
        if isinstance(func, str):
            func = self.model.func(func)
        fl = self._flows.get(func.qual)
        if fl is None:
            fl = FuncFlow(func)
            self._flows[func.qual] = fl
        return fl

    def func(self, qual):
        return self.model.func(qual)

    def loc(self, func, node=None):
        return func.loc(node)
