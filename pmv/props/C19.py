"""C19  Report text faithfully carries the computed values.

Decided:
 D1 R-KIND int/float  integer conversions (%d, %2d ...) in report writers are fed integer-kind
            values only: a float-kind value (magnitude, phase, anything derived from np.abs,
            np.angle, a true division ...) printed with %d is truncated.
 D2 R-PREC  every float-kind value in a report writer is written by format_float, by `% e` /
            `%.NE` with N >= 6, by %g (6 significant digits) - never by a conversion with fewer
            than 6 significant digits or by a short fixed-point conversion.
 D3 R-DEP   the magnitude / phase columns of a row are computed from the same complex value as
            its real / imaginary columns; angles are converted with /pi*180 (shared with C18).
 D4 R-EXH   structural completeness: one geometry row per pulse of each object, one current row
            per own pulse (+ end lines, C09), one block per source, one line per loaded pulse;
            the report assembles all sections.
Not decided: digit accuracy of format_float over all magnitudes (value-dependent precision and
            truncation are computed at run time).
"""
import ast
import re
from ..model import AnalysisError, walk_no_nested, norm, dotted, parent, enclosing_stmt
from ..fmt import CONV_RE
from ..rules import loops_in, loop_reaches_on_all_paths, calls_in

FLOAT_FUNCS = ('np.abs', 'np.angle', 'np.sqrt', 'np.log', 'np.exp', 'abs', 'float', 'np.linalg.norm',
               'np.real', 'np.imag')
INT_FUNCS = ('len', 'int', 'round')


def float_attr_table(ctx):
    """{(class, attr)}: attributes assigned from a float-kind expression somewhere (fixpoint)"""
    m = ctx.model
    table = set()
    for _ in range(3):
        for f in m.all_funcs():
            if f.cls is None:
                continue
            for s in walk_no_nested(f.node):
                if isinstance(s, ast.Assign) and isinstance(s.targets[0], ast.Attribute) and \
                   isinstance(s.targets[0].value, ast.Name) and s.targets[0].value.id == 'self':
                    if float_kind(s.value, table, f.cls.name):
                        table.add((f.cls.name, s.targets[0].attr))
    return table


def float_kind(e, table, cls=None):
    """True when e is certainly float-valued"""
    if isinstance(e, ast.Constant):
        return isinstance(e.value, float)
    if isinstance(e, ast.Call):
        d = dotted(e.func) or ''
        if d in FLOAT_FUNCS:
            return True
        if d in INT_FUNCS:
            return False
        return False
    if isinstance(e, ast.BinOp):
        if isinstance(e.op, ast.Div):
            return True
        if isinstance(e.op, (ast.Add, ast.Sub, ast.Mult, ast.Pow)):
            return float_kind(e.left, table, cls) or float_kind(e.right, table, cls)
        return False
    if isinstance(e, ast.UnaryOp):
        return float_kind(e.operand, table, cls)
    if isinstance(e, ast.Attribute):
        if e.attr in ('real', 'imag'):
            return True
        if isinstance(e.value, ast.Name) and e.value.id == 'self' and cls is not None:
            return (cls, e.attr) in table
        return False
    return False


def conversions(func, flow=None):
    """[(spec, arg expr or None, Mod node)] for %-format applications with literal left side"""
    out = []
    for n in walk_no_nested(func.node):
        if isinstance(n, ast.BinOp) and isinstance(n.op, ast.Mod):
            left = n.left
            txt = None
            try:
                from ..model import const_value
                txt = const_value(left)
            except Exception:
                txt = None
            if not isinstance(txt, str):
                continue
            specs = [mo.group(0) for mo in CONV_RE.finditer(txt) if mo.group('type') != '%']
            from ..fmt import written_values
            r = n.right
            args = written_values(r, flow, flow.node_id_of(n) if flow is not None else None)
            if len(args) != len(specs):
                # bind what can be bound from the left (explicit leading values)
                head = []
                for a_ in args:
                    if isinstance(a_, (ast.Subscript, ast.Starred)) or (
                            isinstance(a_, ast.Name) and flow is not None and a_.id in flow.rd.names):
                        break
                    head.append(a_)
                args = (head + [None] * len(specs))[:len(specs)]
            for sp, a in zip(specs, args):
                out.append((sp, a, n))
    return out


def sig_digits(spec):
    """significant digits guaranteed by a conversion spec (None = not numeric / unknown)"""
    mo = CONV_RE.match(spec)
    t = mo.group('type')
    prec = mo.group('prec')
    if t in 'eE':
        return (int(prec) if prec is not None else 6) + 1
    if t in 'gG':
        return int(prec) if prec is not None else 6
    if t in 'fF':
        return ('fixed', int(prec) if prec is not None else 6)
    return None


def run(ctx, ck):
    m = ctx.model
    ck.rule('R-KIND.int-conversion', '%d is fed integer-kind values only')
    ck.rule('R-PREC.float-conversion', 'float values written with >= 6 significant digits / format_float')
    ck.rule('R-DEP.same-complex', 'real, imaginary, magnitude, phase columns come from one complex value')
    ck.rule('R-EXH.rows', 'one row/block per pulse, source, load; all report sections assembled')

    table = float_attr_table(ctx)
    ck.info('float_kind_attributes', sorted('%s.%s' % x for x in table)[:40])
    writers = [f for f in m.all_funcs() if 'as_mininec' in f.name]
    ck.floor('report writer functions', len(writers), 25)
    n_int = n_flt = 0
    lowprec = {}
    for f in sorted(writers, key=lambda x: x.qual):
        cls = f.cls.name if f.cls else None
        from ..fmt import printed_values
        for sp, a, node in printed_values(f, ctx.flow(f)):
            if sp is None:
                continue
            t = sp[-1]
            if t in 'di':
                if a is None:
                    continue
                n_int += 1
                isf = float_kind(a, table, cls)
                ck.ob('R-KIND.int-conversion', '%s|%s<-%s' % (f.qual, sp, norm(a)), not isf, f.loc(node),
                      '%s of %s' % (sp, norm(a)) if not isf else
                      '%s truncates the float value %s (e.g. 0.54 is printed as 0)' % (sp, norm(a)))
            elif t in 'eEfFgG':
                n_flt += 1
                sd = sig_digits(sp)
                if isinstance(sd, tuple):
                    if sd[1] < 6:
                        lowprec.setdefault((f.qual, id(node)), [node, []])[1].append(
                            '%s: fixed-point, %d decimals' % (sp, sd[1]))
                    else:
                        lowprec.setdefault((f.qual, id(node)), [node, []])
                elif sd is not None and sd < 6:
                    lowprec.setdefault((f.qual, id(node)), [node, []])[1].append(
                        '%s: %d significant digits (relative error up to 5e-%d)' % (sp, sd, sd))
                else:
                    lowprec.setdefault((f.qual, id(node)), [node, []])
    for (q, _), (node, bad) in sorted(lowprec.items(), key=lambda kv: kv[0][0]):
        f = m.funcs[q]
        ck.ob('R-PREC.float-conversion', '%s|row-format' % q, not bad, f.loc(node),
              'row written with %s; the property asks for 5e-6 relative / 1e-6 absolute' % bad if bad else
              'explicit float conversions carry >= 6 significant digits')
    ck.floor('integer conversions in report writers', n_int, 8)
    ck.floor('explicit float conversions in report writers', n_flt, 2)

    # ---------------------------------------------------------------- D3
    n_rows = 0
    for f in sorted(writers, key=lambda x: x.qual):
        fl = None
        for t in walk_no_nested(f.node):
            if not isinstance(t, ast.Tuple):
                continue
            re_ = [e for e in t.elts if isinstance(e, ast.Attribute) and e.attr == 'real']
            im_ = [e for e in t.elts if isinstance(e, ast.Attribute) and e.attr == 'imag']
            if len(re_) != 1 or len(im_) != 1 or len(t.elts) < 4:
                continue
            fl = fl or ctx.flow(f)
            base = norm(re_[0].value)
            ok = norm(im_[0].value) == base
            base = norm(fl.inline(re_[0].value, fl.node_id_of(t), depth=3))
            others = [e for e in t.elts if e is not re_[0] and e is not im_[0]]
            srcs = []
            for e in others:
                ee = fl.inline(e, fl.node_id_of(t), depth=3)
                for c in ast.walk(ee):
                    if isinstance(c, ast.Call) and (dotted(c.func) or '') in ('np.abs', 'np.angle', 'abs'):
                        srcs.append(norm(c.args[0]))
            # loop-carried re-definitions (a = a / pi * 180) make inline stop at the name: resolve
            if len(srcs) < 2:
                for e in others:
                    if isinstance(e, ast.Name):
                        for d in fl.def_exprs(e.id, fl.node_id_of(t)):
                            if d[0] == 'assign':
                                for c in ast.walk(d[1]):
                                    if isinstance(c, ast.Call) and (dotted(c.func) or '') in ('np.abs', 'np.angle'):
                                        srcs.append(norm(c.args[0]))
                                    if isinstance(c, ast.Name) and c.id == e.id:
                                        for d2 in fl.def_exprs(e.id, d[2]):
                                            if d2[0] == 'assign':
                                                for c2 in ast.walk(d2[1]):
                                                    if isinstance(c2, ast.Call) and (dotted(c2.func) or '') in ('np.abs', 'np.angle'):
                                                        srcs.append(norm(c2.args[0]))
            ok = ok and len(set(srcs)) == 1 and set(srcs) == {base} and len(srcs) >= 2
            n_rows += 1
            ck.ob('R-DEP.same-complex', '%s|row(%s)' % (f.qual, base), ok, f.loc(t),
                  'real/imag of %s; magnitude/phase of %s' % (base, sorted(set(srcs))))
    ck.floor('complex rows (real, imag, magnitude, phase)', n_rows, 3)
    g = m.func('mininec.Far_Field_Pattern.abs_gain_as_mininec')
    pairs = {}
    for s in g.body():
        if isinstance(s, ast.Assign) and isinstance(s.value, (ast.Call, ast.BinOp)):
            for c in ast.walk(s.value):
                if isinstance(c, ast.Call) and (dotted(c.func) or '') in ('np.abs', 'np.angle'):
                    pairs.setdefault(norm(c.args[0]), set()).add(dotted(c.func))
    ok = pairs == {'self.e_theta': {'np.abs', 'np.angle'}, 'self.e_phi': {'np.abs', 'np.angle'}}
    ck.ob('R-DEP.same-complex', g.qual, ok, g.loc(), 'magnitude and phase of each polarisation from the same array: %s' %
          {k: sorted(v) for k, v in pairs.items()})

    # ---------------------------------------------------------------- D4
    def one_call_per_iter(q, iter_txt, call_attr, recv_is_loopvar=True):
        f = m.func(q)
        fl = ctx.flow(f)
        ls = [l for l in loops_in(f.node) if isinstance(l, ast.For) and norm(l.iter) == iter_txt and
              any(isinstance(c, ast.Call) and isinstance(c.func, ast.Attribute) and c.func.attr == call_attr
                  for c in ast.walk(l))]
        ok = len(ls) >= 1
        cnt = None
        for l in ls:
            lv = l.target.id if isinstance(l.target, ast.Name) else None
            cnt = loop_reaches_on_all_paths(fl, l, lambda n: n.kind == 'stmt' and n.stmt is not None and any(
                isinstance(c, ast.Call) and isinstance(c.func, ast.Attribute) and c.func.attr == call_attr
                and (not recv_is_loopvar or norm(c.func.value) == lv) for c in ast.walk(n.stmt)))
            ok = ok and cnt == (1, 1)
        ck.ob('R-EXH.rows', '%s|for %s' % (q, iter_txt), ok, f.loc(ls[0] if ls else None),
              'one %s() per element of %s: %s' % (call_attr, iter_txt, cnt))
    one_call_per_iter('mininec.Mininec.wires_as_mininec', 'geobj.pulse_iter()', 'as_mininec')
    one_call_per_iter('mininec.Mininec.sources_as_mininec', 'self.sources', 'as_mininec_short')
    one_call_per_iter('mininec.Mininec.source_data_as_mininec', 'self.sources', 'as_mininec')
    one_call_per_iter('mininec.Mininec.loads_as_mininec', 'self.loads', 'as_mininec')
    one_call_per_iter('mininec._Load.as_mininec', 'self.pulses', 'append', recv_is_loopvar=False)
    one_call_per_iter('mininec.Mininec.environment_as_mininec', 'enumerate(self.media)', 'as_mininec', recv_is_loopvar=False)
    # geometry blocks: outer loop over all objects
    f = m.func('mininec.Mininec.wires_as_mininec')
    outer = [l for l in loops_in(f.node) if isinstance(l, ast.For) and norm(l.iter) == 'self.geo']
    ck.ob('R-EXH.rows', f.qual + '|objects', len(outer) == 2, f.loc(), 'object table and pulse table iterate all of self.geo')
    f = m.func('mininec.Mininec.currents_as_mininec')
    outer = [l for l in loops_in(f.node) if isinstance(l, ast.For) and norm(l.iter) == 'self.geo']
    ck.ob('R-EXH.rows', f.qual + '|objects', len(outer) == 1, f.loc(), 'current table iterates all of self.geo')
    # counts announced = len
    for q, txt in (('mininec.Mininec.sources_as_mininec', 'len(self.sources)'),
                   ('mininec.Mininec.wires_as_mininec', 'len(self.geo)')):
        f = m.func(q)
        ok = any(txt in norm(s) for s in f.body())
        ck.ob('R-EXH.rows', q + '|count', ok, f.loc(), 'announced count is %s' % txt)
    f = m.func('mininec.Mininec.loads_as_mininec')
    acc = [s for s in walk_no_nested(f.node) if isinstance(s, ast.AugAssign) and norm(s.value) == 'len(l.pulses)']
    ck.ob('R-EXH.rows', f.qual + '|count', len(acc) == 1, f.loc(), 'NUMBER OF LOADS = sum of loaded pulses')
    # sections of the report
    f = m.func('mininec.Mininec.as_mininec')
    fl = ctx.flow(f)
    secs = ['header_as_mininec', 'frequency_as_mininec', 'environment_as_mininec', 'wires_as_mininec',
            'sources_as_mininec', 'loads_as_mininec', 'source_data_as_mininec', 'currents_as_mininec',
            'fields_as_mininec']
    for sname in secs:
        cs = calls_in(f.node, attr=sname)
        ok = len(cs) == 1 and fl.cfg.must_pass(fl.cfg.exit.id, {fl.node_id_of(cs[0])})
        ck.ob('R-EXH.rows', '%s|section %s' % (f.qual, sname), ok, f.loc(cs[0] if cs else None),
              'section written exactly once on every path')
    # format_float: characters may only be cut from a text that has a decimal point (cutting an
    # integer text drops significant digits: 227364204 -> 22736420)
    ck.rule('R-FMT.truncate-guard', 'format_float only truncates texts that contain a decimal point')
    ff = m.func('util.format_float')
    cuts = [s_ for s_ in walk_no_nested(ff.node) if isinstance(s_, ast.Assign) and
            isinstance(s_.value, ast.Subscript) and isinstance(s_.value.slice, ast.Slice) and
            s_.value.slice.upper is not None and isinstance(s_.targets[0], ast.Name) and
            norm(s_.value.value) == s_.targets[0].id]
    ck.floor('truncating slices in format_float', len(cuts), 1)
    ffl = ctx.flow(ff)
    from ..cfg import if_chain_preds
    for c_ in cuts:
        v = c_.targets[0].id
        g = [t for t, b in if_chain_preds(ffl.cfg, ffl.node_id_of(c_)) if b]
        ok = ("'.' in %s" % v) in g
        ck.ob('R-FMT.truncate-guard', 'util.format_float|%s' % norm(c_), ok, ff.loc(c_),
              'truncation %s under guards %s' % (norm(c_), g) if ok else
              'truncation %s is not guarded by a decimal-point test (guards %s): integers of more than '
              '8 digits lose trailing digits' % (norm(c_), g))
    ck.undecided += ['format_float digit accuracy over all magnitudes (run-time precision/truncation)']
