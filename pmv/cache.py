"""R-CACHE: memo-site detection and stale-cache hazards.

A memo site stores a computed value on an owner object under a guard that tests whether the
value is already there.  The value may depend only on the owner (and objects reached from it),
constants, and the cache key.  Any other root - a call parameter, another object - means the
cached value can be wrong for the next caller."""
import ast
from .model import norm, dotted, walk_no_nested, parent


class MemoSite:
    def __init__(self, func, kind, owner, attr, guard, store, value, keys):
        self.func = func
        self.kind = kind        # attr-none | sub-none | getattr-none | dict-key | cached_property | setattr
        self.owner = owner      # owner expression text ('self', 'w', 'geobj', ...)
        self.attr = attr
        self.guard = guard      # ast If / None
        self.store = store      # ast stmt
        self.value = value      # ast expr
        self.keys = keys        # names allowed as cache keys
        self.guarded = guard.body if guard is not None else []

    @property
    def key(self):
        return '%s|%s.%s' % (self.func.qual, self.owner if self.owner in ('self',) else '<obj>', self.attr)


def _is_none_cmp(t):
    """returns the tested expression if t is `X is None`"""
    if isinstance(t, ast.Compare) and len(t.ops) == 1 and isinstance(t.ops[0], ast.Is) and \
       isinstance(t.comparators[0], ast.Constant) and t.comparators[0].value is None:
        return t.left
    return None


def _guard_alternatives(test):
    """`A or B or C` -> [A, B, C]"""
    if isinstance(test, ast.BoolOp) and isinstance(test.op, ast.Or):
        return list(test.values)
    return [test]


def find_memo_sites(model, ctx=None):
    """with ctx: functions that call private helpers are looked at with the helpers inlined, so a
    memo kept through a helper (`return self._memoized(self.x_cache, key, self._compute_x)`) is the
    same site as the hand-written `if key not in self.x_cache: ...`"""
    sites = []
    funcs = []
    for f in model.all_funcs():
        if ctx is not None and f.kind != 'cached_property':
            try:
                g = ctx.flat(f)
            except Exception:
                g = None
            if g is not None and getattr(g, 'inlined', None):
                f = g
        funcs.append(f)
    # a private helper that was inlined into its callers is judged there, in the context of the call
    # (its parameters are the caller's expressions: a key derived from the key, an owner, ...)
    inlined = {q for f in funcs for q in (getattr(f, 'inlined', None) or ())}
    funcs = [f for f in funcs if not (f.qual in inlined and f.name.startswith('_') and not getattr(f, 'inlined', None))]
    for f in funcs:
        if f.kind == 'cached_property':
            rets = [n for n in walk_no_nested(f.node) if isinstance(n, ast.Return) and n.value is not None]
            for r in rets:
                sites.append(MemoSite(f, 'cached_property', 'self', f.name, None, r, r.value, set()))
            continue
        # the early-return form of a memo: `if o.a is not None [and o.a[0] == k]: return o.a ...` followed by the
        # computation and the store in the rest of the block is `if o.a is None [or o.a[0] != k]: <rest of the block>`
        rest_of = {}
        for holder in walk_no_nested(f.node):
            for fld in ('body', 'orelse', 'finalbody'):
                blk = getattr(holder, fld, None)
                if not isinstance(blk, list):
                    continue
                for i_, st_ in enumerate(blk):
                    if isinstance(st_, ast.If) and not st_.orelse and st_.body and \
                       isinstance(st_.body[-1], (ast.Return, ast.Break, ast.Continue)):
                        conj = st_.test.values if isinstance(st_.test, ast.BoolOp) and isinstance(st_.test.op, ast.And) else [st_.test]
                        c0 = conj[0]
                        if isinstance(c0, ast.Compare) and len(c0.ops) == 1 and isinstance(c0.ops[0], ast.IsNot) and \
                           isinstance(c0.comparators[0], ast.Constant) and c0.comparators[0].value is None:
                            rest_of[id(st_)] = (c0.left, conj[1:], blk[i_ + 1:])
        for n in walk_no_nested(f.node):
            if not isinstance(n, ast.If):
                continue
            alts = _guard_alternatives(n.test)
            first = alts[0]
            tested = _is_none_cmp(first)
            guarded = n.body
            # keys: other names compared in the guard (o.c[0] != f)
            keys = set()
            for a in alts[1:]:
                for x in ast.walk(a):
                    if isinstance(x, ast.Name):
                        keys.add(x.id)
            if tested is None and id(n) in rest_of:
                tested, others, guarded = rest_of[id(n)]
                for a in others:
                    for x in ast.walk(a):
                        if isinstance(x, ast.Name):
                            keys.add(x.id)
            if tested is not None:
                # o.a is None / o.a[k] is None / getattr(o, 'a', None) is None
                tgt = None
                kind = None
                if isinstance(tested, ast.Attribute):
                    tgt, kind = tested, 'attr-none'
                elif isinstance(tested, ast.Subscript) and isinstance(tested.value, ast.Attribute):
                    tgt, kind = tested.value, 'sub-none'
                    for x in ast.walk(tested.slice):
                        if isinstance(x, ast.Name):
                            keys.add(x.id)
                elif isinstance(tested, ast.Call) and isinstance(tested.func, ast.Name) and \
                        tested.func.id == 'getattr' and len(tested.args) >= 2 and \
                        isinstance(tested.args[1], ast.Constant):
                    tgt = ast.Attribute(value=tested.args[0], attr=tested.args[1].value, ctx=ast.Load())
                    kind = 'getattr-none'
                if tgt is None:
                    continue
                owner = norm(tgt.value)
                for st in guarded:
                    for s in [st] + [x for x in walk_no_nested(st) if isinstance(x, ast.stmt)]:
                        if isinstance(s, ast.Assign):
                            for t in s.targets:
                                tt = t
                                if kind == 'sub-none' and isinstance(t, ast.Subscript):
                                    tt = t.value
                                if isinstance(tt, ast.Attribute) and tt.attr == tgt.attr and \
                                   norm(tt.value) == owner:
                                    ms_ = MemoSite(f, kind, owner, tgt.attr, n, s, s.value, keys)
                                    ms_.guarded = guarded      # the statements that run on a miss
                                    sites.append(ms_)
            else:
                # if k not in o.c: o.c[k] = v
                if isinstance(first, ast.Compare) and len(first.ops) == 1 and \
                   isinstance(first.ops[0], ast.NotIn) and isinstance(first.comparators[0], ast.Attribute):
                    c = first.comparators[0]
                    owner = norm(c.value)
                    ks = {x.id for x in ast.walk(first.left) if isinstance(x, ast.Name)}
                    for st in n.body:
                        if isinstance(st, ast.Assign):
                            for t in st.targets:
                                if isinstance(t, ast.Subscript) and isinstance(t.value, ast.Attribute) \
                                   and t.value.attr == c.attr and norm(t.value.value) == owner:
                                    sites.append(MemoSite(f, 'dict-key', owner, c.attr, n, st, st.value, ks))
        # setattr(self, n, value) memo (Pulse_Container.matrix); a property setter that derives attributes from
        # the value it is given is not a memo
        for n in ([] if f.kind == 'setter' else walk_no_nested(f.node)):
            if isinstance(n, ast.Call) and isinstance(n.func, ast.Name) and n.func.id == 'setattr' \
               and len(n.args) == 3:
                ks = {x.id for x in ast.walk(n.args[1]) if isinstance(x, ast.Name)}
                sites.append(MemoSite(f, 'setattr', norm(n.args[0]), '<dynamic>', None, n, n.args[2], ks))
    return sites


def hazards(ctx, site):
    """roots of the cached value that are neither the owner, a key, nor a constant"""
    fl = ctx.flow(site.func)
    st = site.store
    nid = fl.node_id_of(st)
    owner_names = set()
    head = site.owner.split('.')[0].split('[')[0]
    owner_names.add(head)
    r = fl.roots(site.value, nid, stop_names=owner_names | {'self'} if head == 'self' else owner_names)
    if (isinstance(site.value, (ast.Dict, ast.List)) and not (site.value.keys if isinstance(site.value, ast.Dict) else site.value.elts)) or \
       (isinstance(site.value, ast.Call) and isinstance(site.value.func, ast.Name) and site.value.func.id in ('dict', 'list', 'set')
            and not site.value.args and not site.value.keywords):
        # the cache starts as an empty container and is filled afterwards: what is put into it is the cached value
        r = set(r)
        for n_ in walk_no_nested(site.func.node):
            v_ = None
            if isinstance(n_, ast.Assign) and len(n_.targets) == 1 and isinstance(n_.targets[0], ast.Subscript) and \
               isinstance(n_.targets[0].value, ast.Attribute) and n_.targets[0].value.attr == site.attr and \
               norm(n_.targets[0].value.value) == site.owner:
                v_ = n_.value
            elif isinstance(n_, ast.Call) and isinstance(n_.func, ast.Attribute) and n_.func.attr in ('append', 'add', 'extend', 'update') and \
                    isinstance(n_.func.value, ast.Attribute) and n_.func.value.attr == site.attr and \
                    norm(n_.func.value.value) == site.owner and n_.args:
                v_ = n_.args[0]
            if v_ is not None:
                nid_ = fl.node_id_of(n_)
                if nid_ is not None:
                    r |= set(fl.roots(v_, nid_, stop_names=owner_names | {'self'} if head == 'self' else owner_names))
    bad = []
    params = set(site.func.all_params)
    # parameters the key expression is derived from count as keys
    keys = set(site.keys)
    for k in list(keys):
        if k in fl.rd.names:
            for x in fl.roots(ast.Name(id=k, ctx=ast.Load()), nid):
                if x[0] == 'param':
                    keys.add(x[1])
    # attributes of self that enter the key and are assigned in this function from parameters
    from .rules import assigns_to_attr
    for k in list(keys):
        if k in fl.rd.names:
            for x in fl.roots(ast.Name(id=k, ctx=ast.Load()), nid):
                if x[0] == 'attr' and x[1].startswith('self.'):
                    for a in assigns_to_attr(site.func, x[1]):
                        for y in fl.roots(a.value, fl.node_id_of(a)):
                            if y[0] == 'param':
                                keys.add(y[1])
    site.keys = keys
    for x in sorted(r, key=str):
        if x[0] == 'param':
            if x[1] in site.keys or x[1] == head:
                continue
            # keys may be reached through locals: names in keys that are params
            bad.append(x)
        elif x[0] == 'attr':
            h = x[1].split('.')[0]
            if h == head or h in ('np', 'numpy', 'math', 'itertools'):
                continue
            if h == 'self' and head != 'self':
                bad.append(x)
            elif h != 'self' and h not in params:
                continue
            elif h == 'self':
                continue
            else:
                bad.append(x)
        elif x[0] == 'owner':
            continue
    if bad and site.func.name.startswith('_') and not site.func.name.startswith('__'):
        bad = _resolve_in_callers(ctx, site, bad, head)
    return bad, r


def _resolve_in_callers(ctx, site, bad, head):
    """a memo site in a private helper: a parameter (or the receiver) the cached value depends on is judged by what
    every call site hands over - derived from the object handed over as the owner, from what is handed over as a
    key, or constant"""
    f = site.func
    sites = [(ctx.model.funcs[q], e.node) for q, es in ctx.program.edges.items() for e in es
             if e.callee.qual == f.qual and q in ctx.model.funcs and isinstance(e.node, ast.Call)]
    if not sites:
        return bad
    pos = [a.arg for a in f.node.args.posonlyargs + f.node.args.args]
    bound = f.cls is not None and not f.is_static
    left = list(bad)
    for x in bad:
        if x[0] == 'param':
            pname = x[1]
        elif x[0] == 'attr' and x[1].split('.')[0] == 'self' and bound and head != 'self':
            pname = 'self'
        else:
            continue
        ok_all = True
        for cf, call in sites:
            cfl = ctx.flow(cf)
            cid = cfl.node_id_of(call)
            given = {}
            params = pos[1:] if bound else pos
            for p_, a_ in zip(params, call.args):
                given[p_] = a_
            for k_ in call.keywords:
                if k_.arg is not None:
                    given[k_.arg] = k_.value
            if bound and isinstance(call.func, ast.Attribute):
                given[pos[0]] = call.func.value
            if head not in given or pname not in given or cid is None:
                ok_all = False
                break
            own = given[head]
            own_head = norm(own).split('.')[0].split('[')[0]
            key_roots = set()
            for k_ in site.keys:
                if k_ in given:
                    key_roots |= {y for y in cfl.roots(given[k_], cid)}
            for y in cfl.roots(given[pname], cid, stop_names={own_head}):
                if y[0] in ('const', 'global', 'call', 'attrname', 'owner'):
                    continue
                if y in key_roots:
                    continue
                if y[0] == 'attr' and y[1].split('.')[0] in (own_head, 'np', 'numpy', 'math'):
                    continue
                if y[0] in ('param', 'local') and y[1] == own_head:
                    continue
                ok_all = False
                break
            if not ok_all:
                break
        if ok_all:
            left.remove(x)
    return left


def inplace_on_cached(ctx, site):
    """statements in the memo site's function that update in place a local that aliases the cached
    value (bound from an expression that reads the cache attribute)"""
    f = site.func
    if site.kind in ('cached_property', 'setattr'):
        return []
    attr = site.attr
    aliases = set()
    for s_ in walk_no_nested(f.node):
        if isinstance(s_, ast.Assign):
            reads = any(isinstance(x, ast.Attribute) and x.attr == attr and isinstance(x.ctx, ast.Load)
                        for x in ast.walk(s_.value))
            # only plain bindings / slices / unpacking alias the cached object (arithmetic copies)
            v = s_.value
            while isinstance(v, ast.Subscript):
                v = v.value
            if reads and isinstance(v, ast.Attribute) and v.attr == attr:
                for t in s_.targets:
                    for x in ast.walk(t):
                        if isinstance(x, ast.Name):
                            aliases.add(x.id)
    bad = []
    for s_ in walk_no_nested(f.node):
        if isinstance(s_, ast.AugAssign):
            b = s_.target
            while isinstance(b, (ast.Subscript, ast.Attribute)):
                b = b.value
            if isinstance(b, ast.Name) and b.id in aliases:
                bad.append(s_)
        elif isinstance(s_, ast.Assign):
            for t in s_.targets:
                if isinstance(t, ast.Subscript):
                    b = t
                    while isinstance(b, (ast.Subscript, ast.Attribute)):
                        b = b.value
                    if isinstance(b, ast.Name) and b.id in aliases:
                        bad.append(s_)
    return bad


_MUTATORS = ('add', 'append', 'extend', 'update', 'insert', 'remove', 'pop', 'clear', 'discard')


def cached_read_while_built(ctx):
    """[(cached property, reader function, mutators reachable from the reader)]: a `cached_property` computed from a
    collection that is still being filled in place (`x.geo.add(..)`, `x.pulses.append(..)` outside constructors) is
    read by a function from which such a fill is reachable: the value is frozen while its sources are under
    construction, everything added later is missing from it for good.  Readers are resolved by the class of the
    receiver (typed effects), sources by attribute name."""
    m = ctx.model
    prog = ctx.program
    mut = {}
    for g in m.all_funcs():
        if g.name == '__init__':
            continue
        for x in walk_no_nested(g.node):
            if isinstance(x, ast.Call) and isinstance(x.func, ast.Attribute) and x.func.attr in _MUTATORS:
                r = x.func.value
                while isinstance(r, ast.Subscript):
                    r = r.value
                if isinstance(r, ast.Attribute):
                    mut.setdefault(r.attr, set()).add(g.qual)
    clos = {}

    def closure(q):
        if q not in clos:
            clos[q] = set(prog.closure([m.funcs[q]]))
        return clos[q]
    out = []
    n = 0
    for ci in m.classes.values():
        for nm, g in ci.methods.items():
            if g.kind != 'cached_property':
                continue
            n += 1
            reads = {x.attr for x in ast.walk(g.node) if isinstance(x, ast.Attribute) and isinstance(x.ctx, ast.Load)}
            M = set()
            for a in reads:
                M |= mut.get(a, set())
            if not M:
                continue
            readers = {e.func.qual for q, es in prog.effects.items() for e in es
                       if e.attr == nm and e.mode == 'read' and e.cls == ci.name}
            for fq in sorted(readers):
                if fq == g.qual or fq not in m.funcs:
                    continue
                hit = M & closure(fq)
                if hit:
                    out.append((g, m.funcs[fq], sorted(hit)))
    return out, n
