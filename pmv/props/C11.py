"""C11  Real ground changes only the far field.

Decided (structural, necessary conditions):
 D1 R-EFFECT  the closure of the solve pipeline (Mininec.compute) and of the geometry pipeline
              (segmentation, ground detection, connectivity) reads no attribute of a Medium,
              calls no Medium method, does not read Mininec.boundary, and uses Mininec.media
              (directly or through a parameter it is passed in) only in None/truth tests.
 D2 R-EFFECT  the far-field computation writes nothing that the solve pipeline reads
              (requesting a pattern over real ground cannot feed back into the currents).
 D3 R-POLY    the medium under a ground reflection is selected by the position of the specular point
              (pulse position + specular distance * azimuth direction), for the linear and the circular
              boundary, as a polynomial identity on the closed expression that is compared with the
              media boundaries (necessary for "a medium beyond every reflection point changes nothing"
              and for the invariance under splitting a medium).
 floor        the analysis does see the Medium reads of the far field (>= 5) - guards vacuity.
Not decided: convergence to ideal ground, medium splitting, far boundaries (numeric).
"""
import ast
import re
from ..model import AnalysisError, walk_no_nested, parent, dotted, norm
from ..rules import forbidden_effects, unresolved_named, is_none_test_context, describe_path

SOLVE_ENTRIES = ['mininec.Mininec.compute']
GEO_ENTRIES = ['mininec.Geo_Container.compute_segments', 'mininec.Geo_Container.compute_ground',
               'mininec.Mininec.compute_connectivity']
FAR = 'mininec.Mininec.compute_far_field'


def medium_attrs(ctx):
    """attribute names assigned on self in class Medium (extracted, not hand-copied)"""
    prog = ctx.program
    ci = ctx.model.cls('Medium')
    names = set()
    for f in ci.methods.values():
        for n in walk_no_nested(f.node):
            if isinstance(n, ast.Attribute) and isinstance(n.ctx, ast.Store) and \
               isinstance(n.value, ast.Name) and n.value.id == 'self':
                names.add(n.attr)
    # set_next also writes next.boundary / next.prev
    return names


def media_param_uses_ok(ctx, func, pname, seen_funcs, bad, depth=0):
    """all loads of parameter pname in func are None/truth tests or are passed on to a callee
    where the same holds"""
    prog = ctx.program
    key = (func.qual, pname)
    if key in seen_funcs or depth > 6:
        return
    seen_funcs.add(key)
    for n in walk_no_nested(func.node):
        if isinstance(n, ast.Name) and n.id == pname and isinstance(n.ctx, ast.Load):
            if is_none_test_context(n):
                continue
            p = parent(n)
            if isinstance(p, ast.Call) and n in p.args:
                idx = p.args.index(n)
                env = prog.env[func.qual]
                gs = prog.callees(p, env, func)
                if not gs:
                    bad.append((func, n, 'passed to an unresolved call'))
                for g, bound in gs:
                    params = g.bound_params()
                    if idx < len(params):
                        media_param_uses_ok(ctx, g, params[idx], seen_funcs, bad, depth + 1)
                continue
            bad.append((func, n, 'used as a value: %s' % norm(enclosing(n))))


def enclosing(n):
    p = n
    while p is not None and not isinstance(p, ast.stmt):
        p = parent(p)
    return p if p is not None else n


def reflection_point(ctx, ck):
    """R-POLY.reflection-point: the medium under a reflection is chosen by comparing the media boundaries
    with the position of the specular point: the pulse position moved by the specular distance t along the
    azimuth direction (cos a, sin a).  With the azimuth phasor e^{-ja} (or e^{+ja}) that is
        linear boundary   : x + t * Re
        circular boundary : sqrt((x + t * Re)^2 + (y -/+ t * Im)^2)
    decided as polynomial identities on the closed expression of the compared quantity (the statements
    between its first assignment and the comparison walked symbolically, np.hypot / sqrt / ** 0.5 /
    in-place squaring all giving the same closed form)."""
    from ..symx import SymExec
    from ..poly import Poly, poly_sym, cancel
    from ..dataflow import product_of
    rule = 'R-POLY.reflection-point'
    ck.rule(rule, 'medium selected by the specular point = pulse position + distance * azimuth direction')
    f = ctx.flat(FAR)
    fl = ctx.flow(f)
    # azimuth phasor and its sign convention
    sgn = {}
    for s_ in walk_no_nested(f.node):
        if isinstance(s_, ast.Assign) and isinstance(s_.targets[0], ast.Name) and isinstance(s_.value, ast.BinOp) and \
           isinstance(s_.value.op, ast.Pow) and norm(s_.value.left) == 'np.e':
            ex = fl.inline(s_.value.right, fl.node_id_of(s_), depth=3)
            if 'azimuth' in norm(ex) or 'azi' in norm(ex):
                pr_ = product_of(ex)
                if pr_.coef in (1j, -1j) or abs(abs(pr_.coef) - 1 / 180) < 1e-15:
                    sgn[s_.targets[0].id] = -1 if pr_.coef.imag < 0 else 1
    if len(sgn) != 1:
        raise AnalysisError('%s: azimuth phasor e^(-j azimuth) not found (%s)' % (FAR, sorted(sgn)))
    phasor, conv = list(sgn.items())[0]
    # the comparison with the media boundaries
    cands = []
    for n in walk_no_nested(f.node):
        if isinstance(n, ast.Compare) and len(n.ops) == 1 and isinstance(n.ops[0], (ast.Gt, ast.GtE, ast.Lt, ast.LtE)):
            nid = fl.node_id_of(n)
            sides = [n.left, n.comparators[0]]
            rs = [fl.roots(x_, nid) for x_ in sides]
            has = [('attrname', 'coord') in r_ and ('attr', 'self.current') not in r_ for r_ in rs]
            if has[0] != has[1]:
                cands.append((n, sides[1] if has[0] else sides[0]))
    if len(cands) != 1 or not isinstance(cands[0][1], ast.Name):
        raise AnalysisError('%s: comparison of the specular point with the media boundaries not found (%d candidates)'
                            % (FAR, len(cands)))
    cmp_, dist = cands[0]
    ck.rule('R-ORDER.medium-selection', 'a reflection falls on the first medium whose boundary it does not exceed')
    from ._mediumsel import check_medium_selection
    check_medium_selection(ctx, ck, f, fl, cmp_, dist)
    st = enclosing(cmp_)
    # the block in which the compared distance is computed: the one holding the comparison, or one around it
    blk = None
    first = None
    top = st
    for _up in range(6):
        blk = None
        for x_ in ast.walk(f.node):
            for fld in ('body', 'orelse', 'finalbody'):
                lst = getattr(x_, fld, None)
                if isinstance(lst, list) and any(y_ is top for y_ in lst):
                    blk, holder = lst, x_
        if blk is None:
            raise AnalysisError('%s: block of the media comparison not found' % FAR)
        icmp = [i_ for i_, y_ in enumerate(blk) if y_ is top][0]
        first = [i_ for i_, y_ in enumerate(blk[:icmp]) if isinstance(y_, ast.Assign) and
                 any(isinstance(t_, ast.Name) and t_.id == dist.id for t_ in y_.targets) and
                 not any(isinstance(z_, ast.Name) and z_.id == dist.id and isinstance(z_.ctx, ast.Load) for z_ in ast.walk(y_.value))]
        if first or not isinstance(holder, (ast.For, ast.If, ast.While)):
            break
        top = holder
    if not first:
        raise AnalysisError('%s: the compared distance %s is not computed in the block of the comparison' % (FAR, dist.id))
    paths = [p_ for p_ in SymExec(ctx, f, expand=False).run(stmts=blk[first[-1]:icmp]) if p_.end is None]
    # azimuth element: <phasor>[i] or the loop element of a loop over (enumerate of) the phasor
    elems = set()
    for l_ in ast.walk(f.node):
        if isinstance(l_, ast.For):
            it_ = l_.iter
            tg = l_.target
            if isinstance(it_, ast.Call) and isinstance(it_.func, ast.Name) and it_.func.id == 'enumerate' and len(it_.args) == 1 \
               and isinstance(tg, ast.Tuple) and len(tg.elts) == 2:
                it_, tg = it_.args[0], tg.elts[1]
            if isinstance(it_, ast.Name) and it_.id == phasor and isinstance(tg, ast.Name):
                elems.add(tg.id)
    c_, s_ = Poly.var('cos'), Poly.var('sin')

    def strip_t(e_):
        while isinstance(e_, ast.Attribute) and e_.attr == 'T':
            e_ = e_.value
        return e_

    def resolve(e_):
        if isinstance(e_, ast.Attribute) and e_.attr == 'T':
            return poly_sym(e_.value, {}, resolve)
        if isinstance(e_, ast.Attribute) and e_.attr in ('real', 'imag'):
            b_ = e_.value
            is_el = (isinstance(b_, ast.Name) and b_.id in elems) or \
                (isinstance(b_, ast.Subscript) and isinstance(b_.value, ast.Name) and b_.value.id == phasor)
            if is_el:
                return c_ if e_.attr == 'real' else s_ * Poly.const(conv)
        if isinstance(e_, ast.Subscript) and isinstance(e_.slice, ast.Constant) and e_.slice.value in (0, 1, 2):
            b_ = strip_t(e_.value)
            if isinstance(b_, ast.Attribute) and b_.attr == 'point':
                return Poly.var('xyz'[e_.slice.value])
        return None

    def squared_distance(e_):
        """Poly of e_^2 when e_ is sqrt(E) / E ** 0.5 / hypot(A, B); None otherwise"""
        if isinstance(e_, ast.Call) and (dotted(e_.func) or '').split('.')[-1] == 'sqrt' and len(e_.args) == 1:
            return poly_sym(e_.args[0], {}, resolve)
        if isinstance(e_, ast.Call) and (dotted(e_.func) or '').split('.')[-1] == 'hypot' and len(e_.args) == 2:
            a_, b_ = [poly_sym(x_, {}, resolve) for x_ in e_.args]
            return a_ * a_ + b_ * b_
        if isinstance(e_, ast.BinOp) and isinstance(e_.op, ast.Pow) and isinstance(e_.right, ast.Constant) and e_.right.value == 0.5:
            return poly_sym(e_.left, {}, resolve)
        return None
    seen = {}
    for p_ in paths:
        v_ = p_.env.get(dist.id)
        lin = [b_ for t_, b_ in p_.conds if isinstance(b_, bool) and t_ == "self.boundary == 'linear'"]
        kind = 'linear' if (lin and lin[-1]) else ('circular' if lin else 'any')
        if v_ is None:
            seen[kind] = (False, 'the compared distance is not assigned on the path')
            continue
        try:
            sq = squared_distance(v_)
            got = cancel(sq) if sq is not None else cancel(poly_sym(v_, {}, resolve))
            names = {v for mono in got.t for v, e in mono} - {'cos', 'sin', 'x', 'y', 'z'}
            if len(names) != 1:
                seen[kind] = (False, 'not of the form position + distance * direction: %s' % norm(v_)[:100])
                continue
            t_ = Poly.var(sorted(names)[0])
            X = Poly.var('x') + t_ * c_
            Y = Poly.var('y') + t_ * s_
            if sq is None:
                ok_ = cancel(got - X).t == {}
                form = 'x + t cos(a)'
            else:
                ok_ = cancel(got - (X * X + Y * Y)).t == {}
                form = 'sqrt((x + t cos(a))^2 + (y + t sin(a))^2)'
            want_kind = 'linear' if sq is None else 'circular'
            if kind not in ('any', want_kind):
                ok_ = False
            seen[kind] = (ok_, ('%s boundary: specular point at %s' % (kind, form)) if ok_ else
                          '%s boundary: the compared position is %s, which is not %s with (cos a, sin a) = (Re, %sIm) of the '
                          'azimuth phasor' % (kind, norm(v_)[:110], 'x + t cos(a)' if kind == 'linear' else
                                              'sqrt((x + t cos(a))^2 + (y + t sin(a))^2)', '-' if conv < 0 else ''))
        except ValueError as e_:
            raise AnalysisError('%s: the position compared with the media boundaries is not understood: %s' % (FAR, e_))
    ck.floor('boundary forms of the specular-point comparison', len(seen), 2)
    for kind, (ok_, why) in sorted(seen.items()):
        ck.ob(rule, '%s|%s' % (FAR, kind), ok_, f.loc(st), why)


def check_media_chain(ctx, ck, rule='R-PAIR.media-chain'):
    """Linking the media: `x.set_next(None)` marks x as the outermost medium and REPLACES its boundary coordinate by
    "infinity" (Medium.set_next stores self.coord).  It may therefore only be called for a medium that has no
    successor: under `len(self.media) == 1`, for `self.media[-1]`, or in the loop under a test for the last index.
    A call for every medium "until the next one replaces the link" loses the coordinates of all inner media."""
    from ..rules import self_closure
    m = ctx.model
    f = m.func('mininec.Mininec.check_ground')
    n = 0
    # (what makes the call destructive: set_next(None) stores the coordinate)
    sn = m.resolve_method('Medium', 'set_next')
    if sn is None:
        raise AnalysisError('anchor vanished: Medium.set_next')
    destructive = any(isinstance(x, ast.Attribute) and isinstance(x.ctx, ast.Store) and x.attr == 'coord'
                      for x in ast.walk(sn.node))
    for g in self_closure(ctx, f):
        for c in [x for x in walk_no_nested(g.node) if isinstance(x, ast.Call) and isinstance(x.func, ast.Attribute)
                  and x.func.attr == 'set_next' and len(x.args) == 1]:
            n += 1
            a = c.args[0]
            if not (isinstance(a, ast.Constant) and a.value is None):
                ck.ob(rule, '%s|%s' % (g.qual, norm(c)), True, g.loc(c), 'links a medium to its successor')
                continue
            tests = []
            in_loop = False
            p_, ch = parent(c), c
            while p_ is not None and p_ is not g.node:
                if isinstance(p_, ast.If) and any(ch is s_ or any(ch is y for y in ast.walk(s_)) for s_ in p_.body):
                    tests.append(norm(p_.test))
                elif isinstance(p_, ast.If) and any(ch is s_ or any(ch is y for y in ast.walk(s_)) for s_ in p_.orelse):
                    tests.append('not (%s)' % norm(p_.test))
                if isinstance(p_, (ast.For, ast.While)):
                    in_loop = True
                ch, p_ = p_, parent(p_)
            # (locals that name the list of media: `media = self.media`)
            al_ = {s_.targets[0].id for s_ in walk_no_nested(g.node) if isinstance(s_, ast.Assign) and len(s_.targets) == 1
                   and isinstance(s_.targets[0], ast.Name) and norm(s_.value) == 'self.media'}
            for a_ in al_:
                tests = [re.sub(r'\b%s\b' % re.escape(a_), 'self.media', t_) for t_ in tests]
            # (locals bound once: `last = len(self.media) - 1`, `single = len(self.media) == 1`)
            once_ = {}
            for s_ in walk_no_nested(g.node):
                if isinstance(s_, ast.Assign) and len(s_.targets) == 1 and isinstance(s_.targets[0], ast.Name):
                    once_.setdefault(s_.targets[0].id, []).append(s_.value)
            for nm_, vs_ in once_.items():
                if len(vs_) == 1 and nm_ not in al_:
                    vt_ = norm(vs_[0])
                    for a_ in al_:
                        vt_ = re.sub(r'\b%s\b' % re.escape(a_), 'self.media', vt_)
                    tests = [re.sub(r'\b%s\b' % re.escape(nm_), '(%s)' % vt_, t_) for t_ in tests]
            recv = norm(c.func.value)
            if isinstance(c.func.value, ast.Name):
                # (a local that names the last medium)
                ds_ = [s_.value for s_ in walk_no_nested(g.node) if isinstance(s_, ast.Assign) and len(s_.targets) == 1
                       and isinstance(s_.targets[0], ast.Name) and s_.targets[0].id == recv]
                if len(ds_) == 1:
                    recv = norm(ds_[0])
            for a_ in al_:
                recv = re.sub(r'\b%s\b' % re.escape(a_), 'self.media', recv)
            single = any(re.search(r'^(?!not ).*(len\(self\.media\) == 1|len\(self\.media\) < 2|len\(self\.media\) <= 1)|'
                                   r'^not \((len\(self\.media\) > 1|len\(self\.media\) >= 2|len\(self\.media\) != 1)\)$', t_) for t_ in tests)
            last = recv.endswith('media[-1]') or any(re.search(r'len\(self\.media\) - 1|media\[-1\]', t_) for t_ in tests)
            ok = single or last or not destructive
            ck.ob(rule, '%s|%s' % (g.qual, norm(c)), ok, g.loc(c),
                  'the outermost medium is closed off (%s)' % ('only medium' if single else 'last medium') if ok else
                  '%s is called %s without a test that %s has no successor: set_next(None) overwrites the boundary '
                  'coordinate, every inner medium then reaches to infinity and the media behind it are never selected'
                  % (norm(c), 'in the linking loop' if in_loop else 'here', recv))
    return n


def run(ctx, ck):
    prog = ctx.program
    m = ctx.model
    ck.rule('R-EFFECT.no-medium-read', 'closure of the solve/geometry pipeline reads no Medium attribute')
    ck.rule('R-EFFECT.no-medium-call', 'closure calls no Medium method')
    ck.rule('R-EFFECT.media-only-tested', 'Mininec.media is only tested for None/truth in the closure')
    ck.rule('R-EFFECT.farfield-no-feedback', 'far field writes nothing the solve pipeline reads')
    mattrs = medium_attrs(ctx)
    ck.info('medium_attributes', sorted(mattrs))
    if len(mattrs) < 8:
        raise AnalysisError('Medium attribute extraction found only %d names' % len(mattrs))
    forbidden = {('Medium', a) for a in mattrs} | {('Medium', '*'), ('Mininec', 'boundary')}
    medium_funcs = {f.qual for f in m.cls('Medium').methods.values()}

    for label, entries in (('solve', SOLVE_ENTRIES), ('geometry', GEO_ENTRIES)):
        ents = [m.func(q) for q in entries]
        seen = prog.closure(ents)
        ck.info('closure_%s_functions' % label, len(seen))
        # --- D1a attribute reads
        offenders = forbidden_effects(prog, seen, forbidden)
        unres = unresolved_named(prog, seen, mattrs | {'boundary', 'media'})
        if unres:
            e = unres[0]
            raise AnalysisError(
                'unresolved receiver reads Medium-like attribute .%s in %s (%s): extend the seed '
                'type table' % (e.attr, e.func.qual, e.func.loc(e.node)))
        per_func = {}
        for e in offenders:
            per_func.setdefault(e.func.qual, []).append(e)
        for q in sorted(seen):
            es = per_func.get(q, [])
            ok = not es
            why = 'no Medium attribute touched'
            where = m.funcs[q].loc()
            if es:
                e = es[0]
                where = e.func.loc(e.node)
                why = '%s %s.%s via %s' % (e.mode, e.cls, e.attr, describe_path(prog, seen, q))
            ck.ob('R-EFFECT.no-medium-read', '%s|%s' % (label, q), ok, where, why)
        # --- D1b calls
        for q in sorted(seen):
            ok = q not in medium_funcs
            if not ok:
                ck.ob('R-EFFECT.no-medium-call', '%s|%s' % (label, q), False, m.funcs[q].loc(),
                      'Medium method reachable: ' + describe_path(prog, seen, q))
        ck.ob('R-EFFECT.no-medium-call', '%s|closure' % label,
              not (set(seen) & medium_funcs), m.func(entries[0]).loc(),
              'no Medium method in the closure of %d functions' % len(seen))
        # --- D1c uses of Mininec.media
        bad = []
        n_media_reads = 0
        for q in seen:
            f = m.funcs[q]
            for e in prog.effects.get(q, []):
                if (e.cls, e.attr) == ('Mininec', 'media') and e.mode == 'read':
                    n_media_reads += 1
                    node = e.node
                    if is_none_test_context(node):
                        continue
                    p = parent(node)
                    if isinstance(p, ast.Call) and node in p.args:
                        idx = p.args.index(node)
                        gs = prog.callees(p, prog.env[q], f)
                        if not gs:
                            bad.append((f, node, 'passed to an unresolved call'))
                        for g, bound in gs:
                            params = g.bound_params()
                            if idx < len(params):
                                media_param_uses_ok(ctx, g, params[idx], set(), bad)
                        continue
                    bad.append((f, node, 'used as a value: %s' % norm(enclosing(node))))
        ck.info('media_reads_in_%s_closure' % label, n_media_reads)
        for f, node, why in bad:
            ck.ob('R-EFFECT.media-only-tested', '%s|%s|%s' % (label, f.qual, norm(enclosing(node))),
                  False, f.loc(node), why)
        ck.ob('R-EFFECT.media-only-tested', '%s|closure' % label, not bad,
              m.func(entries[0]).loc(), '%d reads of Mininec.media, all None/truth tests'
              % n_media_reads)
        if label == 'solve':
            solve_seen = seen
        else:
            geo_seen = seen

    ck.floor('functions in solve closure', len(solve_seen), 35)

    # --- floor / positive control: the far field does read the media
    far = m.func(FAR)
    far_seen = prog.closure([far])
    far_reads = [e for e in forbidden_effects(prog, far_seen, forbidden) if e.mode == 'read']
    ck.floor('Medium reads resolved in far-field closure', len(far_reads), 5)
    ck.info('medium_readers', sorted({e.func.qual for q in prog.effects for e in prog.effects[q]
                                     if (e.cls, e.attr) in forbidden and e.cls == 'Medium'}))

    # --- D2 no feedback from the far field into the solve pipeline
    solve_reads = {(e.cls, e.attr) for q in solve_seen for e in prog.effects.get(q, [])
                   if e.mode in ('read', 'aug', 'subaug')}
    cache_classes = {'Pulse_Container'}        # memo sites, decided by R-CACHE in C14
    fb = []
    for q in far_seen:
        if q in solve_seen and q != FAR:
            continue        # shared helpers are judged through the solve closure
        for e in prog.effects.get(q, []):
            if e.mode == 'read' or e.cls == '?':
                continue
            if e.cls in cache_classes:
                continue
            if (e.cls, e.attr) in solve_reads:
                fb.append(e)
    for e in fb:
        ck.ob('R-EFFECT.farfield-no-feedback', '%s|%s.%s' % (e.func.qual, e.cls, e.attr), False,
              e.func.loc(e.node), 'far field %s %s.%s which the solve pipeline reads'
              % (e.mode, e.cls, e.attr))
    ck.ob('R-EFFECT.farfield-no-feedback', FAR + '|closure', not fb, far.loc(),
          'far-field closure (%d functions) writes only its own results' % len(far_seen))
    reflection_point(ctx, ck)
    # per-medium values of the reflection: a loop over all media that fills the entries selected for each medium
    # must reach every medium - leaving the loop early (break / return) leaves the entries of the later media at
    # their initial value (impedance 0: perfect ground) whenever an earlier medium happens to have no reflection
    ck.rule('R-EXH.media-loop', 'a loop over the media that fills per-medium values in the far field is never left early')
    ff = ctx.flat(FAR)
    n_ml = 0
    for l_ in [x_ for x_ in ast.walk(ff.node) if isinstance(x_, ast.For)]:
        if not re.search(r'\bself\.media\b', norm(l_.iter)):
            continue
        stores = [s_ for b_ in l_.body for s_ in ast.walk(b_) if isinstance(s_, (ast.Assign, ast.AugAssign)) and
                  any(isinstance(t_, ast.Subscript) for t_ in (s_.targets if isinstance(s_, ast.Assign) else [s_.target]))]
        if not stores:
            continue
        n_ml += 1
        early = []
        todo = list(l_.body)
        while todo:
            x_ = todo.pop()
            if isinstance(x_, (ast.Break, ast.Return)):
                early.append(x_)
            if isinstance(x_, (ast.For, ast.While, ast.FunctionDef, ast.Lambda)):
                todo.extend(y_ for y_ in ast.walk(x_) if isinstance(y_, ast.Return))
                continue
            todo.extend(ast.iter_child_nodes(x_))
        ck.ob('R-EXH.media-loop', '%s|for %s' % (FAR, norm(l_.iter)[:40]), not early, ff.loc(early[0] if early else l_),
              'every medium is visited' if not early else
              'the loop over the media is left at the first medium without a reflection point: the entries of all later '
              'media keep their initial value')
    ck.info('media_loops_with_stores', n_ml)
    from ._sym import check_ground_symmetry
    ck.rule('R-SYM.ground-halves', 'statements selecting one half of the ground flags select the other too')
    nsel_, nst_ = check_ground_symmetry(ctx, ck)
    ck.floor('statements selecting a half of the ground flags', nst_, 3)
    ck.rule('R-PAIR.media-chain', 'set_next(None) (which replaces the boundary coordinate by infinity) only for a medium without successor')
    ck.floor('set_next calls linking the media', check_media_chain(ctx, ck), 2)
    ck.undecided += ['convergence of the real-ground pattern to the ideal-ground pattern',
                     'invariance under medium splitting / far boundaries (numeric)']
