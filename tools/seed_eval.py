#!/usr/bin/env python3
"""Verify a seeded change and evaluate the checks against it.

usage: tools/seed_eval.py <seed-id> <dir with patch.diff demo.py notes.md> [--property Cxx]
 1. fresh scratch worktree of /repo HEAD under /tmp, apply patch, run the test suite, run the demo
    (must fail), revert, run the demo (must pass); worktree removed afterwards
 2. apply the patch to /repo, run every quick check, undo it straight afterwards
 3. store patch / demo / notes / meta.json under /verif/seeded/<seed-id>/
"""
import json
import os
import re
import shutil
import subprocess
import sys

VERIF = os.path.dirname(os.path.dirname(os.path.abspath(__file__)))
REPO = '/repo'
PY = '/venv/bin/python'


def sh(cmd, cwd=None, timeout=1200):
    p = subprocess.run(cmd, shell=True, cwd=cwd, capture_output=True, text=True, timeout=timeout)
    return p.returncode, (p.stdout + p.stderr)


def main():
    sid, src = sys.argv[1], sys.argv[2]
    prop = None
    if '--property' in sys.argv:
        prop = sys.argv[sys.argv.index('--property') + 1]
    skip_verify = '--skip-verify' in sys.argv
    refactor = '--refactor' in sys.argv
    dst = os.path.join(VERIF, 'seeded', sid)
    os.makedirs(dst, exist_ok=True)
    for name in ('patch.diff', 'demo.py', 'notes.md', 'equiv.py'):
        if os.path.exists(os.path.join(src, name)) and os.path.abspath(src) != os.path.abspath(dst):
            shutil.copy(os.path.join(src, name), os.path.join(dst, name))
    patch = os.path.join(dst, 'patch.diff')
    meta = dict(seed=sid, breaks_property=prop, ran=[])
    if not skip_verify:
        wt = '/tmp/verify_%s' % sid
        sh('git -C %s worktree remove --force %s' % (REPO, wt))
        rc, out = sh('git -C %s worktree add -q %s HEAD' % (REPO, wt))
        try:
            rc, out = sh('git apply %s' % patch, cwd=wt)
            meta['patch_applies'] = rc == 0
            if rc != 0:
                print('PATCH DOES NOT APPLY', out)
                meta['ran'].append('git apply failed: %s' % out[-300:])
                raise SystemExit(3)
            os.makedirs(os.path.join(wt, '_seed'), exist_ok=True)
            if not refactor:
                # the author's scratch path may be hard-coded in the demo: point it at this worktree
                txt = open(os.path.join(dst, 'demo.py')).read()
                txt = re.sub(r'/tmp/seed\d*/[A-Za-z0-9_-]+', wt, txt)
                open(os.path.join(wt, '_seed', 'demo.py'), 'w').write(txt)
            rc, out = sh('%s -m pytest -q -p no:cacheprovider -n 8 test/' % PY, cwd=wt)
            tail = out.strip().split('\n')[-1]
            failed = re.findall(r'FAILED (\S+)', out)
            bad = [f for f in failed if 'test_vertical_ideal_ground_near' not in f]
            if bad and all('test_timing' in b for b in bad):
                rc2, out2 = sh('%s -m pytest -q -p no:cacheprovider test/test_mininec.py -k test_timing' % PY, cwd=wt)
                if rc2 == 0:
                    bad = []
            meta['tests_with_patch'] = tail
            meta['tests_pass_with_patch'] = not bad
            meta['ran'].append('pytest -n 8 test/ (patched): %s' % tail)
            if refactor:
                meta['kind'] = 'behaviour-preserving refactoring'
                meta['confirmed'] = bool(meta.get('tests_pass_with_patch'))
                raise StopIteration
            rc, out = sh('%s _seed/demo.py' % PY, cwd=wt, timeout=600)
            meta['demo_with_patch_rc'] = rc
            meta['ran'].append('demo.py (patched) rc=%d: %s' % (rc, out.strip().split('\n')[-1][:200]))
            sh('git checkout -- mininec', cwd=wt)
            rc, out = sh('%s _seed/demo.py' % PY, cwd=wt, timeout=600)
            meta['demo_without_patch_rc'] = rc
            meta['ran'].append('demo.py (unpatched) rc=%d: %s' % (rc, out.strip().split('\n')[-1][:200]))
        except StopIteration:
            pass
        finally:
            sh('git -C %s worktree remove --force %s' % (REPO, wt))
            sh('git -C %s worktree prune' % REPO)
        if not refactor:
                meta['confirmed'] = bool(meta.get('tests_pass_with_patch') and meta.get('demo_with_patch_rc') != 0
                                     and meta.get('demo_without_patch_rc') == 0)
    # ---- checks: against a scratch copy of /repo HEAD with the patch (PMV_REPO), evidence redirected; /repo is not touched
    wt = '/tmp/eval_%s' % sid
    ev = '/tmp/eval_%s_evidence' % sid
    sh('git -C %s worktree remove --force %s' % (REPO, wt))
    sh('rm -rf %s %s' % (wt, ev))
    rc, out = sh('git -C %s worktree add -q -f %s HEAD' % (REPO, wt))
    results = {}
    try:
        rc, out = sh('git apply %s' % patch, cwd=wt)
        if rc != 0:
            print('cannot apply the patch', out)
            raise SystemExit(3)
        os.makedirs(os.path.join(ev, 'replay'), exist_ok=True)
        from concurrent.futures import ThreadPoolExecutor

        def one(pid):
            rc, out = sh('PMV_REPO=%s PMV_EVIDENCE_DIR=%s ./check %s --tier quick' % (wt, ev, pid), cwd=VERIF, timeout=600)
            fails = [l for l in out.split('\n') if l.startswith('FAIL ')]
            err = [l for l in out.split('\n') if l.startswith('ANALYSIS-ERROR')]
            return pid, dict(rc=rc, fails=[f[:300] for f in fails[:6]], error=(err[0][:300] if err else None))
        with ThreadPoolExecutor(max_workers=int(os.environ.get('SEED_JOBS', '10'))) as ex:
            for pid, r in ex.map(one, ['C%02d' % i for i in range(1, 21)]):
                results[pid] = r
    finally:
        sh('git -C %s worktree remove --force %s' % (REPO, wt))
        sh('git -C %s worktree prune' % REPO)
        sh('rm -rf %s %s' % (wt, ev))
    # restore evidence written on the unmodified tree
    detected = sorted(p for p, r in results.items() if r['rc'] == 1)
    errors = sorted(p for p, r in results.items() if r['rc'] == 2)
    meta['checks_detecting'] = detected
    meta['checks_analysis_error'] = errors
    meta['detail'] = {p: r for p, r in results.items() if r['rc'] != 0}
    old = {}
    mp = os.path.join(dst, 'meta.json')
    if os.path.exists(mp):
        old = json.load(open(mp))
    old.update(meta)
    json.dump(old, open(mp, 'w'), indent=1)
    print(json.dumps(dict(seed=sid, confirmed=old.get('confirmed'), detected=detected, errors=errors), indent=None))
    for p in detected + errors:
        for f in results[p]['fails'][:3]:
            print('   ', p, f[:220])
        if results[p]['error']:
            print('   ', p, results[p]['error'][:220])


if __name__ == '__main__':
    main()
