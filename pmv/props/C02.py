"""C02  Impedance-matrix terms equal the MININEC-3 potential-integral formulation.

Only structural necessary conditions are decided (weak claim, stated as such):
 D1 R-HALF  matrix fill, vector_potential, scalar_potential, psi: every product of per-half
            quantities is coherent; both vector-potential terms contain potential, sign, direction
            and ground sign of one half each, of the source pulse, and cover both halves; scalar
            potential differences are divided by the segment length of their own half; each helper
            selects radius / segment length / i6 / geometry by one and the same half parameter,
            which is the scale it hands to psi.
 D2 R-EXH   image term: the accumulation into Z inside the image loop is scaled by the image sign,
            and the set of computed elements is restricted by the "source pulse not grounded" mask
            for the image (k < 0).
 D3 R-SIB   a pulse at a junction takes its outer half (segment, direction, length, outer point) from the
            neighbour segment that touches the junction, for all four end-to-end combinations (creation
            model over the abstract end states, shared with C06).
Not decided: agreement to 1e-4 with adaptive quadrature, Gauss order thresholds, validity of the
            symmetry / diagonal copy optimisations (exact float equality of runtime geometry).
"""
import ast
import re
from ..model import AnalysisError, walk_no_nested, norm, dotted
from ..dataflow import product_of
from ..rules import loops_in, loop_reaches_on_all_paths, first_touch_is_plain_assign
from ._half import half_obligations

FILL = 'mininec.Mininec.compute_impedance_matrix'
HELPERS = ['mininec.Mininec.vector_potential', 'mininec.Mininec.scalar_potential', 'mininec.Mininec.psi']


def run(ctx, ck):
    m = ctx.model
    ck.rule('R-HALF.coherent-product', 'a product never combines quantities of different halves')
    ck.rule('R-HALF.potential-half', 'psi is given the scale of the half whose geometry it integrates')
    ck.rule('R-HALF.complete-term', 'each vector-potential term = potential*sign*direction*ground-sign of one half')
    ck.rule('R-HALF.difference-length', 'scalar-potential difference / segment length of its own half')
    ck.rule('R-HALF.one-selector', 'helper selects every per-half quantity by the same parameter')
    ck.rule('R-EXH.image-term', 'Z += k * (...) once per image; image excludes grounded source pulses')

    cnt = half_obligations(ctx, ck, [FILL] + HELPERS, want_sums=(FILL,), want_divs=(FILL,),
                           sym_funcs=tuple(HELPERS))
    ck.info('half_counts', cnt)
    ck.floor('coherent products', cnt['products'], 12)
    ck.floor('potential calls', cnt['psi_calls'], 9)
    ck.floor('scalar-potential differences', cnt['divisions'], 3)
    ck.floor('per-half selections in helpers', cnt['selections'], 9)

    f = ctx.flat(FILL)      # private helpers inlined, `x = self.attr` aliases written out
    fl = ctx.flow(f)
    ls = [l for l in loops_in(f.node) if isinstance(l, ast.For) and norm(l.iter) == 'self.image_iter()']
    if len(ls) != 1:
        raise AnalysisError('matrix fill: expected one image loop, found %d' % len(ls))
    l = ls[0]
    kv = l.target.id

    def is_acc(n):
        s = n.stmt
        return n.kind == 'stmt' and isinstance(s, ast.AugAssign) and isinstance(s.op, ast.Add) and \
            dotted(s.target) == 'self.Z'
    mn, mx = loop_reaches_on_all_paths(fl, l, is_acc)
    accs = [n.stmt for n in fl.cfg.nodes if n.stmt is not None and is_acc(n)]
    ok = (mn, mx) == (1, 1) and len(accs) == 1
    why = 'accumulations into Z per image: min %s max %s' % (mn, mx)
    if ok:
        pr = product_of(accs[0].value)
        ok = any(isinstance(x, ast.Name) and x.id == kv for t, x in pr.num) and pr.coef == 1 and not pr.den
        why = 'self.Z += %s' % norm(accs[0].value)
    ck.ob('R-EXH.image-term', FILL + '|Z+=k*term', ok, f.loc(accs[0] if accs else l), why)
    n_upd, bad, n_plain = first_touch_is_plain_assign(fl, 'self.Z')
    ck.ob('R-EXH.image-term', FILL + '|Z-reset', n_plain >= 1 and not bad, f.loc(),
          'self.Z is created (zeros) before the accumulation')
    # masks handed to the potential helpers depend on the grounded-source mask and on k
    calls = [c for c in walk_no_nested(l) if isinstance(c, ast.Call) and isinstance(c.func, ast.Attribute)
             and c.func.attr in ('vector_potential', 'scalar_potential')]
    ck.floor('potential helper calls in the image loop', len(calls), 7)
    bad_masks = []
    body_ids = fl.cfg.loops[fl.cfg.node_of(l)][0]
    # the restriction for the image: a value chosen by the sign of k whose negative-k alternative
    # depends on the grounded-source mask
    restr = set()
    def neg_branch(t):
        """which branch of a test on the image sign is taken for the image (k < 0)"""
        if isinstance(t, ast.UnaryOp) and isinstance(t.op, ast.Not):
            r_ = neg_branch(t.operand)
            return None if r_ is None else ('orelse' if r_ == 'body' else 'body')
        if isinstance(t, ast.Name) and t.id != kv:
            # a flag holding the test: mirror = k < 0
            ds_ = [a_ for a_ in walk_no_nested(l) if isinstance(a_, ast.Assign) and len(a_.targets) == 1 and
                   isinstance(a_.targets[0], ast.Name) and a_.targets[0].id == t.id]
            if len(ds_) == 1:
                return neg_branch(ds_[0].value)
            return None
        if not (isinstance(t, ast.Compare) and len(t.ops) == 1 and isinstance(t.left, ast.Name)
                and t.left.id == kv):
            return None
        try:
            c = ast.literal_eval(t.comparators[0])
        except Exception:
            return None
        op = t.ops[0]
        val = {ast.Lt: -1 < c, ast.LtE: -1 <= c, ast.Gt: -1 > c, ast.GtE: -1 >= c,
               ast.Eq: -1 == c, ast.NotEq: -1 != c}.get(type(op))
        if val is None:
            return None
        return 'body' if val else 'orelse'
    for s_ in walk_no_nested(l):
        if isinstance(s_, ast.Assign) and isinstance(s_.targets[0], ast.Name) and isinstance(s_.value, ast.IfExp):
            nb = neg_branch(s_.value.test)
            if nb is None:
                continue
            neg = s_.value.body if nb == 'body' else s_.value.orelse
            r = fl.roots(neg, fl.node_id_of(s_))
            if ('attr', 'self.pulses.matrix_ground') in r:
                restr.add(s_.targets[0].id)
        elif isinstance(s_, ast.Assign) and isinstance(s_.targets[0], ast.Tuple) and isinstance(s_.value, ast.IfExp):
            # a, b = (x, y) if <image> else (u, v)
            nb = neg_branch(s_.value.test)
            neg = None if nb is None else (s_.value.body if nb == 'body' else s_.value.orelse)
            if isinstance(neg, ast.Tuple) and len(neg.elts) == len(s_.targets[0].elts):
                for t_, v_ in zip(s_.targets[0].elts, neg.elts):
                    if isinstance(t_, ast.Name) and ('attr', 'self.pulses.matrix_ground') in fl.roots(v_, fl.node_id_of(s_)):
                        restr.add(t_.id)
        elif isinstance(s_, ast.If):
            nb = neg_branch(s_.test)
            if nb is None:
                continue
            for blk_stmt in (s_.body if nb == 'body' else s_.orelse):
                for a_ in [blk_stmt] + list(walk_no_nested(blk_stmt)):
                    if isinstance(a_, ast.Assign) and isinstance(a_.targets[0], ast.Name):
                        r = fl.roots(a_.value, fl.node_id_of(a_))
                        if ('attr', 'self.pulses.matrix_ground') in r:
                            restr.add(a_.targets[0].id)

    def depends_on_names(expr, at, names, depth, seen):
        for x in ast.walk(expr):
            if isinstance(x, ast.Name) and x.id in names:
                return True
        if depth <= 0:
            return False
        for x in ast.walk(expr):
            if isinstance(x, ast.Name) and x.id in fl.rd.names and (x.id, at) not in seen:
                seen.add((x.id, at))
                for d in fl.def_exprs(x.id, at):
                    if d[0] in ('assign', 'weak', 'unpack') and d[2] in body_ids and d[1] is not None:
                        if depends_on_names(d[1], d[2], names, depth - 1, seen):
                            return True
        return False
    for c in calls:
        if not restr or not depends_on_names(c.args[1], fl.node_id_of(c), restr, 8, set()):
            bad_masks.append(c)
        if norm(c.args[0]) != kv:
            bad_masks.append(c)
    ck.ob('R-EXH.image-term', FILL + '|image-mask', not bad_masks, f.loc(bad_masks[0] if bad_masks else l),
          'every potential is evaluated for image k on a mask that, for the image (k < 0), is restricted by '
          'the grounded-source mask (%s; %d calls)' % (sorted(restr), len(calls)) if not bad_masks else
          'the mask of %s is not restricted by the grounded-source mask for k < 0' % norm(bad_masks[0])[:60])
    from ._sym import check_ground_symmetry
    ck.rule('R-SYM.ground-halves', 'statements selecting one half of the ground flags select the other too')
    nsel, nst = check_ground_symmetry(ctx, ck)
    ck.floor('statements selecting a half of the ground flags', nst, 3)
    # reduced kernel: the radius enters the distance of every thick element, whatever the rest of the batch needs
    ck.rule('R-DEP.reduced-kernel', 'whether the radius term is added to the distance does not depend on the exact-kernel flags')
    ki = m.func('mininec.Mininec.integral_i2_i3')
    kfl = ctx.flow(ki)
    xp = [p_ for p_ in ki.all_params if 'exact' in p_]
    rp = [p_ for p_ in ki.all_params if p_ in ('r', 'radius', 'rad')]
    if not xp or not rp:
        raise AnalysisError('anchor vanished: parameters of integral_i2_i3 (%s)' % (ki.all_params,))
    n_rk = 0
    from ..model import parent as _parent
    for st_ in walk_no_nested(ki.node):
        if not isinstance(st_, (ast.Assign, ast.AugAssign)):
            continue
        if not any(isinstance(c_, ast.Call) and (dotted(c_.func) or '').split('.')[-1] == 'sqrt' for c_ in ast.walk(st_.value)):
            continue
        nid_ = kfl.node_id_of(st_)
        if ('param', rp[0]) not in kfl.roots(st_.value, nid_):
            continue
        # (the statement that updates the distance itself: its target is a name first bound to a norm; the
        # exact-kernel correction under its own mask is a different matter)
        tg_ = st_.targets[0] if isinstance(st_, ast.Assign) else st_.target
        while isinstance(tg_, ast.Subscript):
            tg_ = tg_.value
        if not (isinstance(tg_, ast.Name) and any(
                isinstance(a_, ast.Assign) and any(isinstance(n_, ast.Name) and n_.id == tg_.id for t_ in a_.targets for n_ in ast.walk(t_))
                and 'linalg.norm' in norm(a_.value) for a_ in walk_no_nested(ki.node))):
            continue
        n_rk += 1
        guards_ = []
        p_, ch_ = _parent(st_), st_
        while p_ is not None and p_ is not ki.node:
            if isinstance(p_, ast.If):
                guards_.append(p_)
            ch_, p_ = p_, _parent(p_)
        bad_ = [g_ for g_ in guards_ if ('param', xp[0]) in kfl.roots(g_.test, kfl.node_id_of(g_))]
        ck.ob('R-DEP.reduced-kernel', '%s|%s' % (ki.qual, norm(st_)[:50]), not bad_, ki.loc(st_),
              'the radius term is added unconditionally / under tests on the radius only' if not bad_ else
              '`%s` runs only under `%s`, which depends on the exact-kernel flags of the batch: a thick element in a batch '
              'without exact-kernel elements is integrated with the thin-wire distance' % (norm(st_)[:50], norm(bad_[0].test)[:40]))
    ck.floor('statements adding the radius term to the distance', n_rk, 1)
    # the length every kernel integral is scaled with is the distance of the segment's own end points
    ck.rule('R-OWN.segment-length', 'Segment.seg_len is set from the end points of the segment (its constructor); the only other writer is the equal segmentation of a straight wire')
    from ..rules import self_closure
    allowed_ = {g_.qual for g_ in self_closure(ctx, m.func('mininec.Wire.compute_equal_segments'))}
    n_w = 0
    for g_ in m.all_funcs():
        for x_ in walk_no_nested(g_.node):
            if isinstance(x_, ast.Attribute) and isinstance(x_.ctx, ast.Store) and x_.attr == 'seg_len':
                own_ = g_.cls is not None and g_.cls.name == 'Segment' and isinstance(x_.value, ast.Name) and x_.value.id == 'self'
                other_self = isinstance(x_.value, ast.Name) and x_.value.id == 'self' and g_.cls is not None and g_.cls.name != 'Segment'
                if other_self:
                    continue        # (an attribute of the same name on another class)
                n_w += 1
                ok_ = own_ or g_.qual in allowed_
                ck.ob('R-OWN.segment-length', '%s|%s' % (g_.qual, norm(x_)), ok_, g_.loc(x_),
                      'the segment measures itself' if own_ else ('equal segments of a straight wire share the computed length'
                      if ok_ else '%s overwrites the length of a segment with a value that is not the distance of its end points: '
                      'psi scales the kernel integral with it' % g_.qual))
    ck.floor('writers of Segment.seg_len', n_w, 1)
    # the closed-form self term describes one segment: its length and its radius are of the same pulse
    ck.rule('R-ROLE.self-term', 'length and radius combined in one closed-form potential term belong to the same pulse of the pair')
    from ._roles import check_self_term_roles
    ck.floor('closed-form terms combining length and radius', check_self_term_roles(ctx, ck), 1)
    # the fill shortcuts of a grounded pulse are only valid for an exactly vertical segment
    ck.rule('R-LIT.vertical-exact', 'grounded-and-not-vertical is decided by exact zero tests of the horizontal direction components')
    from ._sym import check_vertical_exact
    ck.floor('tests in Pulse.is_non_vertical_grounded', check_vertical_exact(ctx, ck), 1)
    # D3: the geometry every term of a junction pulse is computed from
    ck.rule('R-SIB.junction-geometry', 'outer half of a junction pulse on the neighbour segment touching the junction')
    from ._creation import check_neighbour_segment
    check_neighbour_segment(ctx, ck, rule='R-SIB.junction-geometry')
    # the shortcuts of the fill (values copied along diagonals / from the upper triangle, potentials reused) are
    # valid for a pair of pulses only if each pulse lies on ONE object, both on the same one, with equal segment
    # lengths and directions, and neither is a non-vertical grounded pulse: the selector the image loop branches
    # on must be computed from all five facts (each is necessary: without it a pair for which "same index
    # distance = same geometry" does not hold takes the value of another pair)
    ck.rule('R-DEP.shortcut-mask', 'the shortcut selector of the fill depends on every condition the shortcuts rely on')
    FAM = {'same_geobj': 'each pulse on one object', 'same_len': 'equal segment lengths', 'same_dir': 'equal directions',
           'geo_idx': 'both pulses on the same object', 'is_non_vertical_grounded': 'no non-vertical grounded pulse'}

    def fams(roots):
        out = set()
        for r_ in roots:
            if r_[0] in ('attr', 'attrname'):
                for k_ in FAM:
                    if re.search(r'(^|[._])%s(_\d)?$' % k_, r_[1]):
                        out.add(k_)
        return out
    sel = {}
    for c in ast.walk(l):
        if isinstance(c, ast.Compare) and len(c.ops) == 1:
            a_, b_ = c.left, c.comparators[0]
            if isinstance(b_, ast.Name) and isinstance(a_, ast.Constant):
                a_, b_ = b_, a_
            if isinstance(a_, ast.Name) and isinstance(b_, ast.Constant) and isinstance(b_.value, int) and \
               not isinstance(b_.value, bool):
                fm = fams(fl.roots(a_, fl.node_id_of(c)))
                if fm:
                    sel.setdefault(a_.id, []).append((c, fm))
    if not sel:
        raise AnalysisError('matrix fill: no shortcut selector (an array compared with small integers in the image loop '
                            'that is computed from the same-object / same-length / same-direction facts) found')
    for nm_, lst in sorted(sel.items()):
        missing = sorted(set(FAM) - set.intersection(*[fm for c, fm in lst]))
        ck.ob('R-DEP.shortcut-mask', '%s|%s' % (FILL, nm_), not missing, f.loc(lst[0][0]),
              'selector %s is computed from %s' % (nm_, sorted(set.intersection(*[fm for c, fm in lst]))) if not missing else
              'the shortcut selector %s does not depend on %s (%s): pairs for which this does not hold take the copied / '
              'reused value of another pair' % (nm_, ', '.join(missing), '; '.join(FAM[k_] for k_ in missing)))
    # thresholds of the kernels (thin-wire limit ...) follow the frequency: none of them is cached across a change
    ck.rule('R-EFFECT.frequency-state', 'no frequency-derived value of the model is cached across a frequency change')
    from .C14 import check_frequency_cached
    check_frequency_cached(ctx, ck, 'R-EFFECT.frequency-state')
    ck.undecided += ['agreement to 1e-4 with adaptive quadrature of the published formulation',
                     'Gauss order thresholds; that the five conditions are sufficient for the shortcuts']
