"""Symbolic path walk of straight-line numeric code (no solver, no execution).

`SymExec(ctx, func).run()` enumerates the syntactic paths of a function (if-branches forked,
loop bodies entered once, `continue`/`break`/`raise` end the path) and keeps an environment
   local name | dotted attribute text  ->  expression AST with all earlier definitions substituted
so that the value returned (or stored) on a path is one closed expression over the function's
inputs - however the author split it into temporaries, boolean flags or private helper methods
(calls of helpers of the same class / module are expanded in place, one caller path per helper
path).  It is the numeric sibling of fmt.Evaluator and is used by the closed-form rules.
"""
import ast
import itertools
import re
from .model import AnalysisError, norm, dotted, walk_no_nested, parent

MAX_PATHS = 256


def copy_replace(n, fn):
    """field-wise copy of n; fn(node) may return a replacement AST (not copied further) or None"""
    if not isinstance(n, ast.AST):
        return n
    r = fn(n)
    if r is not None:
        return r
    new = n.__class__()
    for fld, val in ast.iter_fields(n):
        if isinstance(val, list):
            setattr(new, fld, [copy_replace(x, fn) for x in val])
        else:
            setattr(new, fld, copy_replace(val, fn))
    for a in ('lineno', 'col_offset', 'end_lineno', 'end_col_offset', '_appended'):
        if hasattr(n, a):
            setattr(new, a, getattr(n, a))
    return new


class _SetAttr(ast.stmt):
    """marker statement: a setattr(obj, name, value) call whose name is resolved on the path"""
    _fields = ()

    def __init__(self, orig):
        super().__init__()
        self.orig = orig


class Path:
    def __init__(self, env, conds, ret=None, stores=None, end=None, calls=None):
        self.env = env          # name / dotted text -> AST
        self.conds = conds      # tuple of (text, bool)
        self.ret = ret          # substituted returned expression, or None
        self.stores = stores if stores is not None else []   # [(dotted target text, value AST, stmt)]
        self.end = end          # None | 'return' | 'raise' | 'continue' | 'break'
        self.calls = calls if calls is not None else []      # [(substituted Call of an expression stmt, stmt)]
        self.events = []        # ordered log: ('create', token, call, stmt, loops) | ('store', key, value, stmt, loops)
        #                                      | ('call', call, stmt, loops)
        self.loops = ()         # texts of the loops the walk is inside of

    def fork(self):
        q = Path(dict(self.env), self.conds, self.ret, list(self.stores), self.end, list(self.calls))
        q.events = list(self.events)
        q.loops = self.loops
        q.asserted = getattr(self, 'asserted', ())
        q._raised = getattr(self, '_raised', False)
        return q


def atomize(test, val):
    """(text, bool) atoms of `test` having the truth value `val` (not / and / or split where exact)"""
    if isinstance(test, ast.UnaryOp) and isinstance(test.op, ast.Not):
        return atomize(test.operand, not val)
    if isinstance(test, ast.Call) and isinstance(test.func, ast.Name) and test.func.id == 'bool' and \
       len(test.args) == 1 and not test.keywords:
        return atomize(test.args[0], val)       # the truth value of bool(X) is the truth value of X
    if isinstance(test, ast.BoolOp) and ((isinstance(test.op, ast.And) and val) or
                                         (isinstance(test.op, ast.Or) and not val)):
        out = ()
        for v in test.values:
            out += atomize(v, val)
        return out
    if isinstance(test, ast.Compare) and len(test.ops) == 1 and isinstance(test.ops[0], (ast.IsNot, ast.NotEq)):
        pos = ast.Compare(left=test.left, ops=[ast.Is() if isinstance(test.ops[0], ast.IsNot) else ast.Eq()],
                          comparators=test.comparators)
        return ((norm(pos), not val),)
    return ((norm(test), val),)


class SymExec:
    def __init__(self, ctx, func, depth=2, expand=True, bind_loops=False, no_expand=(), max_paths=MAX_PATHS,
                 objects=False, effects=False, volatile=(), props=False, private_only=False):
        self.self_cls = None            # class of the object the method is walked for (virtual dispatch of self.m())
        self.props = props              # reads of simple properties of the own class are expanded like helper calls
        self.private_only = private_only  # only helpers whose name starts with '_' (and local defs) are looked through
        self.max_paths = max_paths
        self.volatile = tuple(volatile)  # attribute names changed by object creation: reads are stamped
        #                                  _read(<expr>, <number of objects created so far on the path>)
        self.objects = objects          # `x = Class(...)` binds x to a token _objN (identity of created objects)
        self.effects = effects          # statement-level helper calls with side effects are expanded in place
        self._ntok = [0]
        self.no_expand = no_expand      # qualified names of callees that are not looked through
        self.ctx = ctx
        self.func = func
        self.depth = depth
        self.expand = expand
        self.bind_loops = bind_loops    # loop variables become ITER[_kN] instead of staying opaque
        self._nl = [0]          # loop-index counter, shared with the walks of looked-through helpers
        self.local_defs = {}            # nested `def` statements seen so far: name -> FunctionDef
        # module-level constants (NAME = literal / tuple of literals, assigned once) and the names the
        # function binds itself (which shadow them)
        self.module_consts = dict(module_constants(func.module))
        # constants imported by name from another module of the package (from pkg.pulse import END_1)
        for st_ in func.module.tree.body:
            if isinstance(st_, ast.ImportFrom):
                src_ = ctx.model.modules.get((st_.module or '').split('.')[-1])
                if src_ is not None and src_ is not func.module:
                    sc_ = module_constants(src_)
                    for a_ in st_.names:
                        if a_.name in sc_ and (a_.asname or a_.name) not in self.module_consts:
                            self.module_consts[a_.asname or a_.name] = sc_[a_.name]
        self.local_names = set(func.all_params) | {n.id for n in ast.walk(func.node) if isinstance(n, ast.Name)
                                                   and isinstance(n.ctx, (ast.Store, ast.Del))}
        self.class_consts = class_constants(ctx, func.cls) if func.cls is not None else {}

    # ------------------------------------------------------------------ substitution
    raises = False      # True: a helper path that raises ends the caller's path as a raise too

    @property
    def _nloops(self):
        return self._nl[0]

    @_nloops.setter
    def _nloops(self, v):
        self._nl[0] = v

    def subst(self, e, env):
        def fn(n):
            if isinstance(n, ast.Name) and isinstance(n.ctx, ast.Load) and n.id in env:
                return env[n.id]
            if isinstance(n, ast.Name) and isinstance(n.ctx, ast.Load) and n.id in self.module_consts and \
               n.id not in self.local_names:
                return self.module_consts[n.id]
            if self.bind_loops and isinstance(n, ast.Call) and (dotted(n.func) or '') in ('map', 'starmap', 'itertools.starmap') \
               and len(n.args) == 2 and not n.keywords and 'map' not in env:
                # map(f, X) is (f(x) for x in X); starmap(f, X) is (f(*x) for x in X)
                star = not (isinstance(n.func, ast.Name) and n.func.id == 'map')
                it = simplify(self.subst(n.args[1], env))
                f_ = self.subst(n.args[0], env)
                if isinstance(it, ast.Call) and isinstance(it.func, ast.Name) and it.func.id in ELEMENTWISE and it.args and \
                   isinstance(it.args[0], (ast.Tuple, ast.List)) and not any(isinstance(x, ast.Starred) for x in it.args[0].elts):
                    # an element-wise formatter over a literal: one result per literal entry
                    it = ast.Tuple(elts=[ast.Subscript(value=it, slice=ast.Constant(value=i_), ctx=ast.Load())
                                         for i_ in range(len(it.args[0].elts))], ctx=ast.Load())

                def app(x):
                    arg = ast.Starred(value=x, ctx=ast.Load()) if star else x
                    return simplify(ast.Call(func=f_, args=[arg], keywords=[]))
                if isinstance(it, (ast.Tuple, ast.List)) and len(it.elts) <= 8 and \
                   not any(isinstance(x, ast.Starred) and not _is_each(x.value) for x in it.elts):
                    elts = []
                    for x in it.elts:
                        if isinstance(x, ast.Starred):
                            elts.append(ast.Starred(value=ast.Call(func=ast.Name(id='_each', ctx=ast.Load()),
                                                                   args=[app(x.value.args[0]), x.value.args[1]], keywords=[]),
                                                    ctx=ast.Load()))
                        else:
                            elts.append(app(x))
                    return ast.List(elts=elts, ctx=ast.Load())
                if star:
                    return None
                p_ = Path(dict(env), ())
                tgt = ast.Name(id='_m%d' % self._nloops, ctx=ast.Store())
                self._bind_loop(tgt, it, p_)
                elem = p_.env[tgt.id]
                call = ast.Call(func=self.subst(n.args[0], env), args=[elem], keywords=[])
                return ast.Call(func=ast.Name(id='_each', ctx=ast.Load()), args=[simplify(call), it], keywords=[])
            if self.bind_loops and isinstance(n, (ast.GeneratorExp, ast.ListComp)) and len(n.generators) == 2 \
               and not n.generators[0].ifs and not n.generators[1].ifs:
                # (E for a in A for b in B(a)): each element of B(a) for each a - nested _each
                inner = n.__class__(elt=n.elt, generators=[n.generators[1]])
                outer = ast.GeneratorExp(elt=inner, generators=[n.generators[0]])
                res = self.subst(outer, env)
                if isinstance(res, ast.List):
                    # the outer generator ranged over a literal: the inner sequences follow one another
                    flat = []
                    for e_ in res.elts:
                        if isinstance(e_, ast.Starred):
                            flat.append(e_)
                        elif isinstance(e_, (ast.List, ast.Tuple)):
                            flat += e_.elts
                        elif _is_each(e_):
                            flat.append(ast.Starred(value=e_, ctx=ast.Load()))
                        else:
                            flat = None
                            break
                    if flat is not None:
                        return ast.List(elts=flat, ctx=ast.Load())
                if isinstance(n, ast.ListComp):
                    return ast.List(elts=[ast.Starred(value=res, ctx=ast.Load())], ctx=ast.Load())
                return res
            if isinstance(n, ast.Attribute) and isinstance(n.ctx, ast.Load):
                d = dotted(n)
                if d is not None and d in env:
                    return env[d]
                if isinstance(n.value, ast.Name) and isinstance(env.get(n.value.id), ast.Name) and \
                   env[n.value.id].id.startswith('_obj') and '%s.%s' % (env[n.value.id].id, n.attr) in env:
                    return env['%s.%s' % (env[n.value.id].id, n.attr)]      # a field of a record held in a name
                if isinstance(n.value, ast.Name) and n.value.id in ('self', 'cls') and n.value.id not in env:
                    cc_ = self._class_consts_for_receiver()
                    if n.attr in cc_:
                        return cc_[n.attr]
            if self.bind_loops and isinstance(n, (ast.GeneratorExp, ast.ListComp)) and len(n.generators) == 1 \
               and not n.generators[0].ifs:
                # element of a comprehension as an expression of the iterable: _each(elt[target := ITER[_k]])
                g = n.generators[0]
                it = self.subst(g.iter, env)
                if isinstance(it, ast.Call):
                    # a helper that only builds the iterable (one path): iterate what it returns
                    hp_ = self.helper_paths(it, env)
                    if hp_ is not None and len(hp_) == 1 and not hp_[0][1]:
                        it = hp_[0][0]
                if _never_iterates(it):
                    return ast.List(elts=[], ctx=ast.Load())
                if isinstance(it, ast.Call) and isinstance(it.func, ast.Name) and it.func.id == 'range' and not it.keywords and \
                   1 <= len(it.args) <= 2 and all(isinstance(a_, ast.Constant) and isinstance(a_.value, int) and
                                                  not isinstance(a_.value, bool) for a_ in it.args) and \
                   0 <= (it.args[-1].value - (it.args[0].value if len(it.args) == 2 else 0)) <= 8:
                    # a comprehension over a short constant range: entry by entry
                    lo_ = it.args[0].value if len(it.args) == 2 else 0
                    it = ast.Tuple(elts=[ast.Constant(value=i_) for i_ in range(lo_, it.args[-1].value)], ctx=ast.Load())
                if isinstance(it, ast.Call) and isinstance(it.func, ast.Name) and it.func.id in ELEMENTWISE and it.args and \
                   isinstance(it.args[0], (ast.Tuple, ast.List)) and not any(isinstance(x, ast.Starred) for x in it.args[0].elts):
                    # an element-wise formatter over a literal: one result per literal entry
                    it = ast.Tuple(elts=[ast.Subscript(value=it, slice=ast.Constant(value=i_), ctx=ast.Load())
                                         for i_ in range(len(it.args[0].elts))], ctx=ast.Load())
                if isinstance(it, (ast.Tuple, ast.List)) and len(it.elts) <= 16 and \
                   not any(isinstance(x, ast.Starred) and not _is_each(x.value) for x in it.elts):
                    # a map over a literal: entry by entry; an entry *_each(E, IT) maps to *_each(elt(E), IT)
                    elts = []
                    for item in it.elts:
                        q_ = Path({k_: v_ for k_, v_ in env.items()}, ())
                        for x in ast.walk(g.target):
                            if isinstance(x, ast.Name):
                                q_.env.pop(x.id, None)
                        if isinstance(item, ast.Starred):
                            self._assign(g.target, item.value.args[0], q_, None)
                            each = ast.Call(func=ast.Name(id='_each', ctx=ast.Load()),
                                            args=[self.subst(n.elt, q_.env), item.value.args[1]], keywords=[])
                            elts.append(ast.Starred(value=each, ctx=ast.Load()))
                        else:
                            self._assign(g.target, item, q_, None)
                            elts.append(self.subst(n.elt, q_.env))
                    return ast.List(elts=elts, ctx=ast.Load())
                p_ = Path({k_: v_ for k_, v_ in env.items()}, ())
                for x in ast.walk(g.target):
                    if isinstance(x, ast.Name):
                        p_.env.pop(x.id, None)
                self._bind_loop(g.target, it, p_)
                each = ast.Call(func=ast.Name(id='_each', ctx=ast.Load()), args=[self.subst(n.elt, p_.env), it], keywords=[])
                if isinstance(n, ast.ListComp):
                    # a list built by a comprehension is a list literal whose entries are "each element"
                    return ast.List(elts=[ast.Starred(value=each, ctx=ast.Load())], ctx=ast.Load())
                return each
            if isinstance(n, (ast.Lambda, ast.GeneratorExp, ast.ListComp, ast.SetComp, ast.DictComp)):
                # bound variables shadow: substitute only names that are not rebound inside
                bound = {x.id for x in ast.walk(n) if isinstance(x, ast.Name) and isinstance(x.ctx, ast.Store)}
                if isinstance(n, ast.Lambda):
                    bound |= {a.arg for a in n.args.args}
                env2 = {k: v for k, v in env.items() if k.split('.')[0] not in bound}
                if len(env2) != len(env):
                    return _subst_inner(self, n, env2)
            return None
        out = copy_replace(e, fn)
        return simplify(out)

    # ------------------------------------------------------------------ helper expansion
    def _callee(self, call):
        if not self.expand or self.depth <= 0:
            return None
        fn = call.func
        m = self.ctx.model
        g = None
        if isinstance(fn, ast.Attribute) and isinstance(fn.value, ast.Name) and fn.value.id in ('self', 'cls') \
           and self.func.cls is not None:
            g = m.resolve_method(self.self_cls or self.func.cls.name, fn.attr)
        elif isinstance(fn, ast.Attribute) and isinstance(fn.value, ast.Name) and fn.value.id in m.classes and \
                fn.value.id not in self.local_names:
            # Cls.make(...): an alternative constructor / static helper of a class of the package
            g = m.resolve_method(fn.value.id, fn.attr)
            if g is not None and not ('classmethod' in g.decorators or g.is_static):
                g = None
        elif isinstance(fn, ast.Name):
            g = m.funcs.get('%s.%s' % (self.func.module.name, fn.id))
            if g is None and fn.id not in ELEMENTWISE:
                # a small wrapper imported from another module of the package (from pkg.util import fmt1)
                g = _imported_wrapper(m, self.func.module, fn.id)
        if g is None or g.qual == self.func.qual or isinstance(g.node, ast.Lambda) or g.qual in self.no_expand:
            return None
        if g.name in ELEMENTWISE and g.cls is None and self.func.name not in ELEMENTWISE:
            return None         # the number formatter stays a call (one text per element: R-EXH.elementwise)
        if g.kind in ('property', 'cached_property', 'setter'):
            return None
        if self.private_only and not g.name.startswith('_'):
            return None
        star_kw = [k for k in call.keywords if k.arg is None]
        if any(isinstance(a, ast.Starred) for a in call.args) or len(star_kw) > 1 or \
           (star_kw and (g.node.args.kwarg is None or len(call.keywords) != 1)):
            return None         # **d is only passed through to a callee that takes **kw itself
        if any(isinstance(n, (ast.Yield, ast.YieldFrom)) for n in walk_no_nested(g.node)):
            # a generator: looked through (as the sequence of what it yields) when loops are bound
            if not self.bind_loops or any(isinstance(n, (ast.Yield, ast.YieldFrom)) and
                                          not isinstance(parent(n), ast.Expr) for n in walk_no_nested(g.node)):
                return None
        return g

    def _local_paths(self, call, env):
        """a call of a function defined locally (nested def): its body sees the caller's bindings"""
        d = self.local_defs.get(call.func.id)
        a_ = d.args
        if a_.vararg or a_.kwarg or any(isinstance(a, ast.Starred) for a in call.args):
            return None
        if any(isinstance(n, (ast.Yield, ast.YieldFrom, ast.For, ast.While, ast.Try, ast.With, ast.Nonlocal, ast.Global))
               for st in d.body for n in ast.walk(st)):
            return None
        params = [x.arg for x in a_.posonlyargs + a_.args]
        bind = dict(env)
        got = {}
        for p_, a in zip(params, call.args):
            got[p_] = a
        for k in call.keywords:
            if k.arg is None:
                return None
            got[k.arg] = k.value
        for p_, dflt in zip(params[len(params) - len(a_.defaults):], a_.defaults):
            got.setdefault(p_, dflt)
        if any(p_ not in got for p_ in params):
            return None
        for k_ in list(bind):
            if k_.split('.')[0] in got:
                del bind[k_]
        bind.update(got)
        body = list(d.body)
        if body and isinstance(body[0], ast.Expr) and isinstance(body[0].value, ast.Constant) and \
           isinstance(body[0].value.value, str):
            body = body[1:]
        sub = SymExec(self.ctx, self.func, self.depth - 1, self.expand, self.bind_loops, self.no_expand,
                      self.max_paths, self.objects, self.effects, self.volatile, self.props, self.private_only)
        sub._ntok = self._ntok
        sub.self_cls = self.self_cls if (sub.func.cls is not None and self.func.cls is not None) else None
        sub._nl = self._nl
        sub.raises = self.raises
        sub.local_defs = dict(self.local_defs)
        res = []
        for p in sub.run(stmts=body, env=bind):
            if p.end == 'raise':
                continue
            if p.end != 'return' or p.ret is None or p.stores:
                return None
            for n_ in ast.walk(p.ret):
                if getattr(n_, '_appended', False):
                    n_._appended = False
            res.append((p.ret, p.conds))
        return res or None

    def helper_paths(self, call, env, with_effects=False):
        """[(value AST, conds)] of a helper call with substituted arguments, or None;
        with_effects: the callee's Paths themselves (stores / calls / events to be merged by the caller)"""
        if isinstance(call.func, ast.Name) and call.func.id in self.local_defs and self.depth > 0:
            return None if with_effects else self._local_paths(call, env)
        g = self._callee(call)
        if g is None:
            return None
        params = g.bound_params() if g.cls is not None else list(g.params)
        bind = {}
        for p_, a in zip(params, call.args):
            bind[p_] = a
        if g.node.args.vararg is not None:
            # *rest collects the remaining positional arguments
            bind[g.node.args.vararg.arg] = ast.Tuple(elts=list(call.args[len(params):]), ctx=ast.Load())
        elif len(call.args) > len(params):
            return None
        extra_kw = []
        names_ = set(g.all_params)
        for k in call.keywords:
            if k.arg is None:
                bind[g.node.args.kwarg.arg] = k.value
            elif k.arg not in names_ and g.node.args.kwarg is not None:
                extra_kw.append(k)          # collected by **kw of the callee
            else:
                bind[k.arg] = k.value
        if g.node.args.kwarg is not None and g.node.args.kwarg.arg not in bind:
            bind[g.node.args.kwarg.arg] = ast.Dict(keys=[ast.Constant(value=k.arg) for k in extra_kw],
                                                   values=[k.value for k in extra_kw])
        a_ = g.node.args
        pos = a_.posonlyargs + a_.args
        for p_, d in zip(pos[len(pos) - len(a_.defaults):], a_.defaults):
            bind.setdefault(p_.arg, d)
        if any(p_ not in bind for p_ in params):
            return None
        if 'classmethod' in g.decorators and g.params:
            # cls inside the alternative constructor: the class it was called on (self.make -> the class of self)
            fn_ = call.func
            if isinstance(fn_, ast.Attribute) and isinstance(fn_.value, ast.Name) and fn_.value.id in self.ctx.model.classes:
                bind[g.params[0]] = ast.Name(id=fn_.value.id, ctx=ast.Load())
        for k_, v_ in env.items():
            if k_.startswith('_obj') and '.' in k_:
                bind.setdefault(k_, v_)     # fields of the records made so far (a record may be an argument)
        sub = SymExec(self.ctx, g, self.depth - 1, self.expand, self.bind_loops, self.no_expand,
                      self.max_paths, self.objects, self.effects, self.volatile, self.props, self.private_only)
        sub._ntok = self._ntok
        sub.self_cls = self.self_cls if (sub.func.cls is not None and self.func.cls is not None) else None
        sub._nl = self._nl
        sub.raises = self.raises
        paths = sub.run(env=dict(bind))
        is_gen = any(isinstance(n, (ast.Yield, ast.YieldFrom)) for n in walk_no_nested(g.node))
        if is_gen:
            for p in paths:
                if p.end != 'raise':
                    if p.ret is not None:
                        return None
                    p.ret = _yielded(p)
                    if p.ret is None:
                        return None
                    p.end = 'return'
        if with_effects:
            return [p for p in paths if p.end != 'raise' or self.raises] or None
        res = []
        for p in paths:
            if p.end == 'raise':
                if self.raises:
                    res.append((ast.Name(id='_raise', ctx=ast.Load()), p.conds))
                continue
            if p.end != 'return' or p.ret is None:
                return None
            if p.stores and not self.effects:
                return None         # helper with side effects on attributes: not a pure formula
            for n_ in ast.walk(p.ret):
                if getattr(n_, '_appended', False):
                    n_._appended = False    # for the caller these are entries of a value, not yet lines
            if p.stores:
                # effects=True: a helper used inside an expression that also stores (a memo it keeps):
                # its stores / calls / events join the caller's path together with the value
                p.ret = copy_replace(p.ret, lambda n_: None)
                p.ret._effects = p
            res.append((p.ret, p.conds))
        return res or None

    def _property_paths(self, attr):
        """[(value, conds)] of reading a property of the own class whose body is a pure computation"""
        g = self.ctx.model.resolve_method(self.self_cls or self.func.cls.name, attr.attr)
        if g is None or g.kind not in ('property', 'cached_property') or g.qual == self.func.qual or \
           g.qual in self.no_expand:
            return None
        cache = self.__dict__.setdefault('_prop_cache', {})
        if g.qual in cache:
            return cache[g.qual]
        cache[g.qual] = None
        if any(isinstance(n, (ast.Yield, ast.YieldFrom, ast.While)) for n in ast.walk(g.node)):
            return None
        if not self.bind_loops and any(isinstance(n, ast.For) for n in ast.walk(g.node)):
            return None         # (with bound loops an accumulating loop has a closed value like a sum())
        sub = SymExec(self.ctx, g, self.depth - 1, self.expand, self.bind_loops, self.no_expand,
                      self.max_paths, self.objects, self.effects, self.volatile, self.props, self.private_only)
        sub._ntok = self._ntok
        sub.self_cls = self.self_cls if (sub.func.cls is not None and self.func.cls is not None) else None
        sub._nl = self._nl
        sub.raises = self.raises
        res = []
        for p in sub.run():
            if p.end == 'raise':
                continue
            if p.end != 'return' or p.ret is None or p.stores:
                return None
            res.append((p.ret, p.conds))
        if not res or len(res) > 4:
            return None
        cache[g.qual] = res
        return res

    def _foreign_property(self, attr):
        """[(value, conds)] of `<x>.name` where name is a plain (not cached) property of exactly one class of the
        package, never stored as an attribute anywhere, and its body is one pure return expression: the expression
        with self := <x>"""
        m = self.ctx.model
        tbl = m.__dict__.get('_unique_props')
        if tbl is None:
            owners = {}
            for ci in m.classes.values():
                for nm_, g_ in ci.methods.items():
                    if g_.kind == 'property':
                        owners.setdefault(nm_, []).append(g_)
            stored = set()
            plain = set()
            for f_ in m.all_funcs():
                for x_ in ast.walk(f_.node):
                    if isinstance(x_, ast.Attribute) and isinstance(x_.ctx, (ast.Store, ast.Del)):
                        stored.add(x_.attr)
            for ci in m.classes.values():
                plain |= set(ci.class_attrs)
                plain |= {nm_ for nm_, g_ in ci.methods.items() if g_.kind != 'property'}
            tbl = {}
            for nm_, gs in owners.items():
                if len(gs) != 1 or nm_ in stored or nm_ in plain or gs[0].cls.subclasses and any(
                        nm_ in sc.methods for sc in gs[0].cls.subclasses):
                    continue
                if any(isinstance(y_, (ast.For, ast.While, ast.Yield, ast.YieldFrom, ast.Lambda, ast.Try, ast.With))
                       for y_ in ast.walk(gs[0].node)):
                    continue
                tbl[nm_] = gs[0]
            m.__dict__['_unique_props'] = tbl
        g = tbl.get(attr.attr)
        if g is None:
            return None
        cache = m.__dict__.setdefault('_unique_prop_paths', {})
        if g.qual not in cache:
            cache[g.qual] = None
            sub = SymExec(self.ctx, g, 1, True, False, (), 16)
            res = []
            try:
                for p in sub.run():
                    if p.end == 'raise':
                        continue
                    if p.end != 'return' or p.ret is None or p.stores or p.calls:
                        res = None
                        break
                    res.append((p.ret, p.conds))
            except AnalysisError:
                res = None
            if res and len(res) <= 3 and not any(isinstance(y_, ast.Call) for v_, c_ in res for y_ in ast.walk(v_)):
                cache[g.qual] = res
        res = cache[g.qual]
        if res is None:
            return None
        sn = g.params[0]
        rtxt = norm(attr.value)
        import re as _re
        out = []
        for v_, conds in res:
            val = copy_replace(v_, lambda n_: attr.value if isinstance(n_, ast.Name) and n_.id == sn else None)
            cs = tuple((_re.sub(r'\b%s\b' % sn, lambda mo: rtxt, t_) if isinstance(t_, str) else t_, b_) for t_, b_ in conds)
            out.append((simplify(val), cs))
        return out

    def _class_consts_for_receiver(self):
        """class constants as the object the method is walked for sees them: those of its own class first, then of
        the classes it inherits from (a template method in a base class reads `self.kind_name` of the subclass)"""
        if not self.self_cls:
            return self.class_consts
        cached = self.__dict__.get('_cc_recv')
        if cached is not None and cached[0] == self.self_cls:
            return cached[1]
        out = {}
        ci = self.ctx.model.classes.get(self.self_cls)
        for k in reversed(ci.mro if ci is not None else []):
            out.update(class_constants(self.ctx, k))
        # a name the subclass re-binds to something that is not a constant hides the base constant
        for k in (ci.mro if ci is not None else []):
            for st in getattr(k, 'node', ast.Module(body=[], type_ignores=[])).body:
                if isinstance(st, ast.Assign) and len(st.targets) == 1 and isinstance(st.targets[0], ast.Name):
                    nm = st.targets[0].id
                    if nm in out and nm not in class_constants(self.ctx, k) and \
                            all(nm not in class_constants(self.ctx, k2) for k2 in ci.mro[:ci.mro.index(k)]):
                        out.pop(nm, None)
        self._cc_recv = (self.self_cls, out)
        return out

    def _fold_property_calls(self, v):
        """`self.idx(0)` -> `self.idx_1` when the class has a plain property whose body is `return self.idx(0)`: the
        call with the constant written out (after a helper parameter was substituted) is the named quantity"""
        tbl = self.__dict__.get('_prop_calls')
        if tbl is None:
            tbl = {}
            cls = self.ctx.model.classes.get(self.self_cls) if self.self_cls else self.func.cls
            for ci in (cls.mro if cls is not None else []):
                for nm_, g_ in ci.methods.items():
                    if g_.kind != 'property':
                        continue
                    b_ = [x_ for x_ in g_.body() if not (isinstance(x_, ast.Expr) and isinstance(x_.value, ast.Constant))]
                    if len(b_) == 1 and isinstance(b_[0], ast.Return) and isinstance(b_[0].value, ast.Call):
                        c_ = b_[0].value
                        if isinstance(c_.func, ast.Attribute) and isinstance(c_.func.value, ast.Name) and c_.func.value.id == 'self' \
                           and not c_.keywords and c_.args and all(isinstance(a_, ast.Constant) for a_ in c_.args):
                            tbl.setdefault(norm(c_), nm_)
            self._prop_calls = tbl
        if not tbl:
            return v
        if not any(isinstance(n_, ast.Call) and isinstance(n_.func, ast.Attribute) and isinstance(n_.func.value, ast.Name)
                   and n_.func.value.id == 'self' for n_ in ast.walk(v)):
            return v
        return copy_replace(v, lambda n_: ast.Attribute(value=ast.Name(id='self', ctx=ast.Load()), attr=tbl[norm(n_)], ctx=ast.Load())
                            if isinstance(n_, ast.Call) and isinstance(n_.func, ast.Attribute) and isinstance(n_.func.value, ast.Name)
                            and n_.func.value.id == 'self' and all(isinstance(a_, ast.Constant) for a_ in n_.args) and not n_.keywords
                            and norm(n_) in tbl else None)

    def eval_expr(self, e, path):
        """[(value AST, Path)]: e substituted in path.env; helper calls expanded (forking)"""
        v = self.subst(e, path.env)
        v = self._fold_property_calls(v)
        if self.volatile:
            ncre = sum(1 for ev in path.events if ev[0] == 'create')
            done = {id(x.args[0]) for x in ast.walk(v) if isinstance(x, ast.Call) and isinstance(x.func, ast.Name)
                    and x.func.id == '_read' and x.args}
            v = copy_replace(v, lambda n: ast.Call(func=ast.Name(id='_read', ctx=ast.Load()),
                                                   args=[n, ast.Constant(value=ncre)], keywords=[])
                             if isinstance(n, ast.Attribute) and n.attr in self.volatile and id(n) not in done
                             and isinstance(n.ctx, ast.Load) else None)
        calls = []
        visited = []
        for n in _walk_unflagged(v, '_nohelper'):
            visited.append(n)
            if isinstance(n, ast.Call):
                hp = self.helper_paths(n, path.env)
                if hp is not None:
                    calls.append((n, hp))
            elif self.props and self.depth > 0 and isinstance(n, ast.Attribute) and isinstance(n.ctx, ast.Load) and \
                    isinstance(n.value, ast.Name) and n.value.id == 'self' and self.func.cls is not None:
                hp = self._property_paths(n)
                if hp is not None:
                    calls.append((n, hp))
            elif self.props and self.depth > 0 and isinstance(n, ast.Attribute) and isinstance(n.ctx, ast.Load) and \
                    not (isinstance(n.value, ast.Name) and n.value.id == 'self'):
                hp = self._foreign_property(n)
                if hp is not None:
                    calls.append((n, hp))
        if not calls:
            # nothing to look through in here: shared subtrees need not be scanned again
            for n in visited:
                try:
                    n._nohelper = True
                except AttributeError:
                    pass
            return [(v, path)]
        # expand outermost-first is not needed: replace all found calls (inner ones inside replaced
        # outer calls are handled by the recursion in the helper run)
        out = []
        for combo in itertools.product(*[hp for n, hp in calls]):
            repl = {id(n): val for (n, hp), (val, hc) in zip(calls, combo)}
            p2 = path.fork()
            feasible = True
            for (val, hc) in combo:
                if any(isinstance(b, bool) and (t, not b) in p2.conds for t, b in hc):
                    feasible = False        # the helper path contradicts a test the caller already passed
                    break
                p2.conds = p2.conds + tuple(c for c in hc if c not in p2.conds)
                if isinstance(val, ast.Name) and val.id == '_raise':
                    p2._raised = True
                q_ = getattr(val, '_effects', None)
                if q_ is not None:
                    p2.stores += q_.stores
                    p2.calls += q_.calls
                    p2.events += [ev[:-1] + (path.loops + ev[-1],) for ev in q_.events]
            if not feasible:
                continue
            v2 = copy_replace(v, lambda x: repl.get(id(x)))
            out.append((simplify(v2), p2))
        return out

    # ------------------------------------------------------------------ statements
    def run(self, stmts=None, env=None):
        stmts = self.func.body() if stmts is None else stmts
        start = Path(dict(env or {}), ())
        paths = self._block(stmts, [start])
        return paths

    def _block(self, stmts, paths):
        for st in stmts:
            nxt = []
            for p in paths:
                if p.end is not None:
                    nxt.append(p)
                    continue
                for q in self._stmt(st, p):
                    if getattr(q, '_raised', False):
                        q.end = 'raise'     # a helper raised while this statement was evaluated
                    nxt.append(q)
            paths = nxt
            if len(paths) > self.max_paths:
                raise AnalysisError('%s: more than %d symbolic paths' % (self.func.qual, self.max_paths))
        return paths

    def _assign(self, target, value, p, st):
        if getattr(value, '_n', 0) > BIG_VALUE:
            value = summarise(value)
        if isinstance(target, ast.Name):
            p.env[target.id] = value
            # attribute facts about the old binding are stale
            for k in [k for k in p.env if k.startswith(target.id + '.')]:
                del p.env[k]
        elif isinstance(target, ast.Attribute) and isinstance(target.value, ast.Name) and _is_bare(p.env.get(target.value.id)):
            # an attribute of an object made with __new__ in this very function: part of the value of that name
            cur = p.env[target.value.id]
            kws = [k_ for k_ in cur.keywords if k_.arg != target.attr] + [ast.keyword(arg=target.attr, value=value)]
            p.env[target.value.id] = ast.Call(func=cur.func, args=cur.args, keywords=kws)
        elif isinstance(target, ast.Attribute) and dotted(target) is not None:
            base = self.subst(target.value, p.env)
            d = dotted(base) or (norm(base) if isinstance(base, (ast.Subscript, ast.Name, ast.Attribute)) else None)
            key = (d + '.' + target.attr) if d else dotted(target)
            p.env[dotted(target)] = value
            p.stores.append((key, value, st))
            p.events.append(('store', key, value, st, p.loops))
        elif isinstance(target, (ast.Tuple, ast.List)) and sum(1 for t in target.elts if isinstance(t, ast.Starred)) == 1:
            # a, *rest = X  /  *init, last = X
            k = [i for i, t in enumerate(target.elts) if isinstance(t, ast.Starred)][0]
            after = len(target.elts) - k - 1
            for i, t in enumerate(target.elts[:k]):
                self._assign(t, simplify(ast.Subscript(value=value, slice=ast.Constant(value=i), ctx=ast.Load())), p, st)
            for j, t in enumerate(target.elts[k + 1:]):
                self._assign(t, simplify(ast.Subscript(value=value, slice=ast.Constant(value=-(after - j)), ctx=ast.Load())), p, st)
            sl = ast.Slice(lower=ast.Constant(value=k) if k else None, upper=ast.Constant(value=-after) if after else None, step=None)
            self._assign(target.elts[k].value, simplify(ast.Subscript(value=value, slice=sl, ctx=ast.Load())), p, st)
        elif isinstance(target, (ast.Tuple, ast.List)):
            if isinstance(value, (ast.Tuple, ast.List)) and len(value.elts) == len(target.elts):
                for t, v in zip(target.elts, value.elts):
                    self._assign(t, v, p, st)
            else:
                for i, t in enumerate(target.elts):
                    self._assign(t, ast.Subscript(value=value, slice=ast.Constant(value=i), ctx=ast.Load()), p, st)
        elif isinstance(target, ast.Subscript) and isinstance(target.value, ast.Subscript):
            # X[i][j] = v on a nested list literal with constant indices: the literal with that entry replaced
            outer = target.value
            nm = outer.value.id if isinstance(outer.value, ast.Name) else None
            cur = p.env.get(nm) if nm else None
            i_ = simplify(self.subst(outer.slice, p.env)) if isinstance(outer.slice, ast.AST) else None
            j_ = simplify(self.subst(target.slice, p.env)) if isinstance(target.slice, ast.AST) else None
            if isinstance(cur, ast.List) and isinstance(i_, ast.Constant) and isinstance(j_, ast.Constant) and \
               isinstance(i_.value, int) and isinstance(j_.value, int) and not isinstance(i_.value, bool) and \
               0 <= i_.value < len(cur.elts) and isinstance(cur.elts[i_.value], ast.List) and \
               0 <= j_.value < len(cur.elts[i_.value].elts) and \
               not any(isinstance(x, ast.Starred) for x in cur.elts + cur.elts[i_.value].elts):
                rows = list(cur.elts)
                row = list(rows[i_.value].elts)
                row[j_.value] = value
                rows[i_.value] = ast.List(elts=row, ctx=ast.Load())
                p.env[nm] = ast.List(elts=rows, ctx=ast.Load())
                return
            # otherwise an element store two levels down; the container expressions stay opaque
            t2 = self.subst(copy_replace(target, lambda n: None), p.env)
            key = norm(t2)
            p.stores.append((key, value, st))
            p.events.append(('store', key, value, st, p.loops))
        elif isinstance(target, ast.Subscript):
            b = target.value
            d = dotted(b) if isinstance(b, (ast.Name, ast.Attribute)) else None
            if d is not None:
                cur = p.env.get(d)
                idx_ = self.subst(target.slice, p.env) if isinstance(target.slice, ast.AST) else None
                if idx_ is not None:
                    idx_ = simplify(idx_)
                if isinstance(b, ast.Name) and isinstance(cur, ast.Attribute) and dotted(cur) and \
                   dotted(cur).split('.')[0] in (['self', 'cls'] + list(self.func.all_params)):
                    # the local is another name of an object kept in an attribute (end = self.p1, or the element of
                    # a loop over (self.p1, self.p2)): the element store goes to that object
                    d2 = dotted(cur)
                    old_ = p.env.get(d2, cur)
                    p.env[d2] = ast.Call(func=ast.Name(id='_upd', ctx=ast.Load()), args=[old_, idx_, value], keywords=[]) \
                        if idx_ is not None else old_
                    p.stores.append((d2 + '[...]', value, st))
                    p.events.append(('store', '%s[%s]' % (d2, norm(idx_) if idx_ is not None else '?'), value, st, p.loops))
                    return
                lit2 = _matrix_literal(cur)
                if lit2 is not None and isinstance(idx_, ast.Tuple) and len(idx_.elts) == 2 and isinstance(b, ast.Name) and \
                   all(isinstance(x, ast.Constant) and isinstance(x.value, int) and not isinstance(x.value, bool)
                       for x in idx_.elts) and 0 <= idx_.elts[0].value < len(lit2.elts) and \
                   0 <= idx_.elts[1].value < len(lit2.elts[idx_.elts[0].value].elts):
                    # M[i, j] = v on a small matrix known entry by entry (np.eye(n) / np.array([[...]]))
                    rows = [list(r_.elts) for r_ in lit2.elts]
                    rows[idx_.elts[0].value][idx_.elts[1].value] = value
                    p.env[d] = ast.Call(func=ast.Attribute(value=ast.Name(id='np', ctx=ast.Load()), attr='array', ctx=ast.Load()),
                                        args=[ast.List(elts=[ast.List(elts=r_, ctx=ast.Load()) for r_ in rows], ctx=ast.Load())],
                                        keywords=[])
                    return
                starred_list = isinstance(cur, (ast.List, ast.Tuple)) and any(isinstance(x, ast.Starred) for x in cur.elts)
                if cur is not None and isinstance(idx_, ast.Constant) and isinstance(idx_.value, int) and idx_.value >= 0 \
                   and isinstance(b, ast.Name) and (not isinstance(cur, (ast.List, ast.Tuple)) or starred_list):
                    # L[i] = v on a sequence known only as an expression: "L with element i replaced by v"
                    p.env[d] = ast.Call(func=ast.Name(id='_with', ctx=ast.Load()), args=[cur, idx_, value], keywords=[])
                elif cur is not None and isinstance(cur, ast.List) and isinstance(idx_, ast.Constant) and \
                        isinstance(idx_.value, int) and 0 <= idx_.value < len(cur.elts) and \
                        not any(isinstance(x, ast.Starred) for x in cur.elts) and isinstance(b, ast.Name):
                    elts = list(cur.elts)
                    elts[idx_.value] = value
                    p.env[d] = ast.List(elts=elts, ctx=ast.Load())
                elif cur is not None and idx_ is not None:
                    # element / slice store with a symbolic index: "cur updated at idx with value" - the
                    # container keeps every dependency it had and gains those of the value
                    p.env[d] = ast.Call(func=ast.Name(id='_upd', ctx=ast.Load()), args=[cur, idx_, value], keywords=[])
                else:
                    p.env.pop(d, None)      # element store: the container is no longer a known expression
                p.stores.append((d + '[...]', value, st))
                idx = norm(self.subst(target.slice, p.env)) if isinstance(target.slice, ast.AST) else '?'
                p.events.append(('store', '%s[%s]' % (d, idx), value, st, p.loops))

    def _summarise_accumulators(self, loop, before, after_paths):
        """v = init; for x in IT: v += E(x)   ==>   after the loop v is init + sum(_each(E(IT[_k])))
        on every path (also the one with zero iterations) - the same closed form a
        sum(E(x) for x in IT) gives.  Only when every path through the body adds the same E once."""
        names = {n.id for st in loop.body for n in ast.walk(st) if isinstance(n, ast.Name) and isinstance(n.ctx, ast.Store)}
        # (counters handed out with next(c) in the body count as well: c = c + 1 per call)
        cn_ = self._counter_names()
        names |= {n.args[0].id for st in loop.body for n in ast.walk(st) if isinstance(n, ast.Call) and isinstance(n.func, ast.Name)
                  and n.func.id == 'next' and len(n.args) == 1 and isinstance(n.args[0], ast.Name) and n.args[0].id in cn_}
        entered = [b for b in after_paths if b.conds[:len(before.conds)] == before.conds and
                   len(b.conds) > len(before.conds) and b.conds[len(before.conds)][0] == 'loop']
        # lists filled in the loop body: what one iteration appended stands for "each element"
        recv = {dotted(n.func.value) for st in loop.body for n in ast.walk(st) if isinstance(n, ast.Call) and
                isinstance(n.func, ast.Attribute) and n.func.attr in ('append', 'extend')}
        for v in sorted(x for x in recv if x):
            init = before.env.get(v)
            if not isinstance(init, ast.List) or not entered:
                continue
            it_ = self.subst(loop.iter, before.env)
            for b in entered:
                val = b.env.get(v)
                if b.end is not None or not isinstance(val, ast.List) or len(val.elts) < len(init.elts) or \
                   any(x is not y for x, y in zip(val.elts, init.elts)):
                    b.env.pop(v, None)
                    continue
                added = val.elts[len(init.elts):]
                new_ = []
                for x in added:
                    inner = x.value if isinstance(x, ast.Starred) else x
                    e_ = ast.Starred(value=ast.Call(func=ast.Name(id='_each', ctx=ast.Load()), args=[inner, it_], keywords=[]),
                                     ctx=ast.Load())
                    if isinstance(x, ast.Starred):
                        e_.value.args[0] = x.value      # each of (each of ...): nested
                    e_._appended = getattr(x, '_appended', False)
                    new_.append(e_)
                b.env[v] = ast.List(elts=list(init.elts) + new_, ctx=ast.Load())
        for v in names:
            init = before.env.get(v)
            if init is None or not entered:
                continue
            terms = set()
            ok = True
            for b in entered:
                val = b.env.get(v)
                if isinstance(val, ast.BinOp) and isinstance(val.op, ast.Add) and norm(val.left) == norm(init):
                    terms.add(norm(val.right))
                    term = val.right
                else:
                    ok = False
            if not ok or len(terms) != 1:
                continue
            if any(isinstance(n, ast.Name) and n.id == v for n in ast.walk(term)):
                continue
            total = ast.Call(func=ast.Name(id='sum', ctx=ast.Load()),
                             args=[ast.Call(func=ast.Name(id='_each', ctx=ast.Load()),
                                            args=[term, self.subst(loop.iter, before.env)], keywords=[])],
                             keywords=[])
            try:
                from .model import const_value
                zero = const_value(init) == 0 and not isinstance(const_value(init), (bool, str))
            except (ValueError, TypeError):
                zero = False
            new = total if zero else ast.BinOp(left=init, op=ast.Add(), right=total)
            for b in after_paths:
                if b.conds[:len(before.conds)] == before.conds and b.end is None:
                    b.env[v] = new

    def _bind_loop(self, target, it, p):
        """element of the iterable as an expression: X -> X[_kN]; zip(A, B) -> (A[_kN], B[_kN]);
        enumerate(X) -> (_kN, X[_kN])"""
        k = ast.Name(id='_k%d' % self._nloops, ctx=ast.Load())
        self._nloops += 1

        def elem(x):
            if isinstance(x, ast.BoolOp) and isinstance(x.op, ast.Or) and len(x.values) == 2 and \
               ((isinstance(x.values[1], (ast.Tuple, ast.List)) and not x.values[1].elts) or
                    (isinstance(x.values[1], ast.Constant) and x.values[1].value == '')):
                return elem(x.values[0])        # `X or ()`: the elements are those of X (nothing when X is empty / None)
            if isinstance(x, ast.Call) and isinstance(x.func, ast.Name) and x.func.id == 'zip' and not x.keywords:
                return ast.Tuple(elts=[elem(a) for a in x.args], ctx=ast.Load())
            if isinstance(x, ast.Call) and isinstance(x.func, ast.Name) and x.func.id == 'enumerate' and \
               len(x.args) == 1 and not x.keywords:
                return ast.Tuple(elts=[k, elem(x.args[0])], ctx=ast.Load())
            if isinstance(x, ast.Call) and isinstance(x.func, ast.Name) and x.func.id == 'enumerate' and \
               (len(x.args) == 2 or (len(x.args) == 1 and [kw.arg for kw in x.keywords] == ['start'])):
                start = x.args[1] if len(x.args) == 2 else x.keywords[0].value
                return ast.Tuple(elts=[ast.BinOp(left=start, op=ast.Add(), right=k), elem(x.args[0])], ctx=ast.Load())
            if isinstance(x, ast.Attribute) and x.attr == 'flat':
                return ast.Subscript(value=x.value, slice=k, ctx=ast.Load())
            if isinstance(x, ast.Call) and (dotted(x.func) or '') in ('repeat', 'itertools.repeat') and len(x.args) == 1 \
               and not x.keywords:
                return x.args[0]        # every element of repeat(v) is v
            if isinstance(x, ast.Call) and (dotted(x.func) or '') in ('pairwise', 'itertools.pairwise') and \
               len(x.args) == 1 and not x.keywords:
                # neighbours: (X[k], X[k + 1])
                return ast.Tuple(elts=[elem(x.args[0]), ast.Subscript(
                    value=x.args[0], slice=ast.BinOp(left=k, op=ast.Add(), right=ast.Constant(value=1)), ctx=ast.Load())],
                    ctx=ast.Load())
            ea = _each_of(x)
            if ea is not None:
                # iterating "each E(IT[j])": the element is E itself (its own index names stand for
                # the iteration); nested each = flattened iteration
                e_, it_ = ea
                if _each_of(e_) is not None and not isinstance(e_, (ast.List, ast.Tuple)):
                    while _each_of(e_) is not None and not isinstance(e_, (ast.List, ast.Tuple)):
                        e_ = _each_of(e_)[0]
                    return e_
                own = sorted({x_.id for x_ in ast.walk(e_) if isinstance(x_, ast.Name) and x_.id.startswith('_k')} -
                             {x_.id for x_ in ast.walk(it_) if isinstance(x_, ast.Name) and x_.id.startswith('_k')})
                if len(own) == 1:
                    # element number k of [E(IT[j]) for j]: E(IT[k]) - the same k as everything zipped with it
                    return simplify(copy_replace(e_, lambda x_: k if isinstance(x_, ast.Name) and x_.id == own[0] else None))
                return e_
            return ast.Subscript(value=x, slice=k, ctx=ast.Load())
        self._assign(target, elem(it), p, None)
        p.stores = [s_ for s_ in p.stores if s_[2] is not None]

    def _tokenize(self, v, p, st):
        """objects=True: every constructor call in the evaluated expression creates an object with an
        identity of its own (innermost first); the expression refers to it by its token"""
        if not self.objects:
            return v
        classes = self.ctx.model.classes

        def rec(n, inside=()):
            if not isinstance(n, ast.AST) or isinstance(n, (ast.Lambda, ast.GeneratorExp, ast.ListComp, ast.SetComp, ast.DictComp)):
                return n
            new = n.__class__()
            each = _is_each(n)
            for fld, val in ast.iter_fields(n):
                if isinstance(val, list):
                    if each and fld == 'args':
                        # the element of "each of IT" is created once per element of IT
                        setattr(new, fld, [rec(val[0], inside + (norm(val[1]),)), rec(val[1], inside)])
                    else:
                        setattr(new, fld, [rec(x, inside) for x in val])
                else:
                    setattr(new, fld, rec(val, inside))
            for a in ('lineno', 'col_offset', 'end_lineno', 'end_col_offset', '_appended'):
                if hasattr(n, a):
                    setattr(new, a, getattr(n, a))
            if isinstance(new, ast.Call) and isinstance(new.func, ast.Name) and new.func.id in classes:
                tok = ast.Name(id='_obj%d' % self._ntok[0], ctx=ast.Load())
                self._ntok[0] += 1
                p.events.append(('create', tok.id, new, st, tuple(p.loops) + inside))
                if not inside:
                    # a record (NamedTuple / dataclass without __init__): its fields are what it was built from
                    for fld_, val_ in record_fields(classes[new.func.id], new).items():
                        p.env['%s.%s' % (tok.id, fld_)] = val_
                return tok
            return new
        visited = []
        hit = False
        for x in _walk_unflagged(v, '_nocls'):
            visited.append(x)
            if isinstance(x, ast.Call) and isinstance(x.func, ast.Name) and x.func.id in classes:
                hit = True
                break
        if not hit:
            for x in visited:
                try:
                    x._nocls = True
                except AttributeError:
                    pass
            return v
        return rec(v)

    def _desugar_filtered(self, st, p):
        """L.extend(E(x) for x in <literal> if C(x))  /  L = [E(x) for x in <literal> if C(x)]
        as the explicit sequence  if C(x1): L.append(E(x1)) ; if C(x2): ...   (None when not of that form)"""
        comp = recv = None
        pre = []
        if isinstance(st, ast.Expr) and isinstance(st.value, ast.Call) and isinstance(st.value.func, ast.Attribute) \
           and st.value.func.attr == 'extend' and len(st.value.args) == 1 and not st.value.keywords:
            comp, recv = st.value.args[0], st.value.func.value
        elif isinstance(st, ast.Assign) and len(st.targets) == 1 and isinstance(st.targets[0], ast.Name) and \
                isinstance(st.value, ast.ListComp):
            comp, recv = st.value, ast.Name(id=st.targets[0].id, ctx=ast.Load())
            init = ast.Assign(targets=[ast.Name(id=st.targets[0].id, ctx=ast.Store())], value=ast.List(elts=[], ctx=ast.Load()))
            ast.copy_location(init, st)
            pre = [init]
        if not isinstance(comp, (ast.GeneratorExp, ast.ListComp)) or len(comp.generators) != 1 or not comp.generators[0].ifs:
            return None
        g = comp.generators[0]
        it = self.subst(g.iter, p.env)
        if not isinstance(it, (ast.Tuple, ast.List)) or len(it.elts) > 12 or any(isinstance(x, ast.Starred) for x in it.elts):
            return None
        out = list(pre)
        for item in it.elts:
            q_ = Path({}, ())
            self._assign(g.target, item, q_, None)
            bind = q_.env

            def sub(e_):
                return copy_replace(e_, lambda n_: bind[n_.id] if isinstance(n_, ast.Name) and isinstance(n_.ctx, ast.Load)
                                    and n_.id in bind else None)
            test = sub(g.ifs[0]) if len(g.ifs) == 1 else ast.BoolOp(op=ast.And(), values=[sub(c_) for c_ in g.ifs])
            app = ast.Expr(value=ast.Call(func=ast.Attribute(value=recv, attr='append', ctx=ast.Load()),
                                          args=[sub(comp.elt)], keywords=[]))
            node = ast.If(test=test, body=[app], orelse=[])
            for x_ in (app, node):
                ast.copy_location(x_, st)
            ast.fix_missing_locations(node)
            out.append(node)
        return out

    def _effect_call(self, st, p):
        """`x = self.helper(...)` / `self.helper(...)` where the helper has side effects: its stores,
        calls and events become ours (arguments substituted), one caller path per helper path"""
        call = st.value
        if not (self.effects and isinstance(call, ast.Call)):
            return None
        c2 = self.subst(call, p.env)
        if not isinstance(c2, ast.Call):
            return None
        hp = self.helper_paths(c2, p.env, with_effects=True)
        if hp is None or not any(q.stores or q.calls or q.events for q in hp):
            return None
        out = []
        for q in hp:
            p2 = p.fork()
            if any(isinstance(b, bool) and (t, not b) in p2.conds for t, b in q.conds):
                continue
            p2.conds = p2.conds + tuple(c for c in q.conds if c not in p2.conds)
            p2.stores += q.stores
            p2.asserted = getattr(p2, 'asserted', ()) + getattr(q, 'asserted', ())
            p2.calls += q.calls
            p2.events += [ev[:-1] + (p.loops + ev[-1],) for ev in q.events]
            if q.end == 'raise':
                p2._raised = True
                out.append(p2)
                continue
            if isinstance(st, ast.Assign):
                val = q.ret if q.ret is not None else ast.Constant(value=None)
                val = self._tokenize(val, p2, st)       # a record / object the helper hands back is one object
                for t in st.targets:
                    self._assign(t, val, p2, st)
            out.append(p2)
        return out

    def _generator_loop(self, st, p):
        """`for x in self._gen(...)` / `for i, x in enumerate(self._gen(...))` where the generator helper
        creates objects / stores / calls: generator and loop body run interleaved - what the generator
        does up to a yield, then the body with the yielded value (and its position), and so on.  A yield
        inside a loop of the generator stands for every element of that loop (the body's events
        carry the loop, like the creation itself).  None when the statement is not of this kind."""
        it = self.subst(st.iter, p.env)
        enum = False
        call = it
        if isinstance(it, ast.Call) and isinstance(it.func, ast.Name) and it.func.id == 'enumerate' and \
           len(it.args) == 1 and not it.keywords:
            enum, call = True, it.args[0]
        if not isinstance(call, ast.Call):
            return None
        g = self._callee(call)
        if g is None or not any(isinstance(n, (ast.Yield, ast.YieldFrom)) for n in walk_no_nested(g.node)):
            return None
        if any(isinstance(n, (ast.Break, ast.Return)) for b_ in st.body for n in ast.walk(b_)):
            return None
        # what the generator does depends on its arguments only; the same call from several caller
        # paths (alternatives, never combined) is walked once
        gcache = self.__dict__.setdefault('_gen_cache', {})
        gkey = (g.qual, norm(call), sum(1 for ev in p.events if ev[0] == 'create'))
        if gkey not in gcache:
            gcache[gkey] = self.helper_paths(call, p.env, with_effects=True)
        hp = gcache[gkey]
        if hp is None or not any(ev[0] not in ('yield', 'assert') for q in hp for ev in q.events):
            return None
        if any(ev[0] == 'yield-from' or len(ev[-1]) > 1 for q in hp for ev in q.events):
            return None
        one = ast.Constant(value=1)
        out = []
        for q in hp:
            p2 = p.fork()
            if any(isinstance(b, bool) and (t, not b) in p2.conds for t, b in q.conds):
                continue
            p2.conds = p2.conds + tuple(c for c in q.conds if c not in p2.conds)
            p2.stores += q.stores
            p2.asserted = getattr(p2, 'asserted', ()) + getattr(q, 'asserted', ())
            p2.calls += q.calls
            cur = [p2]
            count = ast.Constant(value=0)       # number of values yielded so far
            for ev in q.events:
                if ev[0] != 'yield':
                    for c_ in cur:
                        c_.events.append(ev[:-1] + (p.loops + ev[-1],))
                    continue
                v = ev[1]
                pos = count
                if ev[-1]:
                    k = ast.Name(id='_k%d' % self._nloops, ctx=ast.Load())
                    self._nloops += 1
                    pos = ast.BinOp(left=count, op=ast.Add(), right=k)
                    try:
                        lit = ast.parse(ev[-1][0], mode='eval').body
                    except SyntaxError:
                        return None
                    count = ast.BinOp(left=count, op=ast.Add(), right=ast.Call(
                        func=ast.Name(id='sum', ctx=ast.Load()),
                        args=[ast.Call(func=ast.Name(id='_each', ctx=ast.Load()), args=[one, lit], keywords=[])], keywords=[]))
                else:
                    count = ast.BinOp(left=count, op=ast.Add(), right=one)
                pos = simplify(pos)
                count = simplify(count)
                item = ast.Tuple(elts=[pos, v], ctx=ast.Load()) if enum else v
                nxt = []
                for c_ in cur:
                    c_ = c_.fork()
                    for n in ast.walk(st.target):
                        if isinstance(n, ast.Name):
                            c_.env.pop(n.id, None)
                            for k_ in [k_ for k_ in c_.env if k_.startswith(n.id + '.')]:
                                del c_.env[k_]
                    self._assign(st.target, item, c_, None)
                    c_.stores = [s_ for s_ in c_.stores if s_[2] is not None]
                    c_.events = [e_ for e_ in c_.events if not (e_[0] == 'store' and e_[3] is None)]
                    saved = c_.loops
                    c_.loops = p.loops + ev[-1]
                    for b in self._block(st.body, [c_]):
                        if b.end == 'continue':
                            b.end = None
                        b.loops = saved
                        nxt.append(b)
                cur = nxt
                if len(cur) > self.max_paths:
                    raise AnalysisError('%s: more than %d symbolic paths' % (self.func.qual, self.max_paths))
            out += cur
        return out or None

    def _counter_names(self):
        """names that only ever hold an itertools.count(...) iterator in this function: they are walked as
        the number the iterator hands out next (`c = count(s)` -> c = s ; `next(c)` -> c, then c = c + 1)"""
        if not hasattr(self, '_counters'):
            asg = {}
            for n in ast.walk(self.func.node):
                if isinstance(n, ast.Assign) and len(n.targets) == 1 and isinstance(n.targets[0], ast.Name):
                    v = n.value
                    is_count = isinstance(v, ast.Call) and (dotted(v.func) or '') in ('count', 'itertools.count') and \
                        len(v.args) <= 1 and not v.keywords
                    asg.setdefault(n.targets[0].id, []).append(is_count)
                elif isinstance(n, ast.Name) and isinstance(n.ctx, ast.Store) and not isinstance(parent(n), ast.Assign):
                    asg.setdefault(n.id, []).append(False)
            self._counters = {k for k, v in asg.items() if v and all(v)} - set(self.func.all_params)
        return self._counters

    def _desugar_stateful(self, st):
        """[statements] equivalent to st for the stateful idioms that are walked in a spelled-out form:
             D.update((k(x), v(x)) for x in IT)  ->  for x in IT: D[k(x)] = v(x)
             c = count(s)                        ->  c = s          (c: a counter name)
             ... next(c) ...                     ->  ... c ... ; c = c + 1
           None when st is none of these"""
        if isinstance(st, ast.Expr) and isinstance(st.value, ast.Call) and isinstance(st.value.func, ast.Attribute) and \
           st.value.func.attr == 'update' and len(st.value.args) == 1 and not st.value.keywords and \
           isinstance(st.value.args[0], (ast.GeneratorExp, ast.ListComp)) and len(st.value.args[0].generators) == 1 and \
           not st.value.args[0].generators[0].ifs and isinstance(st.value.args[0].elt, ast.Tuple) and \
           len(st.value.args[0].elt.elts) == 2:
            comp = st.value.args[0]
            g = comp.generators[0]
            store = ast.Assign(targets=[ast.Subscript(value=st.value.func.value, slice=comp.elt.elts[0], ctx=ast.Store())],
                               value=comp.elt.elts[1])
            loop = ast.For(target=g.target, iter=g.iter, body=[store], orelse=[])
            for x in (store, loop):
                ast.copy_location(x, st)
            ast.fix_missing_locations(loop)
            return [loop]
        if isinstance(st, ast.Expr) and isinstance(st.value, ast.Call) and isinstance(st.value.func, ast.Name) and \
           st.value.func.id == 'setattr' and len(st.value.args) == 3 and not st.value.keywords and \
           not getattr(st, '_setattr_done', False):
            # setattr(obj, <name known on this path>, v) is obj.<name> = v
            return [_SetAttr(st)]
        counters = self._counter_names()
        if not counters or not isinstance(st, (ast.Assign, ast.AugAssign, ast.Expr, ast.Return, ast.AnnAssign)):
            return None
        if isinstance(st, ast.Assign) and len(st.targets) == 1 and isinstance(st.targets[0], ast.Name) and \
           st.targets[0].id in counters and isinstance(st.value, ast.Call) and not getattr(st, '_counter_done', False):
            v = st.value.args[0] if st.value.args else ast.Constant(value=0)
            a = ast.Assign(targets=st.targets, value=v)
            ast.copy_location(a, st)
            a._counter_done = True
            return [a]
        hits = [n for n in ast.walk(st) if isinstance(n, ast.Call) and isinstance(n.func, ast.Name) and n.func.id == 'next'
                and len(n.args) == 1 and isinstance(n.args[0], ast.Name) and n.args[0].id in counters]
        if len(hits) != 1:
            return None
        nm = hits[0].args[0].id
        st2 = copy_replace(st, lambda n: ast.Name(id=nm, ctx=ast.Load()) if n is hits[0] else None)
        ast.copy_location(st2, st)
        inc = ast.Assign(targets=[ast.Name(id=nm, ctx=ast.Store())],
                         value=ast.BinOp(left=ast.Name(id=nm, ctx=ast.Load()), op=ast.Add(), right=ast.Constant(value=1)))
        ast.copy_location(inc, st)
        inc._counter_done = True
        ast.fix_missing_locations(inc)
        if isinstance(st, ast.Return):
            return None
        return [st2, inc]

    def _stmt(self, st, p):
        if isinstance(st, _SetAttr):
            obj, name, val = st.orig.value.args
            nm = simplify(self.subst(name, p.env))
            if isinstance(nm, ast.Constant) and isinstance(nm.value, str) and nm.value.isidentifier():
                a = ast.Assign(targets=[ast.Attribute(value=obj, attr=nm.value, ctx=ast.Store())], value=val)
                ast.copy_location(a, st.orig)
                ast.fix_missing_locations(a)
                return self._stmt(a, p)
            st.orig._setattr_done = True
            try:
                return self._stmt(st.orig, p)
            finally:
                st.orig._setattr_done = False
        des_ = self._desugar_stateful(st)
        if des_ is not None:
            return self._block(des_, [p])
        if isinstance(st, ast.FunctionDef):
            self.local_defs[st.name] = st
            return [p]
        if self.bind_loops and isinstance(st, (ast.Expr, ast.Assign)):
            des = self._desugar_filtered(st, p)
            if des is not None:
                return self._block(des, [p])
        if isinstance(st, (ast.Assign, ast.AugAssign, ast.AnnAssign, ast.Return, ast.Expr)):
            # a conditional expression forks the path like an if statement
            ife = None
            todo = [st]
            while todo and ife is None:
                n = todo.pop(0)
                for c in ast.iter_child_nodes(n):
                    if isinstance(c, (ast.Lambda, ast.GeneratorExp, ast.ListComp, ast.SetComp, ast.DictComp)):
                        continue
                    if isinstance(c, ast.IfExp):
                        ife = c
                        break
                    todo.append(c)
            if ife is not None:
                alt = ast.If(test=ife.test,
                             body=[copy_replace(st, lambda x: ife.body if x is ife else None)],
                             orelse=[copy_replace(st, lambda x: ife.orelse if x is ife else None)])
                ast.copy_location(alt, st)
                for b_ in alt.body + alt.orelse:
                    ast.copy_location(b_, st)
                return self._stmt(alt, p)
        if isinstance(st, (ast.Assign, ast.Expr)) and self.effects:
            r = self._effect_call(st, p)
            if r is not None:
                return r
        if isinstance(st, ast.If) and self.props and not getattr(st, '_test_done', False):
            # properties read in the test are looked through (a property with several paths forks the walk)
            alts = self.eval_expr(st.test, p)
            if len(alts) > 1 or (alts and norm(alts[0][0]) != norm(self.subst(st.test, p.env))):
                out = []
                for t_, p_ in alts:
                    st2 = ast.If(test=t_, body=st.body, orelse=st.orelse)
                    ast.copy_location(st2, st)
                    st2._test_done = True
                    out += self._stmt(st2, p_)
                return out
        if isinstance(st, ast.If):
            out = []
            test = st.test if getattr(st, '_test_done', False) else self.subst(st.test, p.env)
            for val, blk in ((True, st.body), (False, st.orelse)):
                if isinstance(test, ast.Constant) and bool(test.value) != val:
                    continue        # the test is a known constant on this path
                if isinstance(test, ast.Compare) and len(test.ops) == 1 and isinstance(test.left, ast.Constant) and \
                   isinstance(test.comparators[0], ast.Constant) and isinstance(test.ops[0], (ast.Is, ast.IsNot, ast.Eq, ast.NotEq)):
                    a_, b_ = test.left.value, test.comparators[0].value
                    same = (a_ is b_) if isinstance(test.ops[0], (ast.Is, ast.IsNot)) else (a_ == b_)
                    truth = same if isinstance(test.ops[0], (ast.Is, ast.Eq)) else not same
                    if truth != val:
                        continue
                if isinstance(test, ast.Compare) and len(test.ops) == 1 and isinstance(test.ops[0], (ast.Is, ast.IsNot)) and \
                   isinstance(test.left, ast.Name) and re.fullmatch(r'_obj\d+', test.left.id) and \
                   isinstance(test.comparators[0], ast.Constant) and test.comparators[0].value is None:
                    if isinstance(test.ops[0], ast.IsNot) != val:
                        continue    # an object created on this path is not None
                    out += self._block(blk, [p.fork()])
                    continue
                if val and ((isinstance(test, ast.Call) and isinstance(test.func, ast.Name) and test.func.id in
                             ('set', 'list', 'dict', 'tuple') and not test.args and not test.keywords) or
                            (isinstance(test, (ast.List, ast.Tuple, ast.Set)) and not test.elts) or
                            (isinstance(test, ast.Dict) and not test.keys)):
                    continue        # an empty container is false
                p2 = p.fork()
                ats = atomize(test, val)
                if any(isinstance(b, bool) and (t, not b) in p2.conds for t, b in ats):
                    continue        # contradicts a test already passed (same substituted text)
                if any(b is True and ((t.endswith(' is None') and (t[:-8], True) in p2.conds) or
                                      ((t + ' is None', True) in p2.conds)) for t, b in ats if isinstance(b, bool)):
                    continue        # "x is None" after x was found true (or the other way round): None is not true
                if any((t == 'None is None' and b is False) or
                       (t != 'None is None' and t.endswith(' is None') and b is True and
                        (t[:-8].lstrip('-').replace('.', '', 1).isdigit() or t[0] in '\'"')) for t, b in ats):
                    continue        # a constant compared with None
                p2.conds = p2.conds + tuple(a for a in ats if a not in p2.conds)
                out += self._block(blk, [p2])
            return out
        if isinstance(st, ast.For) and self.bind_loops and self.effects and not st.orelse and \
           not getattr(st, '_iter_done', False):
            r = self._generator_loop(st, p)
            if r is not None:
                return r
        if isinstance(st, ast.For) and self.bind_loops and not st.orelse and not getattr(st, '_iter_done', False):
            # the iterable with helper calls looked through; a helper with several paths forks the walk
            its = self.eval_expr(st.iter, p)
            if len(its) > 1 or (len(its) == 1 and norm(its[0][0]) != norm(self.subst(st.iter, p.env))):
                outs = []
                for it_, pp in its:
                    st2 = ast.For(target=st.target, iter=it_, body=st.body, orelse=st.orelse)
                    ast.copy_location(st2, st)
                    st2._iter_done = True
                    # the iterable is already closed: keep it from being substituted again
                    outs += self._stmt(st2, pp)
                return outs
        if isinstance(st, ast.For) and self.bind_loops and not st.orelse:
            it0 = st.iter if getattr(st, '_iter_done', False) else self.subst(st.iter, p.env)
            it0 = _literal_items(it0)
            if isinstance(it0, (ast.Tuple, ast.List)) and len(it0.elts) <= 12 and \
               not any(isinstance(x, ast.Starred) and not _is_each(x.value) for x in it0.elts):
                # a loop over a literal: executed element by element; an entry *_each(E, IT) of the
                # literal is a run of elements - the body is walked once for it, inside "each of IT"
                paths = [p]
                for item in it0.elts:
                    nxt = []
                    for q in paths:
                        if q.end is not None:
                            nxt.append(q)
                            continue
                        q = q.fork()
                        for n in ast.walk(st.target):
                            if isinstance(n, ast.Name):
                                q.env.pop(n.id, None)
                        run = None
                        if isinstance(item, ast.Starred):
                            run = norm(item.value.args[1])
                            self._assign(st.target, item.value.args[0], q, None)
                            q.conds = q.conds + (('loop', run),)
                            saved_loops = q.loops
                            q.loops = q.loops + (run,)
                            before_run = q.fork()
                        else:
                            self._assign(st.target, item, q, None)
                        q.stores = [s_ for s_ in q.stores if s_[2] is not None]
                        done = self._block(st.body, [q])
                        for b in done:
                            if b.end == 'continue':
                                b.end = None
                            if run is not None:
                                b.loops = saved_loops
                            nxt.append(b)
                        if run is not None:
                            fake = ast.For(target=st.target, iter=item.value.args[1], body=st.body, orelse=[])
                            before_run.conds = before_run.conds[:-1]
                            self._summarise_accumulators(fake, before_run, done)
                    paths = nxt
                    if len(paths) > self.max_paths:
                        raise AnalysisError('%s: more than %d symbolic paths' % (self.func.qual, self.max_paths))
                for b in paths:
                    if b.end == 'break':
                        b.end = None
                return paths
        if isinstance(st, (ast.For, ast.While)):
            starts = []
            if isinstance(st, ast.For):
                # the iterable with helper calls looked through (a helper returning a generator)
                if getattr(st, '_iter_done', False):
                    it = st.iter
                else:
                    its = self.eval_expr(st.iter, p) if self.bind_loops else [(self.subst(st.iter, p.env), p)]
                    if len(its) != 1:
                        its = [(self.subst(st.iter, p.env), p)]
                    it = its[0][0]
                loop_txt = norm(it)
                if _never_iterates(it):
                    p0 = p.fork()
                    p0.conds = p0.conds + (('loop-skipped', loop_txt),)
                    return [p0]
                p2 = p.fork()
                for n in ast.walk(st.target):
                    if isinstance(n, ast.Name):
                        p2.env.pop(n.id, None)
                        for k in [k for k in p2.env if k.startswith(n.id + '.')]:
                            del p2.env[k]
                if self.bind_loops:
                    # the element with helper calls looked through: one start per helper path
                    probe = Path(dict(p2.env), p2.conds)
                    tmp = ast.Name(id='_elem', ctx=ast.Store())
                    self._bind_loop(tmp, it, probe)
                    elem = probe.env.get('_elem')
                    p2.conds = p2.conds + (('loop', loop_txt),)
                    p2.loops = p.loops + (loop_txt,)
                    for v_, q_ in self.eval_expr(elem, p2):
                        q_ = q_.fork()
                        self._assign(st.target, v_, q_, None)
                        q_.stores = [s_ for s_ in q_.stores if s_[2] is not None]
                        q_.events = [e_ for e_ in q_.events if not (e_[0] == 'store' and e_[3] is None)]
                        starts.append(q_)
                else:
                    p2.conds = p2.conds + (('loop', loop_txt),)
                    p2.loops = p.loops + (loop_txt,)
                    starts.append(p2)
            else:
                loop_txt = norm(self.subst(st.test, p.env))
                p2 = p.fork()
                p2.conds = p2.conds + (('loop', loop_txt),)
                p2.loops = p.loops + (loop_txt,)
                starts.append(p2)
            body = self._block(st.body, [q_.fork() for q_ in starts])
            for b in body:
                b.loops = p.loops
            out = []
            for b in body:
                if b.end in ('continue', 'break'):
                    # the iteration ended early: what it did so far stays, the walk goes on after the loop
                    b.conds = b.conds + (('iteration-ended', b.end),)
                    b.end = None
                out.append(b)
            # zero iterations
            p0 = p.fork()
            p0.conds = p0.conds + (('loop-skipped', loop_txt),)
            out.append(p0)
            if self.bind_loops and isinstance(st, ast.For):
                self._summarise_accumulators(st, p, out)
            return out
        if isinstance(st, ast.Return):
            if st.value is None:
                p.end = 'return'
                return [p]
            out = []
            for v, p2 in self.eval_expr(st.value, p):
                p2.ret = v
                p2.end = 'return'
                out.append(p2)
            return out
        if isinstance(st, ast.Raise):
            p.end = 'raise'
            return [p]
        if isinstance(st, ast.Continue):
            p.end = 'continue'
            return [p]
        if isinstance(st, ast.Break):
            p.end = 'break'
            return [p]
        if isinstance(st, ast.Assign) and isinstance(st.value, ast.Call) and isinstance(st.value.func, ast.Attribute) \
           and st.value.func.attr == 'pop' and isinstance(st.value.func.value, ast.Name) and \
           st.value.func.value.id in p.env and len(st.value.args) == 1 and not st.value.keywords and \
           isinstance(st.value.args[0], ast.Constant) and st.value.args[0].value in (0, -1):
            # x = L.pop(0): x is the first element, L goes on as L[1:]   (L.pop(-1): last element, L[:-1])
            nm = st.value.func.value.id
            cur = p.env[nm]
            first = st.value.args[0].value == 0
            elem = simplify(ast.Subscript(value=cur, slice=ast.Constant(value=0 if first else -1), ctx=ast.Load()))
            rest = ast.Subscript(value=cur, slice=ast.Slice(lower=ast.Constant(value=1), upper=None, step=None) if first
                                 else ast.Slice(lower=None, upper=ast.Constant(value=-1), step=None), ctx=ast.Load())
            p.env[nm] = simplify(rest)
            for t in st.targets:
                self._assign(t, elem, p, st)
            return [p]
        if isinstance(st, ast.Assign):
            out = []
            for v, p2 in self.eval_expr(st.value, p):
                v = self._tokenize(v, p2, st)
                if isinstance(v, ast.Call):
                    p2.events.append(('call', v, st, p2.loops))
                for t in st.targets:
                    self._assign(t, v, p2, st)
                if len(st.targets) > 1 and isinstance(v, (ast.List, ast.Dict, ast.Set)):
                    # `self.x = x = []`: the name is another name of the attribute's container
                    attrs = [dotted(t) for t in st.targets if isinstance(t, ast.Attribute) and dotted(t)]
                    for t in st.targets:
                        if isinstance(t, ast.Name) and attrs:
                            p2.env['_alias:' + t.id] = ast.parse(attrs[0], mode='eval').body
                out.append(p2)
            return out
        if isinstance(st, ast.AnnAssign) and st.value is not None:
            out = []
            for v, p2 in self.eval_expr(st.value, p):
                self._assign(st.target, v, p2, st)
                out.append(p2)
            return out
        if isinstance(st, ast.AugAssign):
            out = []
            if isinstance(st.target, ast.Subscript):
                # X[i] op= v : a large old element is named, not spelled out (it would double the expression)
                cur = copy_replace(st.target, lambda n: None)
                cur.ctx = ast.Load()
                if sum(1 for _ in ast.walk(self.subst(cur, p.env))) > 150:
                    cur = ast.Name(id='_old', ctx=ast.Load())
            else:
                cur = ast.Name(id=st.target.id, ctx=ast.Load()) if isinstance(st.target, ast.Name) else \
                    copy_replace(st.target, lambda n: None)
            if hasattr(cur, 'ctx'):
                cur.ctx = ast.Load()
            e = ast.BinOp(left=cur, op=st.op, right=st.value)
            for v, p2 in self.eval_expr(e, p):
                self._assign(st.target, v, p2, st)
                out.append(p2)
            return out
        if isinstance(st, ast.Expr) and isinstance(st.value, ast.Yield):
            out = []
            val = st.value.value if st.value.value is not None else ast.Constant(value=None)
            for v, p2 in self.eval_expr(val, p):
                if self.objects:
                    v = self._tokenize(v, p2, st)
                p2.events.append(('yield', v, st, p2.loops))
                out.append(p2)
            return out
        if isinstance(st, ast.Expr) and isinstance(st.value, ast.YieldFrom) and self.bind_loops and \
           isinstance(st.value.value, ast.Call) and not getattr(st, '_yf_done', False):
            g_ = self._callee(self.subst(st.value.value, p.env)) if isinstance(self.subst(st.value.value, p.env), ast.Call) else None
            if g_ is not None and any(isinstance(n, (ast.Yield, ast.YieldFrom)) for n in walk_no_nested(g_.node)):
                # `yield from self._gen(...)` hands on every value of the sub-generator: for v in self._gen(...): yield v
                nm_ = '__yf%d' % self._nloops
                loop = ast.For(target=ast.Name(id=nm_, ctx=ast.Store()), iter=st.value.value,
                               body=[ast.Expr(value=ast.Yield(value=ast.Name(id=nm_, ctx=ast.Load())))], orelse=[])
                ast.copy_location(loop, st)
                ast.copy_location(loop.body[0], st)
                ast.fix_missing_locations(loop)
                res = self._stmt(loop, p)
                for q_ in res:
                    q_.env.pop(nm_, None)
                return res
        if isinstance(st, ast.Expr) and isinstance(st.value, ast.YieldFrom):
            out = []
            for v, p2 in self.eval_expr(st.value.value, p):
                p2.events.append(('yield-from', v, st, p2.loops))
                out.append(p2)
            return out
        if isinstance(st, ast.Expr) and isinstance(st.value, ast.Call) and isinstance(st.value.func, ast.Attribute) and \
           st.value.func.attr == 'update' and isinstance(st.value.func.value, ast.Name) and \
           _as_dict(p.env.get(st.value.func.value.id)) is not None and not st.value.args and st.value.keywords and \
           all(k_.arg is not None for k_ in st.value.keywords):
            # d.update(k=v) on a local dict known entry by entry: the dict with that entry
            nm_ = st.value.func.value.id
            cur_ = _as_dict(p.env[nm_])
            p.env[nm_] = cur_
            keys_ = list(cur_.keys)
            vals_ = list(cur_.values)
            outp = [p]
            for k_ in st.value.keywords:
                nxt_ = []
                for q_ in outp:
                    for v_, q2 in self.eval_expr(k_.value, q_):
                        nxt_.append((v_, q2))
                outp = []
                for v_, q2 in nxt_:
                    d_ = q2.env.get(nm_, cur_)
                    ks_ = [x_ for x_ in d_.keys]
                    vs_ = [x_ for x_ in d_.values]
                    hit_ = [i_ for i_, x_ in enumerate(ks_) if isinstance(x_, ast.Constant) and x_.value == k_.arg]
                    if hit_:
                        vs_[hit_[0]] = v_
                    else:
                        ks_.append(ast.Constant(value=k_.arg))
                        vs_.append(v_)
                    q2.env[nm_] = ast.Dict(keys=ks_, values=vs_)
                    outp.append(q2)
            return outp
        if isinstance(st, ast.Expr) and isinstance(st.value, ast.Call) and isinstance(st.value.func, ast.Attribute) and \
           st.value.func.attr == 'update' and isinstance(st.value.func.value, ast.Name) and \
           _as_dict(p.env.get(st.value.func.value.id)) is not None and len(st.value.args) == 1 and not st.value.keywords:
            # d.update(other) with both dicts known entry by entry (other may come from a helper: one path each)
            nm_ = st.value.func.value.id
            outp = []
            for v_, q2 in self.eval_expr(st.value.args[0], p):
                o_ = _as_dict(v_)
                cur_ = _as_dict(q2.env.get(nm_))
                if o_ is None or cur_ is None:
                    outp = None
                    break
                ks_, vs_ = list(cur_.keys), list(cur_.values)
                for k_, x_ in zip(o_.keys, o_.values):
                    hit_ = [i_ for i_, y_ in enumerate(ks_) if isinstance(y_, ast.Constant) and y_.value == k_.value]
                    if hit_:
                        vs_[hit_[0]] = x_
                    else:
                        ks_.append(k_)
                        vs_.append(x_)
                q2.env[nm_] = ast.Dict(keys=ks_, values=vs_)
                outp.append(q2)
            if outp is not None:
                return outp
        if isinstance(st, ast.Expr) and isinstance(st.value, ast.Call):
            out = []
            c0 = st.value
            keep = None
            if isinstance(c0.func, ast.Attribute) and isinstance(c0.func.value, (ast.Name, ast.Attribute)) and \
               c0.func.attr in ('append', 'extend', 'insert', 'update', 'add', 'sort', 'reverse', 'pop', 'remove', 'clear'):
                keep = dotted(c0.func.value)  # the receiver of an in-place container method stays as written
            elif isinstance(c0.func, ast.Attribute) and isinstance(c0.func.value, ast.Name):
                keep = c0.func.value.id      # the receiver of a method call statement stays a name
                cur_ = p.env.get(keep)
                if isinstance(cur_, ast.Subscript) and not isinstance(cur_.slice, ast.Slice) and \
                   isinstance(cur_.value, (ast.Name, ast.Attribute, ast.Subscript)):
                    keep = None              # ... unless it names an element: X[_k].method(...), T[key].method(...)
            for v, p2 in self.eval_expr(st.value, p if keep is None else _without(p, keep)):
                v = self._tokenize(v, p2, st)
                if keep is not None:
                    p2.env = dict(p.env) if p2.env.keys() != p.env.keys() - {keep} else p2.env
                    if keep in p.env:
                        p2.env[keep] = p.env[keep]
                    al = p.env.get('_alias:' + keep)
                    if al is not None and isinstance(v, ast.Call) and isinstance(v.func, ast.Attribute) and \
                       isinstance(v.func.value, ast.Name) and v.func.value.id == keep:
                        # the call is recorded on the attribute the name stands for
                        v = ast.Call(func=ast.Attribute(value=al, attr=v.func.attr, ctx=ast.Load()), args=v.args, keywords=v.keywords)
                p2.calls.append((v, st))
                p2.events.append(('call', v, st, p2.loops))
                fn = st.value.func
                if isinstance(fn, ast.Attribute) and fn.attr in (
                        'append', 'extend', 'insert', 'update', 'add', 'sort', 'reverse', 'pop', 'remove', 'clear'):
                    d = dotted(fn.value)
                    cur = p2.env.get(d) if d is not None else None
                    if isinstance(cur, ast.List) and fn.attr in ('append', 'extend') and len(v.args) == 1 and not v.keywords:
                        # a list literal being filled: keep it as a literal
                        a0 = v.args[0]
                        if fn.attr == 'append':
                            add = [a0]
                        elif isinstance(a0, (ast.List, ast.Tuple)):
                            add = list(a0.elts)
                        else:
                            add = [ast.Starred(value=a0, ctx=ast.Load())]
                        for x_ in add:
                            x_._appended = True     # entered the list through a recorded call
                        p2.env[d] = ast.List(elts=list(cur.elts) + add, ctx=ast.Load())
                    elif d is not None:
                        # other in-place container methods invalidate what is known about the receiver
                        p2.env.pop(d, None)
                out.append(p2)
            return out
        if isinstance(st, (ast.Try,)):
            return self._block(st.body + st.orelse + st.finalbody, [p])
        if isinstance(st, ast.With):
            return self._block(st.body, [p])
        if isinstance(st, ast.Assert):
            ats = atomize(self.subst(st.test, p.env), True)
            p.conds = p.conds + tuple(a for a in ats if a not in p.conds)
            p.asserted = getattr(p, 'asserted', ()) + tuple(a for a in ats)
            p.events.append(('assert', ats, None, st, p.loops))
            return [p]
        return [p]


def _matrix_literal(cur):
    """the nested list literal of np.eye(n) (n <= 4) / np.array([[...], ...]); None otherwise"""
    if not isinstance(cur, ast.Call):
        return None
    nm = (dotted(cur.func) or '').split('.')[-1]
    if nm in ('eye', 'identity') and len(cur.args) == 1 and not cur.keywords and isinstance(cur.args[0], ast.Constant) and \
       isinstance(cur.args[0].value, int) and 1 <= cur.args[0].value <= 4:
        n = cur.args[0].value
        return ast.List(elts=[ast.List(elts=[ast.Constant(value=1 if i == j else 0) for j in range(n)], ctx=ast.Load())
                              for i in range(n)], ctx=ast.Load())
    if nm == 'array' and len(cur.args) == 1 and not cur.keywords and isinstance(cur.args[0], ast.List) and cur.args[0].elts and \
       all(isinstance(r_, ast.List) and not any(isinstance(x, ast.Starred) for x in r_.elts) for r_ in cur.args[0].elts):
        return cur.args[0]
    return None


def _without(p, name):
    q = p.fork()
    q.env.pop(name, None)
    return q


def _subst_inner(sx, n, env2):
    new = n.__class__()
    for fld, val in ast.iter_fields(n):
        if isinstance(val, list):
            setattr(new, fld, [sx.subst(x, env2) if isinstance(x, ast.AST) else x for x in val])
        else:
            setattr(new, fld, sx.subst(val, env2) if isinstance(val, ast.AST) else val)
    return new


_IMPORTED = {}


def _imported_wrapper(m, module, name):
    """the function `name` imported into `module` from another module of the package, when it is a small
    wrapper (no loops, at most three statements); None otherwise"""
    key = (id(module), name)
    if key in _IMPORTED:
        return _IMPORTED[key]
    res = None
    for st in module.tree.body:
        if isinstance(st, ast.ImportFrom) and any((a.asname or a.name) == name for a in st.names):
            orig = [a.name for a in st.names if (a.asname or a.name) == name][0]
            src = (st.module or '').split('.')[-1]
            g = m.funcs.get('%s.%s' % (src, orig))
            if g is not None and g.cls is None:
                body = [b for b in g.body()]
                if len(body) <= 3 and not any(isinstance(n, (ast.For, ast.While, ast.Yield, ast.YieldFrom, ast.Try, ast.With))
                                              for n in ast.walk(g.node)):
                    res = g
    _IMPORTED[key] = res
    return res


def _never_iterates(it):
    """an iterable that is known to be empty: [] / () / zip(..., [], ...) / enumerate([])"""
    if isinstance(it, (ast.List, ast.Tuple)) and not it.elts:
        return True
    if isinstance(it, ast.Call) and isinstance(it.func, ast.Name) and not it.keywords:
        if it.func.id == 'zip':
            return any(_never_iterates(a) for a in it.args)
        if it.func.id in ('enumerate', 'reversed', 'iter', 'list', 'tuple', 'sorted') and it.args:
            return _never_iterates(it.args[0])
    return False


def _literal_items(it):
    """enumerate / zip / reversed of literal sequences, as the literal sequence of their items"""
    def lit(x):
        return isinstance(x, (ast.Tuple, ast.List)) and not any(isinstance(e_, ast.Starred) for e_ in x.elts)
    if isinstance(it, ast.Call) and isinstance(it.func, ast.Name) and not it.keywords:
        args = [_literal_items(a) for a in it.args]
        if it.func.id == 'enumerate' and len(args) == 1 and lit(args[0]):
            return ast.Tuple(elts=[ast.Tuple(elts=[ast.Constant(value=i), e_], ctx=ast.Load())
                                   for i, e_ in enumerate(args[0].elts)], ctx=ast.Load())
        if it.func.id == 'zip' and args and all(lit(a) for a in args):
            return ast.Tuple(elts=[ast.Tuple(elts=list(es), ctx=ast.Load())
                                   for es in zip(*[a.elts for a in args])], ctx=ast.Load())
        if it.func.id == 'reversed' and len(args) == 1 and lit(args[0]):
            return ast.Tuple(elts=list(reversed(args[0].elts)), ctx=ast.Load())
    return it


def _yielded(p):
    """what a generator yields on path p, as a sequence: [a, b, *_each(c, IT)] - a yield inside a loop
    stands for one element per element of the loop's iterable; None when that cannot be written down"""
    elts = []
    for ev in p.events:
        if ev[0] not in ('yield', 'yield-from'):
            continue
        v = ev[1]
        for loop_txt in reversed(ev[-1]):
            try:
                it = ast.parse(loop_txt, mode='eval').body
            except SyntaxError:
                return None
            v = ast.Call(func=ast.Name(id='_each', ctx=ast.Load()), args=[v, it], keywords=[])
        if ev[-1] or ev[0] == 'yield-from':
            v = ast.Starred(value=v, ctx=ast.Load())
        elts.append(v)
    if len(elts) == 1 and isinstance(elts[0], ast.Starred) and _is_each(elts[0].value):
        return elts[0].value
    if len(elts) == 1 and isinstance(elts[0], ast.Starred) and not any(ev[-1] for ev in p.events if ev[0] == 'yield-from'):
        return elts[0].value        # `yield from X` alone: the elements of X
    return ast.List(elts=elts, ctx=ast.Load())


def generator_sequences(ctx, func, **kw):
    """[(conds, sequence AST)] - what the generator function hands out on each of its paths, as a closed
    sequence expression ([a, b, *_each(E, IT)] / _each(E, IT) / X for `yield from X`)"""
    opts = dict(bind_loops=True, depth=3, max_paths=2000)
    opts.update(kw)
    out = []
    for p in SymExec(ctx, func, **opts).run():
        if p.end == 'raise':
            continue
        seq = _yielded(p)
        if seq is None:
            raise AnalysisError('%s: yielded sequence cannot be written down' % func.qual)
        out.append((p.conds, seq))
    return out


def _each_of(v):
    """(element, iterable) when v is _each(E, IT) or the list [*_each(E, IT)] / tuple(...) of it"""
    if isinstance(v, ast.Call) and isinstance(v.func, ast.Name) and v.func.id in ('tuple', 'list') and len(v.args) == 1:
        v = v.args[0]
    if isinstance(v, (ast.List, ast.Tuple)) and len(v.elts) == 1 and isinstance(v.elts[0], ast.Starred):
        v = v.elts[0].value
    if _is_each(v):
        return v.args[0], v.args[1]
    return None


_SIMPLIFY_DEPTH = 0
# functions of the repository that return one result per element of their first argument (verified by
# C19 R-EXH.elementwise on every run of that check)
ELEMENTWISE = {'format_float'}
BIG_VALUE = 4000        # nodes; larger values are kept as dependency summaries


def summarise(e):
    """_dep(<leaf atoms>): a value too large to carry around keeps what it depends on (attribute chains,
    names, loop indices, functions applied), not how"""
    leaves = {}
    todo = [e]
    seen = set()
    while todo:
        n = todo.pop()
        if id(n) in seen:
            continue
        seen.add(id(n))
        if isinstance(n, ast.Call) and isinstance(n.func, ast.Name) and n.func.id == '_dep':
            for a in n.args:
                leaves.setdefault(norm(a), a)
            continue
        if isinstance(n, ast.Attribute):
            d = dotted(n)
            if d is not None:
                leaves.setdefault(d, n)
                continue
        if isinstance(n, ast.Name):
            leaves.setdefault(n.id, n)
            continue
        todo.extend(ast.iter_child_nodes(n))
    out = ast.Call(func=ast.Name(id='_dep', ctx=ast.Load()), args=[leaves[k] for k in sorted(leaves)], keywords=[])
    out._simp = True
    out._n = 1 + len(leaves)
    return out



def _neg_const(n):
    """-3 written as UnaryOp(USub, 3) -> Constant(-3)"""
    if isinstance(n, ast.UnaryOp) and isinstance(n.op, ast.USub) and isinstance(n.operand, ast.Constant) and \
       isinstance(n.operand.value, (int, float)) and not isinstance(n.operand.value, bool):
        return ast.Constant(value=-n.operand.value)
    return None


_FRESH_K = itertools.count(9000)


def _last(func):
    d = dotted(func)
    return d.split('.')[-1] if d else None


def _stdlib_algebra(n):
    """what an application of an operator / functools / itertools building block is, written out:
         attrgetter('a.b')(x) -> x.a.b          attrgetter('a', 'b')(x) -> (x.a, x.b)
         itemgetter(i)(x) -> x[i]               methodcaller('m', *a)(x) -> x.m(*a)
         partial(f, *a, **k)(*b, **l) -> f(*a, *b, **k, **l)
         chain(A, B) -> [*A, *B]                chain.from_iterable([A, B]) -> [*A, *B]
         fmt.__mod__(x) -> fmt % x              x.__getitem__(i) -> x[i]
       (the callable may have been handed through parameters / locals before it is applied).  None otherwise."""
    if not isinstance(n, ast.Call):
        return None
    f = n.func
    if isinstance(f, ast.Name) and f.id in ('tuple', 'list') and len(n.args) == 1 and not n.keywords and _is_each(n.args[0]):
        # tuple(E(x) for x in format_float((a, b))): the element-wise formatter gives one text per entry of the literal
        e_, it_ = n.args[0].args
        if isinstance(it_, ast.Call) and isinstance(it_.func, ast.Name) and it_.func.id in ELEMENTWISE and it_.args and \
           isinstance(it_.args[0], (ast.Tuple, ast.List)) and 0 < len(it_.args[0].elts) <= 8 and \
           not any(isinstance(x, ast.Starred) for x in it_.args[0].elts):
            ittxt = norm(it_)
            ks = {x.slice.id for x in ast.walk(e_) if isinstance(x, ast.Subscript) and isinstance(x.slice, ast.Name) and
                  x.slice.id.startswith('_k') and norm(x.value) == ittxt}
            if len(ks) == 1:
                kn = ks.pop()
                elts = [simplify(copy_replace(e_, lambda y, i_=i_: ast.Constant(value=i_) if isinstance(y, ast.Name) and y.id == kn else None))
                        for i_ in range(len(it_.args[0].elts))]
                return (ast.Tuple if f.id == 'tuple' else ast.List)(elts=elts, ctx=ast.Load())
    if isinstance(f, ast.Call) and not any(isinstance(a, ast.Starred) for a in f.args):
        nm = _last(f.func)
        if nm == 'attrgetter' and f.args and not f.keywords and len(n.args) == 1 and not n.keywords and \
           all(isinstance(a, ast.Constant) and isinstance(a.value, str) for a in f.args):
            def get(path):
                v = n.args[0]
                for part in path.split('.'):
                    v = ast.Attribute(value=v, attr=part, ctx=ast.Load())
                return v
            vals = [get(a.value) for a in f.args]
            return vals[0] if len(vals) == 1 else ast.Tuple(elts=vals, ctx=ast.Load())
        if nm == 'itemgetter' and f.args and not f.keywords and len(n.args) == 1 and not n.keywords:
            vals = [ast.Subscript(value=n.args[0], slice=a, ctx=ast.Load()) for a in f.args]
            return vals[0] if len(vals) == 1 else ast.Tuple(elts=vals, ctx=ast.Load())
        if nm == 'methodcaller' and f.args and isinstance(f.args[0], ast.Constant) and isinstance(f.args[0].value, str) and \
           len(n.args) == 1 and not n.keywords:
            return ast.Call(func=ast.Attribute(value=n.args[0], attr=f.args[0].value, ctx=ast.Load()),
                            args=list(f.args[1:]), keywords=list(f.keywords))
        if nm == 'partial' and f.args:
            return ast.Call(func=f.args[0], args=list(f.args[1:]) + list(n.args), keywords=list(f.keywords) + list(n.keywords))
    if _last(f) == 'reduce' and (dotted(f) or '') in ('reduce', 'functools.reduce') and 2 <= len(n.args) <= 3 and not n.keywords \
       and _is_each(n.args[1]):
        # reduce(op, (t(x) for x in IT), init): a sum when op adds, the last term when op keeps its second argument
        op = n.args[0]
        adds = (dotted(op) or '') in ('operator.add', 'add', 'operator.iadd')
        keeps_last = False
        if isinstance(op, ast.Lambda) and len(op.args.args) == 2:
            a_, b_ = [x.arg for x in op.args.args]
            bt = norm(op.body)
            adds = adds or bt in ('%s + %s' % (a_, b_), '%s + %s' % (b_, a_))
            keeps_last = bt == b_
        if adds:
            tot = ast.Call(func=ast.Name(id='sum', ctx=ast.Load()), args=[n.args[1]], keywords=[])
            return tot if len(n.args) == 2 else ast.BinOp(left=n.args[2], op=ast.Add(), right=tot)
        if keeps_last:
            return ast.Call(func=ast.Name(id='_last_of', ctx=ast.Load()), args=list(n.args[1:]), keywords=[])
    # f(*[a, b]) -> f(a, b): a literal sequence spread over the arguments
    if any(isinstance(a, ast.Starred) and isinstance(a.value, (ast.List, ast.Tuple)) and
           not any(isinstance(x, ast.Starred) for x in a.value.elts) for a in n.args):
        args = []
        for a in n.args:
            if isinstance(a, ast.Starred) and isinstance(a.value, (ast.List, ast.Tuple)) and \
               not any(isinstance(x, ast.Starred) for x in a.value.elts):
                args += list(a.value.elts)
            else:
                args.append(a)
        return ast.Call(func=f, args=args, keywords=list(n.keywords))
    if isinstance(f, ast.Name) and f.id in ('tuple', 'list') and len(n.args) == 1 and not n.keywords and \
       isinstance(n.args[0], (ast.List, ast.Tuple)) and not any(isinstance(x, ast.Starred) for x in n.args[0].elts):
        return (ast.Tuple if f.id == 'tuple' else ast.List)(elts=list(n.args[0].elts), ctx=ast.Load())
    if isinstance(f, ast.Name) and f.id == 'zip' and len(n.args) >= 2 and not n.keywords and \
       all(isinstance(a, (ast.List, ast.Tuple)) and not any(isinstance(x, ast.Starred) for x in a.elts) for a in n.args) and \
       len({len(a.elts) for a in n.args}) == 1 and len(n.args[0].elts) <= 8:
        return ast.Tuple(elts=[ast.Tuple(elts=list(r_), ctx=ast.Load()) for r_ in zip(*[a.elts for a in n.args])], ctx=ast.Load())
    if isinstance(f, ast.Attribute) and isinstance(f.value, ast.Name) and f.value.id == 'str' and n.args and \
       f.attr in ('rstrip', 'strip', 'lstrip', 'upper', 'lower', 'ljust', 'rjust', 'format', 'join'):
        # str.m(x, ...) is x.m(...)
        return ast.Call(func=ast.Attribute(value=n.args[0], attr=f.attr, ctx=ast.Load()), args=list(n.args[1:]), keywords=list(n.keywords))
    if isinstance(f, ast.Attribute) and f.attr == '__mod__' and len(n.args) == 1 and not n.keywords:
        return ast.BinOp(left=f.value, op=ast.Mod(), right=n.args[0])
    if isinstance(f, ast.Attribute) and f.attr == '__getitem__' and len(n.args) == 1 and not n.keywords:
        return ast.Subscript(value=f.value, slice=n.args[0], ctx=ast.Load())
    nm = _last(f)
    if nm == 'chain' and isinstance(f, (ast.Name, ast.Attribute)) and (dotted(f) or '') in ('chain', 'itertools.chain') and \
       n.args and not n.keywords and not any(isinstance(a, ast.Starred) for a in n.args):
        elts = []
        for a in n.args:
            if isinstance(a, (ast.List, ast.Tuple)):
                elts += list(a.elts)
            else:
                elts.append(ast.Starred(value=a, ctx=ast.Load()))
        return ast.List(elts=elts, ctx=ast.Load())
    if nm == 'from_iterable' and (dotted(f) or '').endswith('chain.from_iterable') and len(n.args) == 1 and not n.keywords:
        a = n.args[0]
        if _is_each(a) and isinstance(a.args[0], (ast.List, ast.Tuple)):
            # for every x of IT all entries of [e1(x), e2(x), *more(x)]: kept entry by entry, each inside "each of IT"
            return ast.List(elts=[ast.Starred(value=ast.Call(func=ast.Name(id='_each', ctx=ast.Load()),
                                                             args=[x.value if isinstance(x, ast.Starred) else x, a.args[1]],
                                                             keywords=[]), ctx=ast.Load())
                                  for x in a.args[0].elts], ctx=ast.Load())
        def maybe_helper(e_):
            # a call of an own method / module function may still be looked through (a generator helper
            # becomes the literal sequence of what it yields): leave it for then
            return isinstance(e_, ast.Call) and (isinstance(e_.func, ast.Name) or (
                isinstance(e_.func, ast.Attribute) and isinstance(e_.func.value, ast.Name) and e_.func.value.id in ('self', 'cls')))
        if _is_each(a) and not isinstance(a.args[0], (ast.List, ast.Tuple)) and not maybe_helper(a.args[0]):
            # every element of every E(x), x in IT: nested each = flattened iteration
            k = ast.Name(id='_k%d' % next(_FRESH_K), ctx=ast.Load())
            inner = ast.Call(func=ast.Name(id='_each', ctx=ast.Load()),
                             args=[ast.Subscript(value=a.args[0], slice=k, ctx=ast.Load()), a.args[0]], keywords=[])
            return ast.Call(func=ast.Name(id='_each', ctx=ast.Load()), args=[inner, a.args[1]], keywords=[])
        if isinstance(a, (ast.List, ast.Tuple)) and not any(
                isinstance(x, ast.Starred) and not (_is_each(x.value) and isinstance(x.value.args[0], (ast.List, ast.Tuple)))
                for x in a.elts):
            elts = []
            for x in a.elts:
                if isinstance(x, ast.Starred):
                    # *_each([e1, e2], IT): for every element of IT the entries e1, e2
                    for y in x.value.args[0].elts:
                        elts.append(ast.Starred(value=ast.Call(func=ast.Name(id='_each', ctx=ast.Load()),
                                                               args=[y, x.value.args[1]], keywords=[]), ctx=ast.Load()))
                elif isinstance(x, (ast.List, ast.Tuple)):
                    elts += list(x.elts)
                else:
                    elts.append(ast.Starred(value=x, ctx=ast.Load()))
            return ast.List(elts=elts, ctx=ast.Load())
    return None


def simplify(e):
    """(a, b)[1] -> b   (after substitution; arithmetic is left as written: `c = E` and `c = 0 + E`
    must stay distinguishable)"""
    def fn(n):
        r_ = _stdlib_algebra(n)
        if r_ is not None:
            return simplify(r_)
        if _is_each(n) and _is_each(n.args[0]) and isinstance(n.args[0].args[1], (ast.List, ast.Tuple)) and \
           isinstance(n.args[0].args[0], ast.Subscript) and isinstance(n.args[0].args[0].slice, ast.Name) and \
           n.args[0].args[0].slice.id.startswith('_k') and norm(n.args[0].args[0].value) == norm(n.args[0].args[1]):
            # for every x of IT every entry of the literal [e1(x), e2(x), ...] (flattened): entry by entry
            lst = n.args[0].args[1]
            return ast.List(elts=[ast.Starred(value=ast.Call(func=ast.Name(id='_each', ctx=ast.Load()),
                                                             args=[x.value if isinstance(x, ast.Starred) else x, n.args[1]],
                                                             keywords=[]), ctx=ast.Load())
                                  for x in lst.elts], ctx=ast.Load())
        if isinstance(n, ast.Call) and isinstance(n.func, ast.Name) and n.func.id == 'getattr' and len(n.args) == 2 \
           and not n.keywords and isinstance(n.args[1], ast.Constant) and isinstance(n.args[1].value, str) and \
           n.args[1].value.isidentifier():
            return ast.Attribute(value=n.args[0], attr=n.args[1].value, ctx=ast.Load())
        if isinstance(n, ast.Subscript) and isinstance(n.value, (ast.Tuple, ast.List)) and isinstance(n.slice, ast.Slice) \
           and n.slice.step is None and not any(isinstance(x, ast.Starred) for x in n.value.elts) and \
           all(b_ is None or (isinstance(b_, ast.Constant) and isinstance(b_.value, int)) for b_ in (n.slice.lower, n.slice.upper)):
            lo_ = n.slice.lower.value if n.slice.lower is not None else None
            hi_ = n.slice.upper.value if n.slice.upper is not None else None
            return n.value.__class__(elts=list(n.value.elts)[lo_:hi_], ctx=ast.Load())
        if isinstance(n, ast.Call) and isinstance(n.func, ast.Name) and n.func.id == 'iter' and len(n.args) == 1 and \
           not n.keywords and isinstance(n.args[0], (ast.List, ast.Tuple)):
            return n.args[0]
        # a kind name written out from a table row compared with a kind name: 'scale' != 'scale'
        if isinstance(n, ast.Compare) and len(n.ops) == 1 and isinstance(n.ops[0], (ast.Eq, ast.NotEq)) and \
           isinstance(n.left, ast.Constant) and isinstance(n.comparators[0], ast.Constant) and \
           isinstance(n.left.value, str) and isinstance(n.comparators[0].value, str):
            eq_ = n.left.value == n.comparators[0].value
            return ast.Constant(value=eq_ if isinstance(n.ops[0], ast.Eq) else not eq_)
        if isinstance(n, ast.Call) and isinstance(n.func, ast.Name) and n.func.id == 'int' and len(n.args) == 1 and \
           not n.keywords and isinstance(n.args[0], ast.Constant) and isinstance(n.args[0].value, bool):
            return ast.Constant(value=int(n.args[0].value))
        if isinstance(n, ast.Subscript) and isinstance(n.slice, ast.BinOp) and isinstance(n.slice.op, (ast.Add, ast.Sub)) \
           and isinstance(n.slice.left, ast.Constant) and isinstance(n.slice.right, ast.Constant) and \
           isinstance(n.slice.left.value, int) and isinstance(n.slice.right.value, int):
            v_ = n.slice.left.value + n.slice.right.value if isinstance(n.slice.op, ast.Add) else \
                n.slice.left.value - n.slice.right.value
            return simplify(ast.Subscript(value=n.value, slice=ast.Constant(value=v_), ctx=ast.Load()))
        if isinstance(n, ast.Subscript) and _neg_const(n.slice) is not None:
            return simplify(ast.Subscript(value=n.value, slice=_neg_const(n.slice), ctx=ast.Load()))
        if isinstance(n, ast.Subscript) and isinstance(n.value, ast.Call) and isinstance(n.value.func, ast.Name) and \
           n.value.func.id == '_with' and len(n.value.args) == 3 and isinstance(n.slice, ast.Constant) and \
           isinstance(n.value.args[1], ast.Constant) and isinstance(n.slice.value, int) and n.slice.value >= 0 and \
           isinstance(n.value.args[1].value, int) and n.value.args[1].value >= 0:
            # element j of "L with element i replaced by v"
            base, i_, v_ = n.value.args
            if n.slice.value == i_.value:
                return simplify(v_)
            return simplify(ast.Subscript(value=base, slice=n.slice, ctx=ast.Load()))
        if isinstance(n, ast.Call) and isinstance(n.func, ast.Name) and n.func.id == 'len' and len(n.args) == 1 and \
           isinstance(n.args[0], ast.Call) and isinstance(n.args[0].func, ast.Name) and n.args[0].func.id == '_with':
            return simplify(ast.Call(func=n.func, args=[n.args[0].args[0]], keywords=[]))
        if isinstance(n, ast.Subscript) and isinstance(n.value, (ast.Tuple, ast.List)) and \
           isinstance(n.slice, ast.Constant) and isinstance(n.slice.value, int) and \
           -len(n.value.elts) <= n.slice.value < len(n.value.elts) and \
           not any(isinstance(x, ast.Starred) for x in n.value.elts):
            return simplify(n.value.elts[n.slice.value])
        if isinstance(n, ast.Call) and any(k_.arg is None for k_ in n.keywords):
            # f(a, **dict(k=v)) / f(a, **{'k': v}) / f(a, **{}): the keywords written out
            kws, changed = [], False
            for k_ in n.keywords:
                v_ = k_.value
                if k_.arg is None and isinstance(v_, ast.Call) and isinstance(v_.func, ast.Name) and v_.func.id == 'dict' and \
                   not v_.args and all(x_.arg is not None for x_ in v_.keywords):
                    kws += list(v_.keywords)
                    changed = True
                elif k_.arg is None and isinstance(v_, ast.Dict) and all(
                        isinstance(x_, ast.Constant) and isinstance(x_.value, str) and x_.value.isidentifier() for x_ in v_.keys):
                    kws += [ast.keyword(arg=x_.value, value=y_) for x_, y_ in zip(v_.keys, v_.values)]
                    changed = True
                else:
                    kws.append(k_)
            if changed:
                return simplify(ast.Call(func=n.func, args=n.args, keywords=kws))
        # S.partition(',') in terms of the fields P = S.split(','):  [0] is P[0];  [1] (the separator found) is true
        # exactly when there are at least two fields;  [2] is P[1] when there are two fields, and contains another
        # separator exactly when there are more
        def _partition_of(x_):
            if isinstance(x_, ast.Subscript) and isinstance(x_.slice, ast.Constant) and x_.slice.value in (0, 1, 2) and \
               isinstance(x_.value, ast.Call) and isinstance(x_.value.func, ast.Attribute) and x_.value.func.attr == 'partition' and \
               len(x_.value.args) == 1 and isinstance(x_.value.args[0], ast.Constant) and isinstance(x_.value.args[0].value, str) \
               and not x_.value.keywords:
                split = ast.Call(func=ast.Attribute(value=x_.value.func.value, attr='split', ctx=ast.Load()),
                                 args=[x_.value.args[0]], keywords=[])
                return split, x_.slice.value, x_.value.args[0].value
            return None
        if isinstance(n, ast.Compare) and len(n.ops) == 1 and isinstance(n.ops[0], (ast.In, ast.NotIn)) and \
           isinstance(n.left, ast.Constant) and isinstance(n.left.value, str) and isinstance(n.comparators[0], ast.Call) and \
           isinstance(n.comparators[0].func, ast.Attribute) and n.comparators[0].func.attr == 'join' and \
           isinstance(n.comparators[0].func.value, ast.Constant) and n.comparators[0].func.value.value == n.left.value and \
           len(n.comparators[0].args) == 1:
            # sep in sep.join(P[a:]) with P = S.split(sep): the fields hold no separator, so: more than one field joined
            a0 = n.comparators[0].args[0]
            if isinstance(a0, ast.Subscript) and isinstance(a0.slice, ast.Slice) and a0.slice.upper is None and a0.slice.step is None \
               and isinstance(a0.slice.lower, ast.Constant) and isinstance(a0.slice.lower.value, int) and \
               isinstance(a0.value, ast.Call) and isinstance(a0.value.func, ast.Attribute) and a0.value.func.attr == 'split' and \
               len(a0.value.args) == 1 and isinstance(a0.value.args[0], ast.Constant) and a0.value.args[0].value == n.left.value:
                ln = ast.Call(func=ast.Name(id='len', ctx=ast.Load()), args=[a0.value], keywords=[])
                return ast.Compare(left=ln, ops=[ast.Gt() if isinstance(n.ops[0], ast.In) else ast.LtE()],
                                   comparators=[ast.Constant(value=a0.slice.lower.value + 1)])
        if _partition_of(n) is not None:
            split, i_, sep_ = _partition_of(n)
            if i_ == 0:
                return ast.Subscript(value=split, slice=ast.Constant(value=0), ctx=ast.Load())
            if i_ == 1:
                return ast.Compare(left=ast.Call(func=ast.Name(id='len', ctx=ast.Load()), args=[split], keywords=[]),
                                   ops=[ast.GtE()], comparators=[ast.Constant(value=2)])
            # everything after the first separator: the remaining fields, joined again
            rest = ast.Subscript(value=split, slice=ast.Slice(lower=ast.Constant(value=1), upper=None, step=None), ctx=ast.Load())
            return ast.Call(func=ast.Attribute(value=ast.Constant(value=sep_), attr='join', ctx=ast.Load()), args=[rest], keywords=[])
        if isinstance(n, ast.Call) and isinstance(n.func, ast.Attribute) and n.func.attr == '__new__' and len(n.args) == 1 and \
           not n.keywords and norm(n.func.value) in (norm(n.args[0]), 'object'):
            return ast.Call(func=ast.Name(id='_bare', ctx=ast.Load()), args=[n.args[0]], keywords=[])
        if isinstance(n, ast.Attribute) and _is_bare(n.value):
            hit = [k_.value for k_ in n.value.keywords if k_.arg == n.attr]
            if hit:
                return simplify(hit[-1])
        if isinstance(n, ast.Call) and isinstance(n.func, ast.Name) and n.func.id == 'isinstance' and len(n.args) == 2 and \
           not n.keywords and isinstance(n.args[1], ast.Name) and n.args[1].id == 'str':
            # a helper that hands back either a value or the text of a message: which one is known per path
            x_ = n.args[0]
            is_text = (isinstance(x_, ast.Constant) and isinstance(x_.value, str)) or isinstance(x_, ast.JoinedStr) or \
                (isinstance(x_, ast.BinOp) and isinstance(x_.op, ast.Mod) and isinstance(x_.left, ast.Constant) and
                 isinstance(x_.left.value, str)) or \
                (isinstance(x_, ast.Call) and isinstance(x_.func, ast.Attribute) and x_.func.attr == 'format' and
                 isinstance(x_.func.value, ast.Constant) and isinstance(x_.func.value.value, str))
            if is_text:
                return ast.Constant(value=True)
            if (isinstance(x_, ast.Name) and re.fullmatch(r'_obj\d+', x_.id)) or \
               (isinstance(x_, ast.Constant) and not isinstance(x_.value, str)) or \
               isinstance(x_, (ast.Tuple, ast.List, ast.Dict, ast.Set)):
                return ast.Constant(value=False)
        if isinstance(n, ast.Subscript) and isinstance(n.value, ast.Dict) and isinstance(n.slice, ast.Constant) and \
           all(isinstance(k_, ast.Constant) for k_ in n.value.keys):
            hit = [v_ for k_, v_ in zip(n.value.keys, n.value.values) if k_.value == n.slice.value and
                   type(k_.value) is type(n.slice.value)]
            if len(hit) == 1:
                return simplify(hit[0])     # an entry of a constant table
        if isinstance(n, ast.Compare) and len(n.ops) == 1 and isinstance(n.ops[0], (ast.Is, ast.IsNot)) and \
           isinstance(n.left, ast.Constant) and n.left.value is None and isinstance(n.comparators[0], ast.Name) and \
           n.comparators[0].id == 'self':
            return ast.Constant(value=isinstance(n.ops[0], ast.IsNot))      # None is self: never
        if isinstance(n, ast.Compare) and len(n.ops) == 1 and isinstance(n.ops[0], (ast.Is, ast.IsNot)) and \
           isinstance(n.comparators[0], ast.Constant) and n.comparators[0].value is None:
            l_ = n.left
            never_none = (isinstance(l_, ast.Subscript) and isinstance(l_.value, ast.Call) and
                          isinstance(l_.value.func, ast.Attribute) and l_.value.func.attr == 'split') or \
                         (isinstance(l_, ast.Call) and isinstance(l_.func, ast.Name) and
                          l_.func.id in ('int', 'float', 'complex', 'str', 'len', 'bool', 'abs')) or \
                         (isinstance(l_, ast.Constant) and l_.value is not None) or \
                         (isinstance(l_, ast.BinOp) and isinstance(l_.op, (ast.Add, ast.Sub, ast.Mult, ast.Div, ast.FloorDiv,
                                                                            ast.Mod, ast.Pow))) or \
                         isinstance(l_, (ast.Tuple, ast.List, ast.Dict, ast.Set, ast.JoinedStr, ast.Compare))
            if never_none:
                return ast.Constant(value=isinstance(n.ops[0], ast.IsNot))
            if isinstance(l_, ast.Constant) and l_.value is None:
                return ast.Constant(value=isinstance(n.ops[0], ast.Is))
        if isinstance(n, ast.Call) and isinstance(n.func, ast.Attribute) and isinstance(n.func.value, ast.Name) and \
           n.func.value.id == 'operator' and len(n.args) == 2 and not n.keywords and \
           n.func.attr in ('add', 'sub', 'mul', 'truediv'):
            op_ = {'add': ast.Add, 'sub': ast.Sub, 'mul': ast.Mult, 'truediv': ast.Div}[n.func.attr]()
            return ast.BinOp(left=n.args[0], op=op_, right=n.args[1])
        if isinstance(n, (ast.List, ast.Tuple)) and any(isinstance(x, ast.Starred) and isinstance(x.value, (ast.List, ast.Tuple))
                                                     for x in n.elts):
            # [a, *[b, c], d] is [a, b, c, d]
            elts = []
            for x in n.elts:
                if isinstance(x, ast.Starred) and isinstance(x.value, (ast.List, ast.Tuple)):
                    elts += list(x.value.elts)
                else:
                    elts.append(x)
            return simplify(n.__class__(elts=elts, ctx=ast.Load()))
        if isinstance(n, ast.BinOp) and isinstance(n.op, ast.Mult) and isinstance(n.left, ast.List) and \
           isinstance(n.right, ast.Constant) and isinstance(n.right.value, int) and not isinstance(n.right.value, bool) and \
           0 <= n.right.value <= 8 and len(n.left.elts) * n.right.value <= 16 and \
           not any(isinstance(x, ast.Starred) or (isinstance(x, ast.Constant) and isinstance(x.value, str))
                   for x in n.left.elts):
            return ast.List(elts=list(n.left.elts) * n.right.value, ctx=ast.Load())      # [a, b] * 2 (not text padding)
        if isinstance(n, ast.Call) and isinstance(n.func, ast.Attribute) and isinstance(n.func.value, ast.Constant) and \
           isinstance(n.func.value.value, str) and not n.args and not n.keywords and \
           n.func.attr in ('upper', 'lower', 'strip', 'lstrip', 'rstrip', 'title', 'capitalize'):
            # a string method on a literal (built-in, nothing of the repository runs)
            return ast.Constant(value=getattr(n.func.value.value, n.func.attr)())
        if isinstance(n, ast.UnaryOp) and isinstance(n.op, ast.Not) and isinstance(n.operand, ast.Constant):
            return ast.Constant(value=not n.operand.value)
        if isinstance(n, ast.IfExp) and isinstance(n.test, ast.Constant):
            return n.body if n.test.value else n.orelse
        if isinstance(n, ast.BoolOp) and any(isinstance(v_, ast.Constant) and isinstance(v_.value, bool) for v_ in n.values):
            is_and = isinstance(n.op, ast.And)
            vals = []
            for v_ in n.values:
                if isinstance(v_, ast.Constant) and isinstance(v_.value, bool):
                    if v_.value != is_and:
                        return ast.Constant(value=v_.value)     # False in an `and`, True in an `or`
                    continue
                vals.append(v_)
            if not vals:
                return ast.Constant(value=is_and)
            if len(vals) == 1:
                return vals[0]
            if len(vals) >= 2:
                return ast.BoolOp(op=n.op, values=vals)
        if isinstance(n, ast.IfExp) and isinstance(n.test, ast.Compare) and len(n.test.ops) == 1 and \
           isinstance(n.test.left, ast.Constant) and isinstance(n.test.comparators[0], ast.Constant) and \
           isinstance(n.test.ops[0], (ast.Is, ast.IsNot)):
            same = n.test.left.value is n.test.comparators[0].value
            take = same if isinstance(n.test.ops[0], ast.Is) else not same
            return simplify(n.body if take else n.orelse)
        # a list / generator of "each element": indexing, slicing and len go through to the iterable
        ea = _each_of(n.value) if isinstance(n, ast.Subscript) else None
        if ea is not None:
            elt, it = ea
            ks = sorted({x.id for x in ast.walk(elt) if isinstance(x, ast.Name) and x.id.startswith('_k')} -
                        {x.id for x in ast.walk(it) if isinstance(x, ast.Name) and x.id.startswith('_k')})
            if len(ks) == 1 and not isinstance(n.slice, (ast.Slice, ast.Tuple)):
                # element i of [E(IT[k]) for k]: E(IT[i])
                idx = n.slice
                return simplify(copy_replace(elt, lambda x: idx if isinstance(x, ast.Name) and x.id == ks[0] else None))
            if isinstance(n.slice, ast.Slice) and n.slice.step is None and len(ks) == 1 and \
               (n.slice.lower is None or (isinstance(n.slice.lower, ast.Constant) and isinstance(n.slice.lower.value, int)
                                          and n.slice.lower.value >= 0)):
                lo_ = n.slice.lower.value if n.slice.lower is not None else 0
                if lo_:
                    # element k of the slice is element k + lo of the whole: the element expression shifts
                    shift = ast.BinOp(left=ast.Name(id=ks[0], ctx=ast.Load()), op=ast.Add(), right=ast.Constant(value=lo_))
                    elt = copy_replace(elt, lambda x: shift if isinstance(x, ast.Name) and x.id == ks[0] else None)
                    each = ast.Call(func=ast.Name(id='_each', ctx=ast.Load()),
                                    args=[simplify(elt), simplify(ast.Subscript(value=it, slice=n.slice, ctx=ast.Load()))],
                                    keywords=[])
                else:
                    each = ast.Call(func=ast.Name(id='_each', ctx=ast.Load()),
                                    args=[elt, simplify(ast.Subscript(value=it, slice=n.slice, ctx=ast.Load()))], keywords=[])
                if isinstance(n.value, ast.List):
                    return ast.List(elts=[ast.Starred(value=each, ctx=ast.Load())], ctx=ast.Load())
                return each
        if isinstance(n, ast.Call) and isinstance(n.func, ast.Name) and n.func.id == 'len' and len(n.args) == 1 and \
           not n.keywords and _each_of(n.args[0]) is not None:
            return simplify(ast.Call(func=n.func, args=[_each_of(n.args[0])[1]], keywords=[]))
        if isinstance(n, ast.Call) and any(isinstance(a, ast.Starred) and isinstance(a.value, (ast.Tuple, ast.List))
                                          and not any(isinstance(x, ast.Starred) for x in a.value.elts) for a in n.args):
            # f(*(a, b)) is f(a, b)
            args = []
            for a in n.args:
                if isinstance(a, ast.Starred) and isinstance(a.value, (ast.Tuple, ast.List)) and \
                   not any(isinstance(x, ast.Starred) for x in a.value.elts):
                    args += list(a.value.elts)
                else:
                    args.append(a)
            return simplify(ast.Call(func=n.func, args=args, keywords=n.keywords))
        if isinstance(n, ast.Subscript) and isinstance(n.value, ast.Subscript) and isinstance(n.value.slice, ast.Slice) \
           and n.value.slice.step is None and n.value.slice.upper is None and isinstance(n.value.slice.lower, ast.Constant) \
           and isinstance(n.value.slice.lower.value, int) and n.value.slice.lower.value >= 0:
            lo = n.value.slice.lower.value
            # X[a:][i] -> X[a + i] (i >= 0) ;  X[a:][-1] -> X[-1] ;  X[a:][b:] -> X[a + b:]
            if isinstance(n.slice, ast.Constant) and isinstance(n.slice.value, int):
                i = n.slice.value
                return simplify(ast.Subscript(value=n.value.value, slice=ast.Constant(value=(lo + i) if i >= 0 else i),
                                              ctx=ast.Load()))
            if isinstance(n.slice, ast.Slice) and n.slice.step is None and n.slice.upper is None and \
               isinstance(n.slice.lower, ast.Constant) and isinstance(n.slice.lower.value, int) and n.slice.lower.value >= 0:
                return simplify(ast.Subscript(value=n.value.value, slice=ast.Slice(
                    lower=ast.Constant(value=lo + n.slice.lower.value), upper=None, step=None), ctx=ast.Load()))
        if isinstance(n, ast.Subscript) and isinstance(n.value, ast.Subscript) and isinstance(n.value.slice, ast.Slice) \
           and not isinstance(n.slice, (ast.Slice, ast.Tuple)) and n.value.slice.step is None:
            sl = n.value.slice
            k_is_idx = isinstance(n.slice, ast.Name) and n.slice.id.startswith('_k')
            if k_is_idx and sl.lower is None:
                # element k of a prefix is element k of the sequence
                return simplify(ast.Subscript(value=n.value.value, slice=n.slice, ctx=ast.Load()))
            if k_is_idx and sl.upper is None and isinstance(sl.lower, ast.Constant) and isinstance(sl.lower.value, int) \
               and sl.lower.value > 0:
                return simplify(ast.Subscript(value=n.value.value, slice=ast.BinOp(left=n.slice, op=ast.Add(), right=sl.lower),
                                              ctx=ast.Load()))
        if isinstance(n, ast.Subscript) and isinstance(n.value, ast.Call) and isinstance(n.value.func, ast.Name) and \
           n.value.func.id == 'range' and isinstance(n.slice, ast.Name) and n.slice.id.startswith('_k') and \
           not n.value.keywords and len(n.value.args) in (1, 2):
            if len(n.value.args) == 1:
                return n.slice
            return ast.BinOp(left=simplify(n.value.args[0]), op=ast.Add(), right=n.slice)
        if isinstance(n, ast.Call) and isinstance(n.func, ast.Lambda) and not n.keywords and \
           not any(isinstance(a, ast.Starred) for a in n.args):
            la = n.func.args
            params = [a.arg for a in la.posonlyargs + la.args]
            if len(params) == len(n.args) and not la.vararg and not la.kwarg and not la.kwonlyargs:
                # applying a lambda that was handed in as an argument: its body with the arguments in place
                bind = dict(zip(params, n.args))
                body = copy_replace(n.func.body, lambda x: bind.get(x.id) if isinstance(x, ast.Name) and
                                    isinstance(x.ctx, ast.Load) and x.id in bind else None)
                return simplify(body)
        if isinstance(n, ast.Call) and isinstance(n.func, ast.Name) and n.func.id == 'len' and len(n.args) == 1 \
           and not n.keywords:
            a = simplify(n.args[0])
            if isinstance(a, (ast.Tuple, ast.List)) and not any(isinstance(x, ast.Starred) for x in a.elts):
                return ast.Constant(value=len(a.elts))
        if isinstance(n, ast.Call) and isinstance(n.func, ast.Name) and n.func.id in ('tuple', 'list') and \
           len(n.args) == 1 and not n.keywords:
            a = simplify(n.args[0])
            if isinstance(a, (ast.Tuple, ast.List)) and not any(isinstance(x, ast.Starred) for x in a.elts):
                cls = ast.Tuple if n.func.id == 'tuple' else ast.List
                return cls(elts=list(a.elts), ctx=ast.Load())
        if isinstance(n, ast.BinOp) and isinstance(n.op, ast.Add):
            l, r = simplify(n.left), simplify(n.right)
            if type(l) is type(r) and isinstance(l, (ast.Tuple, ast.List)) and \
               not any(isinstance(x, ast.Starred) for x in l.elts + r.elts):
                return l.__class__(elts=list(l.elts) + list(r.elts), ctx=ast.Load())
        return None
    # bottom-up: children first, then the rules on the rebuilt node (a rule that fires returns an
    # already simplified replacement)
    def up(n):
        if not isinstance(n, ast.AST):
            return n
        if getattr(n, '_simp', False):
            return n                # already in normal form (shared, never modified in place)
        new = n.__class__()
        for fld, val in ast.iter_fields(n):
            if isinstance(val, list):
                setattr(new, fld, [up(x) for x in val])
            else:
                setattr(new, fld, up(val))
        for a in ('lineno', 'col_offset', 'end_lineno', 'end_col_offset', '_appended'):
            if hasattr(n, a):
                setattr(new, a, getattr(n, a))
        r = fn(new)
        res = r if r is not None else new
        try:
            res._simp = True
            if not hasattr(res, '_n'):
                res._n = 1 + sum(getattr(c, '_n', 1) for c in ast.iter_child_nodes(res))
            if res._n > 400000:
                raise AnalysisError('symbolic expression too large (%d nodes)' % res._n)
        except AttributeError:
            pass
        return res
    global _SIMPLIFY_DEPTH
    _SIMPLIFY_DEPTH += 1
    try:
        if _SIMPLIFY_DEPTH > 60:
            return e
        return up(e)
    finally:
        _SIMPLIFY_DEPTH -= 1


def loop_transformer(ctx, func, loop, depth=2, **kw):
    """One iteration of `loop` (a statement of func's top-level body) as a state transformer.
    returns (pre, carried, body_paths, post_paths):
      pre        {name: AST} definitions reaching the loop from the statements before it (single path
                 required), i.e. the initial values
      carried    names assigned in the loop body
      body_paths Paths of one iteration run with the carried names left symbolic
      post_paths Paths of the statements after the loop, carried names symbolic"""
    body = func.body()
    if loop not in body:
        raise AnalysisError('%s: loop is not a top-level statement' % func.qual)
    k = body.index(loop)
    sx = SymExec(ctx, func, depth, **kw)
    pre_paths = [p for p in sx.run(stmts=body[:k]) if p.end is None]
    if not pre_paths:
        raise AnalysisError('%s: no path reaches the loop' % func.qual)
    # what is known before the loop: the definitions all paths agree on
    pre = dict(pre_paths[0].env)
    for q in pre_paths[1:]:
        for k_ in list(pre):
            if k_ not in q.env or norm(q.env[k_]) != norm(pre[k_]):
                del pre[k_]
    carried = {n.id for st in loop.body for n in ast.walk(st) if isinstance(n, ast.Name) and isinstance(n.ctx, ast.Store)}
    if isinstance(loop, ast.For):
        carried |= {n.id for n in ast.walk(loop.target) if isinstance(n, ast.Name)}
    # a counter iterator advanced with next() in the body is carried as well
    cn_ = sx._counter_names()
    carried |= {n.args[0].id for st in loop.body for n in ast.walk(st) if isinstance(n, ast.Call) and
                isinstance(n.func, ast.Name) and n.func.id == 'next' and len(n.args) == 1 and
                isinstance(n.args[0], ast.Name) and n.args[0].id in cn_}
    env = {k_: v for k_, v in pre.items() if k_.split('.')[0] not in carried}
    body_paths = sx.run(stmts=loop.body, env=env)
    post_paths = sx.run(stmts=body[k + 1:], env=env)
    return pre, carried, body_paths, post_paths


_MODULE_CONSTS = {}
_CLASS_CONSTS = {}


def class_constants(ctx, cls):
    """{name: literal AST} for attributes assigned once in the class body to a literal table (tuple of
    numbers / strings / tuples) and never assigned on an instance or on the class anywhere in the package"""
    key = id(cls)
    if key in _CLASS_CONSTS:
        return _CLASS_CONSTS[key]

    def literal(v):
        if isinstance(v, ast.Constant):
            return True
        if isinstance(v, ast.Tuple):
            return all(literal(x) for x in v.elts)
        if isinstance(v, ast.UnaryOp) and isinstance(v.op, (ast.USub, ast.UAdd)):
            return literal(v.operand)
        if isinstance(v, ast.Lambda) and not any(isinstance(x, ast.Name) and x.id in ('self', 'cls') for x in ast.walk(v.body)):
            return True         # a table may hold small functions
        if isinstance(v, ast.Attribute) and (dotted(v) or '').split('.')[0] in ('operator', 'np', 'math'):
            return True
        return False
    out = {}
    body = getattr(getattr(cls, 'node', None), 'body', [])
    counts = {}
    mod_funcs = {st.name for st in getattr(getattr(cls, 'module', None), 'tree', ast.Module(body=[], type_ignores=[])).body
                 if isinstance(st, ast.FunctionDef)}

    def constexpr(v):
        """text constants computed in the class body: literals, + * %, sep.join([...]), module-level helpers"""
        if literal(v):
            return True
        if isinstance(v, (ast.Tuple, ast.List)):
            return all(constexpr(x) for x in v.elts)
        if isinstance(v, ast.BinOp) and isinstance(v.op, (ast.Add, ast.Mult, ast.Mod)):
            return constexpr(v.left) and constexpr(v.right)
        if isinstance(v, ast.Call) and not v.keywords and all(constexpr(a) for a in v.args):
            if isinstance(v.func, ast.Attribute) and v.func.attr in ('join', 'ljust', 'rjust', 'rstrip'):
                return constexpr(v.func.value)
            if isinstance(v.func, ast.Name) and v.func.id in mod_funcs:
                return True
        return False
    # a constant may be built from constants defined above it in the class body (or at module level):
    # _junction_fmt = 'J ' + ' ' * 12 + _current_fmt  -  the names are written out first
    mconsts = module_constants(cls.module) if getattr(cls, 'module', None) is not None else {}
    known = {}
    body2 = []
    for st in body:
        if isinstance(st, ast.Assign) and len(st.targets) == 1 and isinstance(st.targets[0], ast.Name):
            v2 = copy_replace(st.value, lambda n_: (known.get(n_.id) if n_.id in known else mconsts.get(n_.id))
                              if isinstance(n_, ast.Name) and isinstance(n_.ctx, ast.Load) and
                              (n_.id in known or n_.id in mconsts) else None)
            st2 = ast.Assign(targets=st.targets, value=v2)
            ast.copy_location(st2, st)
            if constexpr(v2) or literal(v2):
                known[st.targets[0].id] = v2
            else:
                known.pop(st.targets[0].id, None)
            body2.append(st2)
        else:
            body2.append(st)
    for st in body2:
        if isinstance(st, ast.Assign) and len(st.targets) == 1 and isinstance(st.targets[0], ast.Name):
            counts[st.targets[0].id] = counts.get(st.targets[0].id, 0) + 1
            numv = st.value.operand if isinstance(st.value, ast.UnaryOp) and isinstance(st.value.op, (ast.USub, ast.UAdd)) \
                else st.value
            if (isinstance(st.value, ast.Tuple) and literal(st.value)) or \
               (isinstance(st.value, ast.Constant) and isinstance(st.value.value, str)) or \
               (isinstance(numv, ast.Constant) and isinstance(numv.value, (int, complex)) and
                not isinstance(numv.value, bool)) or \
               (not isinstance(st.value, ast.Constant) and constexpr(st.value) and
                (st.targets[0].id.startswith('_') or any(isinstance(x_, ast.Constant) and isinstance(x_.value, str)
                                                          for x_ in ast.walk(st.value)))):
                out[st.targets[0].id] = st.value
    out = {k: v for k, v in out.items() if counts.get(k) == 1}
    if out:
        stored = set()
        for f in ctx.model.all_funcs():
            for n in ast.walk(f.node):
                if isinstance(n, ast.Attribute) and isinstance(n.ctx, (ast.Store, ast.Del)) and n.attr in out:
                    stored.add(n.attr)
        out = {k: v for k, v in out.items() if k not in stored}
    _CLASS_CONSTS[key] = out
    return out


def module_constants(module):
    """{NAME: AST} for module-level names assigned exactly once to a literal (number, string, tuple of
    literals, arithmetic of literals)"""
    key = id(module)
    if key in _MODULE_CONSTS:
        return _MODULE_CONSTS[key]
    counts = {}
    vals = {}
    for st in module.tree.body:
        if isinstance(st, ast.Assign) and len(st.targets) == 1 and isinstance(st.targets[0], ast.Name):
            nm = st.targets[0].id
            counts[nm] = counts.get(nm, 0) + 1
            vals[nm] = st.value
        elif isinstance(st, (ast.AugAssign, ast.AnnAssign)) and isinstance(getattr(st, 'target', None), ast.Name):
            counts[st.target.id] = counts.get(st.target.id, 0) + 2

    def literal(v):
        if isinstance(v, ast.Constant):
            return True
        if isinstance(v, (ast.Tuple,)):
            return all(literal(x) for x in v.elts)
        if isinstance(v, ast.UnaryOp) and isinstance(v.op, (ast.USub, ast.UAdd)):
            return literal(v.operand)
        return False
    # tables (tuples) and strings always; plain numbers only under private names: public numeric
    # constants (mu_0, epsilon_0 ...) are physical quantities that formulas refer to by name
    def whole(v):
        # (whole numbers under public names are indices / counts / signs - END_1 = 0, SGN_REVERSE = -1 -, not physics)
        if isinstance(v, ast.UnaryOp):
            v = v.operand
        return isinstance(v, ast.Constant) and isinstance(v.value, int) and not isinstance(v.value, bool)
    out = {nm: v for nm, v in vals.items() if counts.get(nm) == 1 and literal(v) and
           (isinstance(v, ast.Tuple) or (isinstance(v, ast.Constant) and isinstance(v.value, str)) or nm.startswith('_')
            or whole(v))}
    # tables kept as dicts with literal keys and values (NAME = dict(a=(1, 2), ...) / {...}), never changed in the module
    for nm, v in vals.items():
        if counts.get(nm) != 1 or nm in out:
            continue
        d = None
        if isinstance(v, ast.Call) and isinstance(v.func, ast.Name) and v.func.id == 'dict' and not v.args and v.keywords and \
           all(k_.arg is not None and literal(k_.value) for k_ in v.keywords):
            d = ast.Dict(keys=[ast.Constant(value=k_.arg) for k_ in v.keywords], values=[k_.value for k_ in v.keywords])
        elif isinstance(v, ast.Dict) and v.keys and all(k_ is not None and isinstance(k_, ast.Constant) for k_ in v.keys) and \
                all(literal(x_) for x_ in v.values):
            d = v
        if d is None:
            continue
        touched = False
        for x_ in ast.walk(module.tree):
            if isinstance(x_, ast.Name) and x_.id == nm and isinstance(x_.ctx, ast.Load):
                par = parent(x_)
                if isinstance(par, ast.Subscript) and par.value is x_ and isinstance(par.ctx, ast.Load):
                    continue
                if isinstance(par, (ast.For, ast.comprehension)) and par.iter is x_:
                    continue
                if isinstance(par, ast.Compare) and x_ in par.comparators:
                    continue
                touched = True      # handed on, a method called on it, stored into: may be changed
        if not touched:
            out[nm] = d
    # private names computed once from literals, other constants and module-level functions
    # (_ROW = '%s ' * 4, _ZERO = sep.join(['E '] + ['0'] * 4), _HEAD = 'A%sB' % _spaces(3, 4))
    funcs = {st.name for st in module.tree.body if isinstance(st, ast.FunctionDef)}

    def resolve(v, busy):
        """v with constant names replaced, or None when v is not a constant expression"""
        if isinstance(v, ast.Constant):
            return v
        if isinstance(v, (ast.Tuple, ast.List)):
            el = [resolve(x, busy) for x in v.elts]
            return None if any(x is None for x in el) else v.__class__(elts=el, ctx=ast.Load())
        if isinstance(v, ast.BinOp) and isinstance(v.op, (ast.Add, ast.Mult, ast.Mod, ast.Sub)):
            a, b = resolve(v.left, busy), resolve(v.right, busy)
            return None if a is None or b is None else ast.BinOp(left=a, op=v.op, right=b)
        if isinstance(v, ast.UnaryOp) and isinstance(v.op, (ast.USub, ast.UAdd)):
            a = resolve(v.operand, busy)
            return None if a is None else ast.UnaryOp(op=v.op, operand=a)
        if isinstance(v, ast.Attribute) and (dotted(v) or '') in ('np.pi', 'numpy.pi', 'math.pi', 'np.e', 'math.e'):
            return v
        if isinstance(v, ast.BinOp) and isinstance(v.op, (ast.Div, ast.Pow)):
            a, b = resolve(v.left, busy), resolve(v.right, busy)
            return None if a is None or b is None else ast.BinOp(left=a, op=v.op, right=b)
        if isinstance(v, ast.Name):
            if v.id in out:
                return out[v.id]
            if v.id in busy or counts.get(v.id) != 1 or not v.id.startswith('_'):
                return None
            r = resolve(vals[v.id], busy | {v.id})
            return r
        if isinstance(v, ast.Call) and not v.keywords and not any(isinstance(a, ast.Starred) for a in v.args):
            args = [resolve(a, busy) for a in v.args]
            if any(a is None for a in args):
                return None
            if isinstance(v.func, ast.Name) and v.func.id in funcs:
                return ast.Call(func=v.func, args=args, keywords=[])
            if (dotted(v.func) or '') in ('np.array', 'numpy.array'):
                return ast.Call(func=v.func, args=args, keywords=[])
            if isinstance(v.func, ast.Attribute) and v.func.attr in ('join', 'rstrip', 'ljust', 'rjust'):
                base = resolve(v.func.value, busy)
                if base is not None:
                    return ast.Call(func=ast.Attribute(value=base, attr=v.func.attr, ctx=ast.Load()), args=args, keywords=[])
        return None
    for nm, v in vals.items():
        if nm in out or counts.get(nm) != 1 or not nm.startswith('_') or isinstance(v, ast.Constant):
            continue
        r = resolve(v, frozenset([nm]))
        if r is not None and sum(1 for _ in ast.walk(r)) <= 400:
            out[nm] = r
    _MODULE_CONSTS[key] = out
    return out


def record_fields(cls, call):
    """{field: argument} of the creation `call` of a record class (NamedTuple base, or a dataclass without an
    __init__ of its own); {} for any other class or a call that is not understood"""
    node = cls.node
    is_nt = any((b or '').split('.')[-1] == 'NamedTuple' for b in cls.base_names)
    is_dc = any((dotted(d.func if isinstance(d, ast.Call) else d) or '').split('.')[-1] == 'dataclass'
                for d in node.decorator_list)
    if not (is_nt or is_dc) or '__init__' in cls.methods or '__new__' in cls.methods or \
       (is_dc and '__post_init__' in cls.methods):
        return {}
    fields, defaults = [], {}
    for st in node.body:
        if isinstance(st, ast.AnnAssign) and isinstance(st.target, ast.Name) and \
           'ClassVar' not in ast.dump(st.annotation):
            fields.append(st.target.id)
            if st.value is not None:
                defaults[st.target.id] = st.value
    if any(isinstance(a, ast.Starred) for a in call.args) or any(k.arg is None for k in call.keywords) or \
       len(call.args) > len(fields):
        return {}
    out = dict(defaults)
    for f_, a in zip(fields, call.args):
        out[f_] = a
    for k in call.keywords:
        if k.arg not in fields:
            return {}
        out[k.arg] = k.value
    return out if set(out) == set(fields) else {}


def _as_dict(v):
    """the dict display for a dict known entry by entry ({'k': v} / dict(k=v) / {}), None otherwise"""
    if isinstance(v, ast.Dict) and all(isinstance(k_, ast.Constant) for k_ in v.keys):
        return v
    if isinstance(v, ast.Call) and isinstance(v.func, ast.Name) and v.func.id == 'dict' and not v.args and \
       all(k_.arg is not None for k_ in v.keywords):
        return ast.Dict(keys=[ast.Constant(value=k_.arg) for k_ in v.keywords], values=[k_.value for k_ in v.keywords])
    return None


def _is_bare(v):
    """_bare(Cls, attr=value, ...): an object made with Cls.__new__(Cls) and the attributes given to it since"""
    return isinstance(v, ast.Call) and isinstance(v.func, ast.Name) and v.func.id == '_bare'


def _walk_unflagged(root, flag):
    """like ast.walk, without descending into subtrees that carry the attribute `flag`"""
    todo = [root]
    while todo:
        n = todo.pop()
        if getattr(n, flag, False):
            continue
        yield n
        todo.extend(ast.iter_child_nodes(n))


def _is_each(e):
    return isinstance(e, ast.Call) and isinstance(e.func, ast.Name) and e.func.id == '_each' and len(e.args) == 2


def line_exprs(path, with_iter=False):
    """expressions that become lines / rows on this path: X.append(E), the elements of X.extend(...),
    the entries of the list literal that is joined, the element E of a joined / extended
    comprehension (then the third item is the iterable it ranges over), a returned format.
    returns [(expr, stmt or None)] or, with_iter, [(expr, stmt or None, iterable AST or None)]"""
    out = []

    def add(e, st):
        if isinstance(e, ast.Starred):
            e = e.value
        it = None
        while _is_each(e):
            # each of (each of ...): the line itself, ranging over the innermost collection
            it, e = e.args[1], e.args[0]
            if isinstance(e, ast.Starred):
                e = e.value
        out.append((e, st, it))
    for c, st in path.calls:
        if not isinstance(c, ast.Call):
            continue
        if isinstance(c.func, ast.Attribute) and c.func.attr in ('append', 'extend') and len(c.args) == 1:
            a0 = c.args[0]
            if c.func.attr == 'extend' and isinstance(a0, (ast.List, ast.Tuple)):
                for x in a0.elts:
                    add(x, st)
            else:
                add(a0, st)
        elif isinstance(c.func, ast.Attribute) and c.func.attr == 'insert' and len(c.args) == 2:
            add(c.args[1], st)
    if path.ret is not None:
        joins = [n for n in ast.walk(path.ret) if isinstance(n, ast.Call) and isinstance(n.func, ast.Attribute)
                 and n.func.attr == 'join' and len(n.args) == 1]
        # a join without a newline inside an entry of another join puts pieces of ONE line together
        inner = set()
        for n in joins:
            for x in ast.walk(n.args[0]):
                if x is not n and isinstance(x, ast.Call) and isinstance(x.func, ast.Attribute) and x.func.attr == 'join' and \
                   isinstance(x.func.value, ast.Constant) and isinstance(x.func.value.value, str) and '\n' not in x.func.value.value:
                    inner.add(id(x))
        joins = [n for n in joins if id(n) not in inner]
        # a value assembled by joins that put no line break in (' '.join((title, row))) is one line itself
        if joins and all(isinstance(n.func.value, ast.Constant) and isinstance(n.func.value.value, str) and
                         '\n' not in n.func.value.value and n.func.value.value != '' for n in joins) and \
           not any(isinstance(n.args[0], ast.List) and any(getattr(x, '_appended', False) for x in n.args[0].elts) for n in joins):
            joins = []
        for n in joins:
            a0 = n.args[0]
            if isinstance(a0, ast.List):
                # entries of the list literal the writer started from (r = [first, second]); entries
                # that came in through append / extend are marked and already counted
                for x in a0.elts:
                    if getattr(x, '_appended', False):
                        continue
                    add(x, None)
            elif _is_each(a0):
                add(a0, None)
        if not joins:
            add(path.ret, None)
    if with_iter:
        return out
    return [(e, st) for e, st, it in out]


def canon_k(text):
    """renumber the loop-element indices _kN in order of appearance (texts from different walks compare)"""
    import re
    seen = {}

    def rep(mo):
        return seen.setdefault(mo.group(0), '_k%d' % len(seen))
    return re.sub(r'_k\d+', rep, text)


def leading_literal(e):
    """the literal text a string-valued expression starts with (None when it cannot be told)"""
    if isinstance(e, ast.Constant) and isinstance(e.value, str):
        return e.value
    if isinstance(e, (ast.Call, ast.BinOp)) and not isinstance(getattr(e, 'op', None), ast.Mod):
        try:
            t = fold_text(e)
            if isinstance(t, str):
                return t
        except ValueError:
            pass
    if isinstance(e, ast.BinOp) and isinstance(e.op, (ast.Add, ast.Mod, ast.Mult)):
        l = leading_literal(e.left)
        if l == '' and isinstance(e.op, ast.Add):
            return leading_literal(e.right)
        return l
    if isinstance(e, ast.JoinedStr) and e.values:
        v = e.values[0]
        return v.value if isinstance(v, ast.Constant) else None
    if isinstance(e, ast.Call) and isinstance(e.func, ast.Attribute) and e.func.attr == 'join' and len(e.args) == 1:
        a = e.args[0]
        while isinstance(a, ast.BinOp) and isinstance(a.op, (ast.Add, ast.Mult)):
            a = a.left
        if isinstance(a, (ast.List, ast.Tuple)) and a.elts:
            return leading_literal(a.elts[0])
        return None
    if isinstance(e, ast.Call) and isinstance(e.func, ast.Attribute) and e.func.attr in (
            'rstrip', 'ljust', 'upper', 'format'):
        return leading_literal(e.func.value)
    return None


def fold_text(e):
    """constant folding of literal-only string / list expressions (static, nothing is executed from
    the repository): + * on str / list / int, sep.join(list), tuples; raises ValueError otherwise"""
    if isinstance(e, ast.Constant):
        return e.value
    if isinstance(e, (ast.List, ast.Tuple)):
        vals = [fold_text(x) for x in e.elts]
        return vals if isinstance(e, ast.List) else tuple(vals)
    if isinstance(e, ast.BinOp) and isinstance(e.op, (ast.Add, ast.Mult)):
        a, b = fold_text(e.left), fold_text(e.right)
        ok_add = isinstance(e.op, ast.Add) and type(a) is type(b) and isinstance(a, (str, list, tuple, int, float))
        ok_mul = isinstance(e.op, ast.Mult) and ((isinstance(a, (str, list, tuple)) and isinstance(b, int) and 0 <= b <= 200)
                                                 or (isinstance(b, (str, list, tuple)) and isinstance(a, int) and 0 <= a <= 200)
                                                 or (isinstance(a, (int, float)) and isinstance(b, (int, float))))
        if ok_add:
            return a + b
        if ok_mul:
            return a * b
        raise ValueError(norm(e))
    if isinstance(e, ast.Call) and isinstance(e.func, ast.Attribute) and e.func.attr == 'join' and len(e.args) == 1:
        sep = fold_text(e.func.value)
        items = fold_text(e.args[0])
        if isinstance(sep, str) and isinstance(items, (list, tuple)) and all(isinstance(x, str) for x in items):
            return sep.join(items)
    raise ValueError(norm(e))


def row_values(e):
    """value expressions written into a row: right side of a %-format, the items of sep.join(...),
    the fields of an f-string; None when e is not such a row"""
    from .fmt import written_values
    if isinstance(e, ast.Call) and isinstance(e.func, ast.Attribute) and e.func.attr in ('rstrip', 'strip') :
        return row_values(e.func.value)
    if isinstance(e, ast.BinOp) and isinstance(e.op, ast.Mod):
        return written_values(e.right)
    if isinstance(e, ast.BinOp) and isinstance(e.op, ast.Add):
        # literal text + formatted part (+ ...): the values of the formatted parts
        l_, r_ = row_values(e.left), row_values(e.right)
        if l_ is not None or r_ is not None:
            return (l_ or []) + (r_ or [])
    if isinstance(e, ast.Call) and isinstance(e.func, ast.Attribute) and e.func.attr == 'join' and len(e.args) == 1:
        if isinstance(e.args[0], (ast.Tuple, ast.List)) and any(
                isinstance(x, ast.JoinedStr) or (isinstance(x, ast.BinOp) and isinstance(x.op, ast.Mod))
                for x in e.args[0].elts):
            # pieces of one line, some of them formatted themselves: the values of those pieces (literal pieces are text)
            vals = []
            for x in e.args[0].elts:
                sub = row_values(x) if not isinstance(x, ast.Constant) else []
                vals += sub if sub is not None else [x]
            return vals
        return written_values(e.args[0])
    if isinstance(e, ast.JoinedStr):
        return [v.value for v in e.values if isinstance(v, ast.FormattedValue)]
    if isinstance(e, ast.Call) and isinstance(e.func, ast.Attribute) and e.func.attr == 'format' and not e.keywords and \
       isinstance(e.func.value, ast.Constant) and isinstance(e.func.value.value, str):
        # 'template {} {}'.format(a, b): the positional values (a starred literal is spread)
        vals = []
        for a in e.args:
            if isinstance(a, ast.Starred):
                if isinstance(a.value, (ast.Tuple, ast.List)):
                    vals += list(a.value.elts)
                else:
                    vals += written_values(a.value)
            else:
                vals.append(a)
        return vals
    return None


def closed_returns(ctx, func, **kw):
    """[(conds, closed returned expression)] for every path of func that returns a value: temporaries,
    private helpers (also handed in as callables), and - with props=True - simple properties of the
    own class are resolved"""
    opts = dict(bind_loops=True, depth=3, max_paths=2000)
    opts.update(kw)
    out = []
    for p in SymExec(ctx, func, **opts).run():
        if p.end == 'return' and p.ret is not None:
            out.append((p.conds, p.ret))
    return out


def unwrap_formatted(v):
    """the number behind formatting wrappers:  format_float((a, b))[1].rstrip() -> b ;  str(x) -> x"""
    while True:
        if isinstance(v, ast.Call) and isinstance(v.func, ast.Attribute) and v.func.attr in ('rstrip', 'strip', 'lstrip', 'ljust', 'rjust'):
            v = v.func.value
            continue
        if isinstance(v, ast.Subscript) and isinstance(v.slice, ast.Constant) and isinstance(v.slice.value, int) and \
           isinstance(v.value, ast.Call) and isinstance(v.value.func, ast.Name) and v.value.func.id in ('format_float', '_fmt1') \
           and v.value.args and isinstance(v.value.args[0], (ast.Tuple, ast.List)) and \
           -len(v.value.args[0].elts) <= v.slice.value < len(v.value.args[0].elts):
            v = v.value.args[0].elts[v.slice.value]
            continue
        if isinstance(v, ast.Call) and isinstance(v.func, ast.Name) and v.func.id in ('str', 'float', 'int') and len(v.args) == 1:
            v = v.args[0]
            continue
        if isinstance(v, ast.BinOp) and isinstance(v.op, ast.Add):
            # a column followed / preceded by a literal separator
            if isinstance(v.right, ast.Constant) and isinstance(v.right.value, str):
                v = v.left
                continue
            if isinstance(v.left, ast.Constant) and isinstance(v.left.value, str):
                v = v.right
                continue
        return v
