#!/bin/sh
# every stored behaviour-preserving refactoring: scratch worktree of /repo HEAD with the patch (PMV_REPO), all quick
# checks, worktree removed.  /repo itself is never touched.  Any VIOLATION is a false alarm; ANALYSIS-ERROR means
# a construct was not understood (fail-closed).   usage: tools/refactor_all.sh [id ...]
cd "$(dirname "$0")/.."
ids="$*"
[ -z "$ids" ] && ids=$(ls seeded/refactors)
one() {
  id=$1; d=seeded/refactors/$id
  SEED_JOBS=6 python3 tools/seed_eval.py "$id" "$d" --refactor --skip-verify 2>&1 | grep -E "^\{|FAIL|ANALYSIS" | cut -c1-260
  if [ -d "seeded/$id" ]; then cp "seeded/$id/meta.json" "$d/meta.json"; rm -rf "seeded/$id"; fi
}
n=0
for id in $ids; do
  one "$id" > /tmp/refactor_$id.out 2>&1 &
  n=$((n+1))
  if [ $((n % 3)) -eq 0 ]; then wait; fi
done
wait
for id in $ids; do cat /tmp/refactor_$id.out; rm -f /tmp/refactor_$id.out; done
