MUTANTS = [
    ('load imaginary after literal plus', [('mininec.Impedance_Load.as_cmdline', "ld += '%+gj' % self._impedance.imag", "ld += '+%gj' % self._impedance.imag")], ['conversion']),
    ('taper written by position', [('mininec.Wire.as_cmdline', "tpr = '--taper-wire=%d,%d' % (self.tag, self.segtype)", "tpr = '--taper-wire=%d,%d' % (self.n + 1, self.segtype)")], ['tag-field']),
    ('attach by geo written by position', [('mininec._Load.as_cmdline_load_attach', "% (self.n + 1, pulse.n + 1, pulse.geobj.tag)", "% (self.n + 1, pulse.n + 1, pulse.geobj.n + 1)")], ['tag-field']),
    ('attach all written by position', [('mininec._Load.as_cmdline_load_attach', "r.append ('--attach-load=%d,all,%d' % (self.n + 1, w.tag))", "r.append ('--attach-load=%d,all,%d' % (self.n + 1, w.n + 1))")], ['tag-field']),
    ('skin effect tag by position', [('mininec.Skin_Effect_Load.as_cmdline', "s = s + ',%d' % self.geobj.tag", "s = s + ',%d' % (self.geobj.n + 1)")], ['tag-field']),
    ('excitation pulse tag by position', [('mininec.Excitation.as_cmdline', "% (self.geo_idx + 1, self.geo_tag)", "% (self.geo_idx + 1, self.parent.geo.by_tag [self.geo_tag].n + 1)")], ['tag-field']),
    ('unregistered option', [('mininec.Medium.as_cmdline', "r.append ('--radial-radius=%g' % self.radius)", "r.append ('--radial-wire-radius=%g' % self.radius)")], ['registered']),
    ('one field too many', [('mininec.Insulation_Load.as_cmdline', "s = '--insulation-load=%g,%g' % (self.radius, self.epsilon_r)", "s = '--insulation-load=%g,%g,%g' % (self.radius, self.epsilon_r, self.epsilon)")], ['arity', 'tag-field']),
    ('arc without radius field', [('mininec.Arc.as_cmdline', "r.append ('-a %d,%.11g,%.11g,%.11g,%.11g' % tpl)", "r.append ('-a %d,%.11g,%.11g,%.11g' % tpl [:4])")], ['arity']),
    ('theta count as float', [('mininec.Mininec.as_cmdline', "r.append ('--theta=%g,%g,%d' % (zen.initial, zen.inc, zen.number))", "r.append ('--theta=%g,%g,%g' % (zen.initial, zen.inc, zen.number))")], ['conversion']),
    ('pairing dropped', [('mininec.Excitation.as_cmdline', "if self.voltage != 1+0j or explicit:", "if self.voltage != 1+0j:")], ['paired']),
    ('per tag loads deduplicated', [('mininec.Mininec.as_cmdline', "                and l.all_wires and key in loads", "                and key in loads")], ['writer-loops']),
    ('sources skipped when default', [('mininec.Mininec.as_cmdline', "        for s in self.sources:\n            cm = s.as_cmdline (explicit = len (self.sources) > 1)", "        for s in self.sources [:1]:\n            cm = s.as_cmdline (explicit = len (self.sources) > 1)")], ['writer-loops', 'element loops']),
    ('scale not recorded', [('mininec.Geo_Container.scale', "        self.scales.append ((factor, tag))\n", "")], ['writer-loops', 'recorded']),
    ('medium coordinate only for the first medium', [('mininec.Medium.as_cmdline', "        if self.next:\n            v += ',%g' % self.coord", "        if self.next and not self.prev:\n            v += ',%g' % self.coord")], ['medium-interface']),
    ('boundary not written', [('mininec.Medium.as_cmdline', "            if self.next:\n                r.append ('--boundary=%s' % self.boundary)\n", "")], ['medium-interface']),
]
REFACTORS = [
    ('taper tag via local', [('mininec.Wire.as_cmdline', "tpr = '--taper-wire=%d,%d' % (self.tag, self.segtype)", "t = self.tag\n            tpr = '--taper-wire=%d,%d' % (self.tag, self.segtype)")]),
    ('load written in one format', [('mininec.Impedance_Load.as_cmdline', "        ld = '--load=%g' % self._impedance.real\n        if self._impedance.imag:\n            ld += '%+gj' % self._impedance.imag", "        ld = '--load=%g%+gj' % (self._impedance.real, self._impedance.imag)")]),
    ('medium writer early return for the last medium', [('mininec.Medium.as_cmdline', "        if self.next:\n            v += ',%g' % self.coord\n        r.append (v)", "        v += ',%g' % self.coord if self.next else ''\n        r.append (v)")]),
]
