"""Pulse addressing in Mininec.register_source / register_load, on the symbolic walk.

Both functions are walked with their private helpers looked through (also helpers that receive
message callables, that return the looked-up object, that return the index).  On every path that
returns normally we read off
  - which pulse is registered / loaded, as a closed expression over the parameters,
  - the tests passed on the way (range checks, tag lookups).
R-KIND.registered-index : the registered pulse is `pulse` itself without a tag and
                          `<by_tag[geo_tag]>.pulses[pulse].idx` with one.
R-BOUNDS.pulse-index    : every `<X>.pulses[<user number>]` read on a normally returning path is preceded
                          by a range check of that number against the length of the very same list.
"""
import ast
import re
from ..model import AnalysisError, norm
from ..symx import SymExec

SRC = 'mininec.Mininec.register_source'
LOAD = 'mininec.Mininec.register_load'


def norm_obj(t):
    """by_tag.get(k) and by_tag[k] name the same object"""
    prev = None
    while prev != t:
        prev = t
        t = re.sub(r'\.by_tag\.get\(((?:[^()]|\([^()]*\))*)\)', r'.by_tag[\1]', t)
    return t


def paths_of(ctx, q):
    cache = ctx.__dict__.setdefault('_addr_paths', {})
    if q not in cache:
        f = ctx.func(q)
        cache[q] = (f, [p for p in SymExec(ctx, f, bind_loops=True, effects=True,
                                            max_paths=5000, depth=3).run() if p.end != 'raise'])
    return cache[q]


def cond_value(p, text):
    vals = [b for t, b in p.conds if t == text and isinstance(b, bool)]
    return vals[-1] if vals else None


def _calls(p, attr):
    return [ev[1] for ev in p.events if ev[0] == 'call' and isinstance(ev[1], ast.Call) and
            isinstance(ev[1].func, ast.Attribute) and ev[1].func.attr == attr]


def check_registered_index(ctx, ck, rule='R-KIND.registered-index'):
    f, paths = paths_of(ctx, SRC)
    forms = {}
    n_reg = 0
    for p in paths:
        regs = _calls(p, 'register')
        if len(regs) != 1 or len(regs[0].args) < 2:
            forms.setdefault('?', set()).add('%d source.register calls on a path' % len(regs))
            continue
        n_reg += 1
        tagged = cond_value(p, 'geo_tag is None')
        arg = norm_obj(norm(regs[0].args[1]))
        forms.setdefault('absolute' if tagged else ('tagged' if tagged is False else '?'), set()).add(arg)
    if not n_reg:
        raise AnalysisError('%s: no path registers the source' % SRC)
    want = {'absolute': {'pulse'}, 'tagged': {'self.geo.by_tag[geo_tag].pulses[pulse].idx'}}
    for k in ('tagged', 'absolute'):
        got = forms.get(k, set())
        ck.ob(rule, '%s|%s' % (SRC, k), got == want[k], f.loc(), 'registers %s' % sorted(got))
    ck.ob(rule, SRC + '|both-forms', set(forms) == {'tagged', 'absolute'}, f.loc(),
          'tagged and absolute forms both present: %s' % {k: sorted(v) for k, v in forms.items()})
    # register_load
    g, lpaths = paths_of(ctx, LOAD)
    single = {}
    whole = {}
    for p in lpaths:
        adds = _calls(p, 'add_pulse')
        none_ = cond_value(p, 'pulse is None')
        tagged = cond_value(p, 'geo_tag is None')
        key = 'absolute' if tagged else ('tagged' if tagged is False else '?')
        for c in adds:
            a = norm_obj(norm(c.args[0])) if c.args else '?'
            a = re.sub(r'_k\d+', '_k', a)
            (whole if none_ else single).setdefault(key, set()).add(a)
    want_single = {'absolute': {'self.pulses[pulse]'}, 'tagged': {'self.pulses[self.geo.by_tag[geo_tag].pulses[pulse].idx]'}}
    ok = all(single.get(k) == want_single[k] for k in want_single) and set(single) == set(want_single)
    ck.ob(rule, LOAD, ok, g.loc(), 'pulse loaded: %s' % {k: sorted(v) for k, v in single.items()})
    ok = whole.get('tagged') == {'self.geo.by_tag[geo_tag].pulse_iter()[_k]'} and \
        whole.get('absolute') == {'self.geo[_k].pulse_iter()[_k]'}
    ck.ob(rule, LOAD + '|whole-object', ok, g.loc(),
          'attach-to-object resolves the object through by_tag[geo_tag], attach-to-all takes every object: %s'
          % {k: sorted(v) for k, v in whole.items()})
    return n_reg


def check_pulse_bounds(ctx, ck, entry_quals, rule='R-BOUNDS.pulse-index'):
    n = 0
    for q in entry_quals:
        f, paths = paths_of(ctx, q)
        verdict = {}
        for p in paths:
            exprs = []
            for ev in p.events:
                if ev[0] == 'call':
                    exprs.append(ev[1])
                elif ev[0] == 'store':
                    exprs.append(ev[2])
            if p.ret is not None:
                exprs.append(p.ret)
            for e in exprs:
                for x in ast.walk(e):
                    if not (isinstance(x, ast.Subscript) and isinstance(x.ctx, ast.Load)):
                        continue
                    lst = norm_obj(norm(x.value))
                    if not (lst.endswith('.pulses') or lst == 'self.pulses'):
                        continue
                    idx = norm(x.slice)
                    if re.search(r'_k\d+', idx) or idx.endswith('.idx') or not isinstance(x.slice, (ast.Name, ast.BinOp)):
                        continue        # loop element / index of an existing pulse
                    checks = []
                    ok = False
                    for t, b in p.conds:
                        if not isinstance(b, bool):
                            continue
                        tn = norm_obj(t)
                        mo = re.match(r'^(.+) >= len\((.+)\)$', tn)
                        if mo and b is False:
                            checks.append((mo.group(1), mo.group(2)))
                        mo = re.match(r'^(.+) < len\((.+)\)$', tn)
                        if mo and b is True:
                            checks.append((mo.group(1), mo.group(2)))
                        mo = re.match(r'^len\((.+)\) <= (.+)$', tn)
                        if mo and b is False:
                            checks.append((mo.group(2), mo.group(1)))
                        mo = re.match(r'^len\((.+)\) > (.+)$', tn)
                        if mo and b is True:
                            checks.append((mo.group(2), mo.group(1)))
                    ok = (idx, lst) in checks
                    key = '%s|%s[%s]' % (q, lst, idx)
                    prev = verdict.get(key)
                    if prev is None or (prev[0] and not ok):
                        verdict[key] = (ok, lst, idx, sorted({c[1] for c in checks}))
        for key, (ok, lst, idx, seen) in sorted(verdict.items()):
            n += 1
            ck.ob(rule, key, ok, f.loc(),
                  '%s[%s] is preceded by a range check against len(%s)' % (lst, idx, lst) if ok else
                  '%s[%s] is not preceded by a range check against the length of that list (checks seen: '
                  'len of %s): an out-of-range number raises IndexError or addresses another pulse'
                  % (lst, idx, seen or 'none'))
    return n
