"""Normalising front end: tuple records (namedtuple / NamedTuple) written as the plain tuples they are.

A namedtuple IS a tuple: REC(a, b) is (a, b) and x.field is x[i].  Code that packs a few values into such a record
(instead of an anonymous tuple) behaves exactly the same; the rules of this analyser are written for the values
and positions, so the model is normalised once, right after parsing:

    REC(a, b, f=c)        ->  (a, b, c)                     (fields in declaration order, defaults filled in)
    x.field               ->  x[i]                          when x is known to hold a REC

"known to hold a REC" is a small flow-insensitive inference (everything else is left as written):
  * a local bound only by `v = <REC expr>` / `for v in <iterable of REC>` / a comprehension target over one / the
    parameter of a `key=lambda v: ...` of sorted / min / max over one / a parameter annotated with REC;
  * <x>.A[k]            when every `<y>.A.append(E)` in the package appends a REC(...) (A: an attribute name);
  * <x>.D[k]            when every `<y>.D[k'] = V` in the package stores a REC(...) or another entry of D;
  * an iterable of REC: <x>.A, <x>.D.values(), sorted / iter / reversed / list / tuple of one, a call of a method
    whose every return hands back one.
Records that are used as more than a tuple (._replace / ._asdict / ._make / ._fields, a class form with methods)
are left alone.  The rewrite keeps the source positions; nothing is dropped or reordered, so a changed record
(fields swapped at the creation, another field read) shows up as the changed tuple it is.
"""
import ast


def dotted(node):
    parts = []
    while isinstance(node, ast.Attribute):
        parts.append(node.attr)
        node = node.value
    if isinstance(node, ast.Name):
        parts.append(node.id)
        return '.'.join(reversed(parts))
    return None


SPECIAL = ('_replace', '_asdict', '_make', '_fields', '_field_defaults')


DERIVED = {}       # record name -> {property name: (self name, expression)}


def _frozen_dataclass(cd):
    for d in cd.decorator_list:
        if isinstance(d, ast.Call) and (dotted(d.func) or '').split('.')[-1] == 'dataclass':
            if any(k.arg == 'frozen' and isinstance(k.value, ast.Constant) and k.value.value is True for k in d.keywords):
                return True
    return False


def find_records(trees):
    """{name: ([field, ...], {field: default node})}"""
    out = {}
    DERIVED.clear()
    for tree in trees:
        for st in tree.body:
            if isinstance(st, ast.Assign) and len(st.targets) == 1 and isinstance(st.targets[0], ast.Name) and \
               isinstance(st.value, ast.Call) and (dotted(st.value.func) or '').split('.')[-1] in ('namedtuple', 'NamedTuple') \
               and len(st.value.args) == 2 and not st.value.keywords:
                spec = st.value.args[1]
                flds = None
                if isinstance(spec, ast.Constant) and isinstance(spec.value, str):
                    flds = spec.value.replace(',', ' ').split()
                elif isinstance(spec, (ast.Tuple, ast.List)):
                    flds = []
                    for x in spec.elts:
                        if isinstance(x, ast.Tuple) and x.elts:
                            x = x.elts[0]
                        if isinstance(x, ast.Constant) and isinstance(x.value, str):
                            flds.append(x.value)
                        else:
                            flds = None
                            break
                if flds and isinstance(st.value.args[0], ast.Constant) and st.value.args[0].value == st.targets[0].id:
                    out[st.targets[0].id] = (flds, {})
            elif isinstance(st, ast.ClassDef) and (any((dotted(b) or '').split('.')[-1] == 'NamedTuple' for b in st.bases) or
                                                   (not st.bases and _frozen_dataclass(st))):
                # (a frozen dataclass of plain fields is read like a tuple record: nothing can subscript it, so
                # writing its field reads as positions cannot collide with anything the code does)
                flds, dfl, plain = [], {}, True
                derived = {}
                for x in st.body:
                    if isinstance(x, ast.AnnAssign) and isinstance(x.target, ast.Name):
                        flds.append(x.target.id)
                        if x.value is not None:
                            dfl[x.target.id] = x.value
                    elif isinstance(x, ast.Expr) and isinstance(x.value, ast.Constant):
                        pass
                    elif isinstance(x, ast.Pass):
                        pass
                    elif isinstance(x, ast.FunctionDef) and [dotted(d) for d in x.decorator_list] == ['property'] and \
                            len(x.args.args) == 1:
                        body = [y for y in x.body if not (isinstance(y, ast.Expr) and isinstance(y.value, ast.Constant))]
                        if len(body) == 1 and isinstance(body[0], ast.Return) and body[0].value is not None:
                            derived[x.name] = (x.args.args[0].arg, body[0].value)
                        else:
                            plain = False
                    else:
                        plain = False
                deco_ok = not st.decorator_list or _frozen_dataclass(st)
                if flds and plain and deco_ok:
                    out[st.name] = (flds, dfl)
                    if derived:
                        DERIVED[st.name] = derived
    # used as more than a tuple anywhere: leave every record alone (cannot tell whose it is)
    for tree in trees:
        for n in ast.walk(tree):
            if isinstance(n, ast.Attribute) and n.attr in SPECIAL:
                return {}
    return out


def _creation(e, recs):
    """name of the record created by the call e (None: not a complete creation of a known record)"""
    if isinstance(e, ast.Call) and isinstance(e.func, ast.Name) and e.func.id in recs:
        return e.func.id if _as_tuple(e, recs) is not None else None
    return None


def _as_tuple(call, recs):
    flds, dfl = recs[call.func.id]
    if any(isinstance(a, ast.Starred) for a in call.args) or any(k.arg is None for k in call.keywords) or \
       len(call.args) > len(flds):
        return None
    vals = dict(dfl)
    for f_, a in zip(flds, call.args):
        vals[f_] = a
    for k in call.keywords:
        if k.arg not in flds or k.arg in flds[:len(call.args)]:
            return None
        vals[k.arg] = k.value
    if set(vals) != set(flds):
        return None
    t = ast.Tuple(elts=[vals[f_] for f_ in flds], ctx=ast.Load())
    return ast.copy_location(t, call)


class _Types:
    def __init__(self, trees, recs):
        self.recs = recs
        self.elem = {}      # attribute name -> record held by the elements of that list attribute
        self.dval = {}      # attribute name -> record held by the values of that dict attribute
        self.ret_iter = {}  # method / function name -> record of the elements it hands back
        app, sto = {}, {}
        for tree in trees:
            for n in ast.walk(tree):
                if isinstance(n, ast.Call) and isinstance(n.func, ast.Attribute) and n.func.attr in ('append', 'insert') and \
                   isinstance(n.func.value, ast.Attribute) and n.args:
                    app.setdefault(n.func.value.attr, []).append(n.args[-1])
                elif isinstance(n, ast.Call) and isinstance(n.func, ast.Attribute) and n.func.attr in ('extend', 'update', 'setdefault') \
                        and isinstance(n.func.value, ast.Attribute):
                    app.setdefault(n.func.value.attr, []).append(None)
                    sto.setdefault(n.func.value.attr, []).append(None)
                elif isinstance(n, (ast.Assign, ast.AugAssign, ast.AnnAssign)):
                    tgts = n.targets if isinstance(n, ast.Assign) else [n.target]
                    for t in tgts:
                        for x in ([t] if not isinstance(t, (ast.Tuple, ast.List)) else t.elts):
                            if isinstance(x, ast.Subscript) and isinstance(x.value, ast.Attribute):
                                v = n.value if isinstance(n, ast.Assign) and x is t else None
                                sto.setdefault(x.value.attr, []).append((x.value.attr, v))
                            elif isinstance(x, ast.Attribute):
                                v = getattr(n, 'value', None)
                                empty = isinstance(v, (ast.List, ast.Dict)) and not (v.elts if isinstance(v, ast.List) else v.keys)
                                empty = empty or (isinstance(v, ast.Call) and isinstance(v.func, ast.Name) and
                                                  v.func.id in ('list', 'dict') and not v.args and not v.keywords)
                                if not (isinstance(n, ast.Assign) and empty):
                                    app.setdefault(x.attr, []).append(None)
                                    sto.setdefault(x.attr, []).append(None)
        for a_, vals in app.items():
            names = {_creation(v, recs) if v is not None else None for v in vals}
            if len(names) == 1 and None not in names:
                self.elem[a_] = names.pop()
        for a_, vals in sto.items():
            names = set()
            for it in vals:
                if it is None or it[1] is None:
                    names.add(None)
                    continue
                v = it[1]
                if isinstance(v, ast.Subscript) and isinstance(v.value, ast.Attribute) and v.value.attr == a_ and \
                   not isinstance(v.slice, ast.Slice):
                    continue        # another entry of the same table
                names.add(_creation(v, recs))
            if len(names) == 1 and None not in names:
                self.dval[a_] = names.pop()
        # a list attribute whose entries are also stored by position: only when those stores hold the same record
        self.elem = {k: v for k, v in self.elem.items() if k not in sto or self.dval.get(k) == v}
        # functions that hand back an iterable of records (two rounds: one may call another)
        funcs = [n for tree in trees for n in ast.walk(tree) if isinstance(n, ast.FunctionDef)]
        for _round in range(2):
            by_name = {}
            for f in funcs:
                rets = [n for n in _walk_own(f) if isinstance(n, ast.Return)]
                if any(isinstance(n, (ast.Yield, ast.YieldFrom)) for n in _walk_own(f)) or not rets:
                    by_name.setdefault(f.name, []).append(None)
                    continue
                lv = self.locals_of(f)
                kinds = {self.iter_of(r.value, lv) if r.value is not None else None for r in rets}
                by_name.setdefault(f.name, []).append(kinds.pop() if len(kinds) == 1 else None)
            self.ret_iter = {k: v[0] for k, v in by_name.items() if len(v) == 1 and v[0] is not None}

    # ---------------------------------------------------------------- expressions
    def type_of(self, e, lv):
        if isinstance(e, ast.Name):
            return lv.get(e.id)
        c = _creation(e, self.recs)
        if c:
            return c
        if isinstance(e, ast.Subscript) and not isinstance(e.slice, (ast.Slice, ast.Tuple)):
            if isinstance(e.value, ast.Attribute):
                if e.value.attr in self.dval:
                    return self.dval[e.value.attr]
                if e.value.attr in self.elem:
                    return self.elem[e.value.attr]
            return self.iter_of(e.value, lv) if not isinstance(e.value, ast.Attribute) else None
        if isinstance(e, ast.IfExp):
            a, b = self.type_of(e.body, lv), self.type_of(e.orelse, lv)
            return a if a == b else None
        if isinstance(e, ast.Call) and isinstance(e.func, ast.Name) and e.func.id == 'next' and e.args:
            return self.iter_of(e.args[0], lv)
        if isinstance(e, ast.Call) and isinstance(e.func, ast.Name) and e.func.id in ('min', 'max') and len(e.args) == 1:
            return self.iter_of(e.args[0], lv)
        return None

    def iter_of(self, e, lv):
        """record held by the elements of the iterable e"""
        if isinstance(e, ast.Attribute) and e.attr in self.elem and e.attr not in self.dval:
            return self.elem[e.attr]
        if isinstance(e, ast.Name):
            return lv.get('*' + e.id)
        if isinstance(e, ast.Call):
            fn = e.func
            if isinstance(fn, ast.Name) and fn.id in ('sorted', 'iter', 'reversed', 'list', 'tuple') and e.args:
                return self.iter_of(e.args[0], lv)
            if isinstance(fn, ast.Attribute) and fn.attr == 'values' and not e.args and isinstance(fn.value, ast.Attribute) \
               and fn.value.attr in self.dval:
                return self.dval[fn.value.attr]
            nm = fn.attr if isinstance(fn, ast.Attribute) else (fn.id if isinstance(fn, ast.Name) else None)
            if nm in self.ret_iter:
                return self.ret_iter[nm]
        if isinstance(e, ast.Subscript) and isinstance(e.slice, ast.Slice):
            return self.iter_of(e.value, lv)
        if isinstance(e, (ast.ListComp, ast.GeneratorExp)) and len(e.generators) == 1 and isinstance(e.elt, ast.Name) and \
           isinstance(e.generators[0].target, ast.Name) and e.elt.id == e.generators[0].target.id:
            return self.iter_of(e.generators[0].iter, lv)
        return None

    # ---------------------------------------------------------------- locals
    def locals_of(self, f):
        """{name: record} for the locals of f that only ever hold one kind of record ('*name': an iterable of it)"""
        binds = {}

        def bind(nm, kind):
            binds.setdefault(nm, []).append(kind)
        a = f.args
        for p in a.posonlyargs + a.args + a.kwonlyargs + [x for x in (a.vararg, a.kwarg) if x]:
            ann = p.annotation
            nm = None
            if isinstance(ann, ast.Constant) and isinstance(ann.value, str):
                nm = ann.value.strip()
            elif isinstance(ann, ast.Name):
                nm = ann.id
            bind(p.arg, ('rec', nm) if nm in self.recs else ('other',))
        lv = {}
        for _round in range(3):
            binds2 = {k: list(v) for k, v in binds.items()}

            def b2(nm, kind):
                binds2.setdefault(nm, []).append(kind)

            def target(t, rec):
                if isinstance(t, ast.Name):
                    b2(t.id, ('rec', rec) if rec else ('other',))
                else:
                    for x in ast.walk(t):
                        if isinstance(x, ast.Name) and isinstance(x.ctx, ast.Store):
                            b2(x.id, ('other',))
            for n in _walk_own(f, into_lambda=True):
                if isinstance(n, ast.Assign):
                    r = self.type_of(n.value, lv)
                    ri = self.iter_of(n.value, lv)
                    for t in n.targets:
                        if isinstance(t, ast.Name) and ri and not r:
                            b2(t.id, ('iter', ri))
                        else:
                            target(t, r)
                elif isinstance(n, (ast.AugAssign, ast.AnnAssign)):
                    target(n.target, self.type_of(n.value, lv) if isinstance(n, ast.AnnAssign) and n.value is not None else None)
                elif isinstance(n, (ast.For, ast.comprehension)):
                    it, tg = n.iter, n.target
                    if isinstance(it, ast.Call) and isinstance(it.func, ast.Name) and it.func.id == 'enumerate' and \
                       len(it.args) == 1 and isinstance(tg, ast.Tuple) and len(tg.elts) == 2:
                        target(tg.elts[0], None)
                        it, tg = it.args[0], tg.elts[1]
                    target(tg, self.iter_of(it, lv))
                elif isinstance(n, ast.NamedExpr):
                    target(n.target, self.type_of(n.value, lv))
                elif isinstance(n, ast.withitem) and n.optional_vars is not None:
                    target(n.optional_vars, None)
                elif isinstance(n, ast.ExceptHandler) and n.name:
                    b2(n.name, ('other',))
                elif isinstance(n, ast.Call) and isinstance(n.func, ast.Name) and n.func.id in ('sorted', 'min', 'max') and n.args:
                    for k in n.keywords:
                        if k.arg == 'key' and isinstance(k.value, ast.Lambda) and len(k.value.args.args) == 1:
                            k.value._rec_param = self.iter_of(n.args[0], lv)
                elif isinstance(n, ast.Call) and isinstance(n.func, ast.Attribute) and n.func.attr == 'sort':
                    for k in n.keywords:
                        if k.arg == 'key' and isinstance(k.value, ast.Lambda) and len(k.value.args.args) == 1:
                            k.value._rec_param = self.iter_of(n.func.value, lv)
            for n in _walk_own(f, into_lambda=True):
                if isinstance(n, ast.Lambda):
                    for p in n.args.args:
                        b2(p.arg, ('rec', n._rec_param) if getattr(n, '_rec_param', None) and len(n.args.args) == 1 else ('other',))
            new = {}
            for nm, kinds in binds2.items():
                ks = set(kinds)
                if len(ks) == 1:
                    k = ks.pop()
                    if k[0] == 'rec':
                        new[nm] = k[1]
                    elif k[0] == 'iter':
                        new['*' + nm] = k[1]
            if new == lv:
                break
            lv = new
        return lv


def _walk_own(f, into_lambda=False):
    """nodes of the function body without nested defs / classes (lambdas on request)"""
    todo = list(f.body) + list(f.args.defaults) + [d for d in f.args.kw_defaults if d is not None]
    while todo:
        n = todo.pop()
        yield n
        for ch in ast.iter_child_nodes(n):
            if isinstance(ch, (ast.FunctionDef, ast.AsyncFunctionDef, ast.ClassDef)):
                continue
            if isinstance(ch, ast.Lambda) and not into_lambda:
                continue
            todo.append(ch)


def detuple(trees):
    """rewrite the module trees in place; returns {'records': {...}, 'creations': n, 'reads': n}"""
    recs = find_records(trees)
    stats = {'records': {k: v[0] for k, v in recs.items()}, 'creations': 0, 'reads': 0}
    if not recs:
        return stats
    ty = _Types(trees, recs)

    def rewrite(node, lv):
        for fld, val in ast.iter_fields(node):
            if isinstance(val, list):
                for i_, y in enumerate(val):
                    if isinstance(y, ast.AST):
                        val[i_] = fix(y, lv)
            elif isinstance(val, ast.AST):
                setattr(node, fld, fix(val, lv))

    def fix(y, lv):
        if isinstance(y, (ast.FunctionDef, ast.AsyncFunctionDef)):
            rewrite(y, ty.locals_of(y))
            return y
        if isinstance(y, ast.Attribute) and isinstance(y.ctx, ast.Load):
            r = ty.type_of(y.value, lv)
            if r and y.attr in DERIVED.get(r, {}):
                # a derived value of the record: its expression with self := the record
                sn, expr = DERIVED[r][y.attr]
                val = _copy(expr)

                def sub(z):
                    for fld_, v_ in ast.iter_fields(z):
                        if isinstance(v_, list):
                            for i2_, w_ in enumerate(v_):
                                if isinstance(w_, ast.Name) and w_.id == sn:
                                    v_[i2_] = _copy(y.value)
                                elif isinstance(w_, ast.AST):
                                    sub(w_)
                        elif isinstance(v_, ast.Name) and v_.id == sn:
                            setattr(z, fld_, _copy(y.value))
                        elif isinstance(v_, ast.AST):
                            sub(v_)
                holder = ast.Expr(value=val)
                sub(holder)
                val = holder.value
                for z in ast.walk(val):
                    ast.copy_location(z, y)
                stats['reads'] += 1
                return fix_typed(val, y.value, r, lv)
            if r and y.attr in recs[r][0]:
                rewrite(y, lv)
                new = ast.Subscript(value=y.value, slice=ast.Constant(value=recs[r][0].index(y.attr)), ctx=ast.Load())
                ast.copy_location(new, y)
                ast.copy_location(new.slice, y)
                stats['reads'] += 1
                return new
        rewrite(y, lv)
        if isinstance(y, ast.Call) and _creation(y, recs):
            stats['creations'] += 1
            return _as_tuple(y, recs)
        return y
    def fix_typed(val, rec_expr, r, lv):
        """rewrite field reads `<rec_expr>.field` inside val (rec_expr holds record r), then the rest as usual"""
        key = ast.dump(rec_expr)

        def rec2(z):
            for fld_, v_ in ast.iter_fields(z):
                if isinstance(v_, list):
                    for i2_, w_ in enumerate(v_):
                        if isinstance(w_, ast.AST):
                            v_[i2_] = one(w_)
                elif isinstance(v_, ast.AST):
                    setattr(z, fld_, one(v_))

        def one(w_):
            if isinstance(w_, ast.Attribute) and isinstance(w_.ctx, ast.Load) and ast.dump(w_.value) == key and \
               w_.attr in recs[r][0]:
                new = ast.Subscript(value=fix(w_.value, lv), slice=ast.Constant(value=recs[r][0].index(w_.attr)), ctx=ast.Load())
                ast.copy_location(new, w_)
                ast.copy_location(new.slice, w_)
                stats['reads'] += 1
                return new
            rec2(w_)
            return w_
        holder = ast.Expr(value=val)
        rec2(holder)
        return holder.value
    for tree in trees:
        rewrite(tree, {})
    return stats


# ---------------------------------------------------------------------------------------------------------------
# container protocol: `for x in self` in a class whose __iter__ hands out the elements of one of its attributes

ITER_CONSUMERS = ('enumerate', 'sorted', 'list', 'tuple', 'zip', 'iter', 'sum', 'min', 'max', 'any', 'all', 'reversed',
                  'set', 'frozenset', 'map', 'filter', 'pairwise', 'chain')


def _iter_source(fn):
    """the expression E (over self) whose elements __iter__ hands out, in order; None when it is not that simple"""
    body = list(fn.body)
    if body and isinstance(body[0], ast.Expr) and isinstance(body[0].value, ast.Constant) and isinstance(body[0].value.value, str):
        body = body[1:]
    if len(body) != 1:
        return None
    st = body[0]
    e = None
    if isinstance(st, ast.Return) and isinstance(st.value, ast.Call):
        c = st.value
        if isinstance(c.func, ast.Name) and c.func.id == 'iter' and len(c.args) == 1 and not c.keywords:
            e = c.args[0]
        elif isinstance(c.func, ast.Attribute) and c.func.attr == '__iter__' and not c.args:
            e = c.func.value
    elif isinstance(st, ast.Expr) and isinstance(st.value, ast.YieldFrom):
        e = st.value.value
    elif isinstance(st, ast.For) and not st.orelse and isinstance(st.target, ast.Name) and len(st.body) == 1 and \
            isinstance(st.body[0], ast.Expr) and isinstance(st.body[0].value, ast.Yield) and \
            isinstance(st.body[0].value.value, ast.Name) and st.body[0].value.value.id == st.target.id:
        e = st.iter
    if e is None:
        return None
    names = {n.id for n in ast.walk(e) if isinstance(n, ast.Name) and not isinstance(n.ctx, ast.Store)}
    lam = {a.arg for n in ast.walk(e) if isinstance(n, ast.Lambda) for a in n.args.args}
    if not names - lam <= {'self', 'sorted', 'reversed', 'list', 'tuple'}:
        return None
    if any(isinstance(n, ast.Name) and n.id == 'self' and not isinstance(_parent_in(e, n), ast.Attribute) for n in ast.walk(e)):
        return None        # iterates self again
    return e


def _parent_in(root, node):
    for x in ast.walk(root):
        for ch in ast.iter_child_nodes(x):
            if ch is node:
                return x
    return None


def _copy(n):
    if not isinstance(n, ast.AST):
        return n
    new = n.__class__()
    for fld, val in ast.iter_fields(n):
        setattr(new, fld, [_copy(x) for x in val] if isinstance(val, list) else _copy(val))
    for a in ('lineno', 'col_offset', 'end_lineno', 'end_col_offset'):
        if hasattr(n, a):
            setattr(new, a, getattr(n, a))
    return new


def decontainer(trees):
    """inside the methods of a class whose __iter__ hands out the elements of E(self), iterating `self` is iterating
    E(self): `for x in self`, comprehensions over self and self handed to enumerate / sorted / zip / ... are written
    with E(self); `len(self)` likewise when __len__ returns len(E'(self)).  Returns the number of rewrites."""
    classes = {}
    for tree in trees:
        for st in tree.body:
            if isinstance(st, ast.ClassDef):
                classes[st.name] = st
    n_rw = [0]
    for cname, cd in classes.items():
        meths = {x.name: x for x in cd.body if isinstance(x, ast.FunctionDef)}
        src = _iter_source(meths['__iter__']) if '__iter__' in meths else None
        lensrc = None
        if '__len__' in meths:
            b = [x for x in meths['__len__'].body if not (isinstance(x, ast.Expr) and isinstance(x.value, ast.Constant))]
            if len(b) == 1 and isinstance(b[0], ast.Return) and isinstance(b[0].value, ast.Call) and \
               isinstance(b[0].value.func, ast.Name) and b[0].value.func.id == 'len' and len(b[0].value.args) == 1 and \
               isinstance(b[0].value.args[0], ast.Attribute):
                lensrc = b[0].value.args[0]
        if src is None and lensrc is None:
            continue

        def is_self(x, sn):
            return isinstance(x, ast.Name) and x.id == sn and isinstance(x.ctx, ast.Load)

        def put(like, e, sn):
            v = _copy(e)
            for y in ast.walk(v):
                if isinstance(y, ast.Name) and y.id == 'self':
                    y.id = sn
                ast.copy_location(y, like)
            n_rw[0] += 1
            return v
        for name, fn in meths.items():
            if name in ('__iter__', '__len__') or not fn.args.args or \
               any(isinstance(d, ast.Name) and d.id == 'staticmethod' for d in fn.decorator_list):
                continue
            sn = fn.args.args[0].arg
            if any(isinstance(x, ast.Name) and x.id == sn and isinstance(x.ctx, ast.Store) for x in ast.walk(fn)):
                continue
            for x in ast.walk(fn):
                if src is not None:
                    if isinstance(x, (ast.For, ast.comprehension)) and is_self(x.iter, sn):
                        x.iter = put(x.iter, src, sn)
                    elif isinstance(x, ast.Call) and isinstance(x.func, ast.Name) and x.func.id in ITER_CONSUMERS:
                        for i_, a in enumerate(x.args):
                            if is_self(a, sn):
                                x.args[i_] = put(a, src, sn)
                    elif isinstance(x, ast.YieldFrom) and is_self(x.value, sn):
                        x.value = put(x.value, src, sn)
                if lensrc is not None and isinstance(x, ast.Call) and isinstance(x.func, ast.Name) and x.func.id == 'len' and \
                   len(x.args) == 1 and is_self(x.args[0], sn):
                    x.args[0] = put(x.args[0], lensrc, sn)
    return n_rw[0]


# ---------------------------------------------------------------------------------------------------------------
# assignment expressions in the test of an if statement: `if (x := E) is None:`  is  `x = E` followed by `if x is None:`

def dewalrus(trees):
    """hoist an assignment expression that is evaluated first in the test of an `if` into a statement of its own in
    front of the `if` (same evaluation order, same bindings); other positions are left alone.  Returns the count."""
    n_rw = [0]

    def leftmost(test):
        """(holder, field, index) of the NamedExpr that is evaluated before anything else in test, or None"""
        holder, fld, idx, cur = None, None, None, test
        while True:
            if isinstance(cur, ast.NamedExpr):
                return holder, fld, idx, cur
            if isinstance(cur, ast.Compare):
                holder, fld, idx, cur = cur, 'left', None, cur.left
            elif isinstance(cur, ast.BoolOp):
                holder, fld, idx, cur = cur, 'values', 0, cur.values[0]
            elif isinstance(cur, ast.UnaryOp) and isinstance(cur.op, ast.Not):
                holder, fld, idx, cur = cur, 'operand', None, cur.operand
            else:
                return None

    def block(stmts):
        out = []
        for st in stmts:
            for f_ in ('body', 'orelse', 'finalbody'):
                if isinstance(getattr(st, f_, None), list) and not isinstance(st, ast.ClassDef) or \
                   (isinstance(st, ast.ClassDef) and f_ == 'body'):
                    setattr(st, f_, block(getattr(st, f_)))
            if isinstance(st, ast.Try):
                for h in st.handlers:
                    h.body = block(h.body)
            if isinstance(st, ast.If):
                hit = leftmost(st.test)
                if hit is not None and isinstance(hit[3].target, ast.Name):
                    holder, fld, idx, ne = hit
                    asg = ast.Assign(targets=[ast.Name(id=ne.target.id, ctx=ast.Store())], value=ne.value)
                    ast.copy_location(asg, st)
                    ast.copy_location(asg.targets[0], ne)
                    name = ast.copy_location(ast.Name(id=ne.target.id, ctx=ast.Load()), ne)
                    if holder is None:
                        st.test = name
                    elif idx is None:
                        setattr(holder, fld, name)
                    else:
                        getattr(holder, fld)[idx] = name
                    out.append(asg)
                    n_rw[0] += 1
            out.append(st)
        return out
    for tree in trees:
        tree.body = block(tree.body)
    return n_rw[0]


# ---------------------------------------------------------------------------------------------------------------
# module-level whole-number constants (END_1 = 0, SGN_REVERSE = -1): the number itself

def deconst(modules):
    """modules: {name: tree}.  A module-level name bound exactly once to an integer literal, never bound anywhere else
    in its module (no local, parameter, loop target, global statement of that name), is the literal wherever it is
    read - in its own module and in modules that import it by name (and do not bind the name themselves).
    Floats are left alone (physical constants are named in the formulas on purpose).  Returns the number of reads
    rewritten."""
    def int_lit(v):
        neg = False
        if isinstance(v, ast.UnaryOp) and isinstance(v.op, ast.USub):
            neg, v = True, v.operand
        if isinstance(v, ast.Constant) and isinstance(v.value, int) and not isinstance(v.value, bool):
            return -v.value if neg else v.value
        return None
    consts = {}
    for mname, tree in modules.items():
        top = {}
        for st in tree.body:
            if isinstance(st, ast.Assign) and len(st.targets) == 1 and isinstance(st.targets[0], ast.Name):
                top.setdefault(st.targets[0].id, []).append(st)
        bound = {}
        for n in ast.walk(tree):
            if isinstance(n, ast.Name) and isinstance(n.ctx, (ast.Store, ast.Del)):
                bound[n.id] = bound.get(n.id, 0) + 1
            elif isinstance(n, ast.arg):
                bound[n.arg] = bound.get(n.arg, 0) + 2
            elif isinstance(n, (ast.Global, ast.Nonlocal)):
                for x in n.names:
                    bound[x] = bound.get(x, 0) + 2
            elif isinstance(n, (ast.FunctionDef, ast.ClassDef)):
                bound[n.name] = bound.get(n.name, 0) + 2
            elif isinstance(n, ast.alias):
                nm = (n.asname or n.name).split('.')[0]
                bound[nm] = bound.get(nm, 0) + 2
        for nm, sts in top.items():
            v = int_lit(sts[0].value)
            if len(sts) == 1 and v is not None and bound.get(nm) == 1:
                consts[(mname, nm)] = v
    if not consts:
        return 0
    n_rw = 0
    for mname, tree in modules.items():
        table = {nm: v for (mn, nm), v in consts.items() if mn == mname}
        for st in tree.body:
            if isinstance(st, ast.ImportFrom):
                src = (st.module or '').split('.')[-1]
                for a in st.names:
                    if (src, a.name) in consts:
                        table[a.asname or a.name] = consts[(src, a.name)]
        # a name imported AND bound again in this module is not a constant here
        rebound = set()
        for n in ast.walk(tree):
            if isinstance(n, ast.Name) and isinstance(n.ctx, (ast.Store, ast.Del)) and n.id in table and (mname, n.id) not in consts:
                rebound.add(n.id)
            elif isinstance(n, ast.arg) and n.arg in table:
                rebound.add(n.arg)
        for nm in rebound:
            table.pop(nm, None)
        if not table:
            continue

        def rec(x):
            nonlocal n_rw
            for fld, val in ast.iter_fields(x):
                if isinstance(val, list):
                    for i_, y in enumerate(val):
                        if isinstance(y, ast.Name) and isinstance(y.ctx, ast.Load) and y.id in table:
                            val[i_] = lit(y)
                        elif isinstance(y, ast.AST):
                            rec(y)
                elif isinstance(val, ast.Name) and isinstance(val.ctx, ast.Load) and val.id in table:
                    setattr(x, fld, lit(val))
                elif isinstance(val, ast.AST):
                    rec(val)

        def lit(y):
            nonlocal n_rw
            n_rw += 1
            v = table[y.id]
            new = ast.Constant(value=abs(v)) if v >= 0 else ast.UnaryOp(op=ast.USub(), operand=ast.Constant(value=-v))
            for z in ast.walk(new):
                ast.copy_location(z, y)
            return new
        rec(tree)
    return n_rw


def deaccessor(trees):
    """A property that only wraps one private attribute - getter `return self._x` (possibly after `if ..: raise ..`
    guards that report a read before the value exists), setter `self._x = value`, optional deleter `del self._x` -
    where `_x` is touched nowhere else in the package, behaves like the plain attribute of its name for every read
    and write that succeeds: the accessor functions are dropped, `self.x` stays.  Returns the number of properties."""
    n = 0
    # attribute names and where they are used
    uses = {}
    for t in trees:
        for x in ast.walk(t):
            if isinstance(x, ast.Attribute):
                uses.setdefault(x.attr, []).append(x)
    for t in trees:
        for cd in [c for c in ast.walk(t) if isinstance(c, ast.ClassDef)]:
            groups = {}
            for fn in cd.body:
                if not isinstance(fn, ast.FunctionDef):
                    continue
                for d in fn.decorator_list:
                    if isinstance(d, ast.Name) and d.id == 'property':
                        groups.setdefault(fn.name, {})['get'] = fn
                    elif isinstance(d, ast.Attribute) and isinstance(d.value, ast.Name) and d.value.id == fn.name \
                            and d.attr in ('setter', 'deleter'):
                        groups.setdefault(fn.name, {})['set' if d.attr == 'setter' else 'del'] = fn
            for name, g in groups.items():
                if 'get' not in g or 'set' not in g:
                    continue

                def body(fn):
                    return [s for s in fn.body if not (isinstance(s, ast.Expr) and isinstance(s.value, ast.Constant))]
                gb = body(g['get'])
                if not gb or not isinstance(gb[-1], ast.Return) or not isinstance(gb[-1].value, ast.Attribute) or \
                        not (isinstance(gb[-1].value.value, ast.Name) and gb[-1].value.value.id == 'self'):
                    continue
                under = gb[-1].value.attr
                if not all(isinstance(s, ast.If) and not s.orelse and len(s.body) == 1 and isinstance(s.body[0], ast.Raise)
                           for s in gb[:-1]):
                    continue
                sb = body(g['set'])
                sp = [a.arg for a in g['set'].args.args]
                if not (len(sb) == 1 and isinstance(sb[0], ast.Assign) and len(sb[0].targets) == 1 and len(sp) == 2 and
                        isinstance(sb[0].targets[0], ast.Attribute) and sb[0].targets[0].attr == under and
                        isinstance(sb[0].value, ast.Name) and sb[0].value.id == sp[1]):
                    continue
                inside = set()
                for fn in g.values():
                    for x in ast.walk(fn):
                        inside.add(id(x))
                if any(id(u) not in inside for u in uses.get(under, [])):
                    continue
                for fn in g.values():
                    cd.body.remove(fn)
                if not cd.body:
                    cd.body.append(ast.Pass())
                n += 1
    return n


def deannotate(trees):
    """type hints have no effect at run time: inside functions `x: T = v` is `x = v` (a bare `x: T` is dropped), and
    parameter / return annotations are removed.  Class bodies are left alone (dataclass / NamedTuple fields are
    declared by annotations).  Returns the number of rewrites."""
    n = [0]

    def fix_body(body):
        out = []
        for st in body:
            if isinstance(st, ast.AnnAssign):
                n[0] += 1
                if st.value is None:
                    continue
                new = ast.Assign(targets=[st.target], value=st.value)
                ast.copy_location(new, st)
                out.append(new)
                continue
            for fld in ('body', 'orelse', 'finalbody'):
                b = getattr(st, fld, None)
                if isinstance(b, list) and b and isinstance(b[0], ast.stmt) and not isinstance(st, (ast.ClassDef, ast.FunctionDef, ast.AsyncFunctionDef)):
                    setattr(st, fld, fix_body(b) or [ast.copy_location(ast.Pass(), st)])
            for h in getattr(st, 'handlers', []) or []:
                h.body = fix_body(h.body) or [ast.copy_location(ast.Pass(), h)]
            out.append(st)
        return out
    for t in trees:
        for fn in [x for x in ast.walk(t) if isinstance(x, (ast.FunctionDef, ast.AsyncFunctionDef))]:
            a = fn.args
            for arg in a.posonlyargs + a.args + a.kwonlyargs + ([a.vararg] if a.vararg else []) + ([a.kwarg] if a.kwarg else []):
                if arg.annotation is not None:
                    arg.annotation = None
                    n[0] += 1
            if fn.returns is not None:
                fn.returns = None
                n[0] += 1
            fn.body = fix_body(fn.body) or [ast.copy_location(ast.Pass(), fn)]
    return n[0]
