"""C18  Generated BASIC-MININEC input describes the same antenna.

Decided:
 D1 R-KIND units   a value written under a prompt that asks for DEGREES (the prompt is documented
                   in the comment above the answer, read with tokenize, or in the literal label of
                   the sibling report writer) is of degree kind; kinds are inferred from the unit
                   constructors (x/180*pi -> radians, x/pi*180 -> degrees, np.angle -> radians).
                   Every np.angle() that reaches a printed PHASE column passes through exactly one
                   /pi*180.
 D2 R-EXH counts   NO. OF SOURCES = len(sources) followed by one block per source; NUMBER OF LOADS
                   = sum of attached pulses followed by one writer call per load, each writing one
                   entry per pulse; NO. OF WIRES = sum of emulated wires followed by one writer call
                   per object; each emulated wire block has the five answers (segments, end 1,
                   end 2, radius, N) and an object writes n_emulated_wires blocks.
 D3                pulse numbers are 1-based (= C17-D2).  (How many answers carry their prompt as
                   a comment is reported as information only: comments are not behaviour.)
Not decided: the true prompt order of the BASIC program (its source is not in the repository),
             re-reading as MININEC would.
"""
import ast
import re
from ..model import AnalysisError, walk_no_nested, norm, dotted, parent, enclosing_stmt
from ..dataflow import product_of
from ..rules import loops_in, loop_reaches_on_all_paths, calls_in


def unit_kinds(ctx, clsname):
    """{attr: 'deg' | 'rad'} inferred from assignments in the class"""
    kinds = {}
    ci = ctx.model.cls(clsname)
    from ..symx import SymExec
    for f in ci.methods.values():
        # the attribute stores of every method as closed expressions (conversion helpers, conditional
        # choice of the helper, tuple results looked through)
        try:
            paths = [p_ for p_ in SymExec(ctx, f, bind_loops=True, effects=True, depth=3, max_paths=500).run() if p_.end != 'raise']
        except AnalysisError:
            paths = []
        for _round in range(2):
            for p_ in paths:
                for ev in p_.events:
                    if ev[0] != 'store' or not ev[1].startswith('self.') or ev[1].count('.') != 1 or '[' in ev[1]:
                        continue
                    k = expr_unit(ev[2], kinds, f)
                    if k:
                        a = ev[1][len('self.'):]
                        if a in kinds and kinds[a] != k:
                            kinds[a] = 'conflict'
                        else:
                            kinds[a] = k
    return kinds


def expr_unit(e, kinds, f=None):
    """'deg' / 'rad' / None"""
    if isinstance(e, ast.Call) and (dotted(e.func) or '') in ('np.angle', 'numpy.angle', 'cmath.phase',
                                                             'np.arctan2', 'math.atan2'):
        if any(k.arg == 'deg' and isinstance(k.value, ast.Constant) and k.value.value for k in e.keywords):
            return 'deg'
        return 'rad'
    if isinstance(e, ast.Call) and (dotted(e.func) or '') in ('np.degrees', 'np.rad2deg', 'math.degrees'):
        return 'deg'
    if isinstance(e, ast.Call) and (dotted(e.func) or '') in ('np.radians', 'np.deg2rad', 'math.radians'):
        return 'rad'
    if isinstance(e, ast.BinOp) and isinstance(e.op, (ast.Mult, ast.Div)):
        pr = product_of(e)
        nn, dd = pr.texts()
        pi_num = any(t in ('np.pi', 'math.pi', 'pi') for t in nn)
        pi_den = any(t in ('np.pi', 'math.pi', 'pi') for t in dd)
        c = abs(pr.coef) if not isinstance(pr.coef, complex) else abs(pr.coef)
        if pi_num and abs(c - 1 / 180) < 1e-12:
            return 'rad'
        if pi_den and abs(c - 180) < 1e-9:
            return 'deg'
        return None
    if isinstance(e, ast.Attribute) and isinstance(e.value, ast.Name) and e.value.id == 'self':
        return kinds.get(e.attr)
    if isinstance(e, ast.Name) and f is not None:
        # parameter documented in degrees: `phase` of Excitation.__init__ (docstring says degrees)
        return None
    return None


def prompt_comment(module, lineno, back=3):
    """nearest comment line above `lineno` (within `back` lines)"""
    for k in range(1, back + 1):
        c = module.comments.get(lineno - k)
        if c:
            return c
        if module.lines[lineno - k - 1].strip() and not module.lines[lineno - k - 1].strip().startswith('#'):
            break
    return None


def run(ctx, ck):
    m = ctx.model
    ck.rule('R-KIND.degrees', 'a value under a DEGREES prompt/label is of degree kind')
    ck.rule('R-KIND.angle-conversion', 'np.angle() reaching a printed column passes through /pi*180 once')
    ck.rule('R-EXH.counts', 'announced counts equal the number of blocks that follow')

    check_source_units(ctx, ck)
    # angle conversions in report writers: every printed value that is computed from np.angle(...) is
    # (angle) / pi * 180.  Decided on the rows of the symbolic walk (closed expressions: temporaries, tuples
    # of (angle, magnitude) handed between loops, helpers and nested functions are looked through)
    from ..symx import SymExec, line_exprs, row_values, canon_k
    n_ang = 0
    from ..rules import writer_functions
    writers = writer_functions(ctx, ('as_mininec',))
    wq_ = {f.qual for f in writers if not f.name.startswith('_')}
    seen_ = {}
    for f in sorted(writers, key=lambda x: x.qual):
        if not any(isinstance(c, ast.Call) and (dotted(c.func) or '') == 'np.angle' for c in ast.walk(f.node)) and \
           f.name.startswith('_'):
            continue
        try:
            paths_ = SymExec(ctx, f, bind_loops=True, no_expand=wq_ - {f.qual}, max_paths=5000, depth=4).run()
        except AnalysisError:
            continue
        for p_ in paths_:
            if p_.end == 'raise':
                continue
            for e_, st_ in line_exprs(p_):
                vals_ = row_values(e_)
                if vals_ is None:
                    continue
                for v_ in vals_:
                    # the printed value IS an angle when np.angle reaches it through scaling only (products
                    # and quotients, selection of an element); an angle used inside exp / a power is not printed
                    def linear_angles(x_):
                        if isinstance(x_, ast.Call) and (dotted(x_.func) or '') == 'np.angle':
                            return [x_]
                        if isinstance(x_, ast.BinOp) and isinstance(x_.op, (ast.Mult, ast.Div)):
                            return linear_angles(x_.left) + (linear_angles(x_.right) if isinstance(x_.op, ast.Mult) else [])
                        if isinstance(x_, ast.UnaryOp):
                            return linear_angles(x_.operand)
                        if isinstance(x_, ast.Subscript):
                            return linear_angles(x_.value)
                        if isinstance(x_, ast.Attribute) and x_.attr in ('T', 'flat'):
                            return linear_angles(x_.value)
                        return []
                    from ..symx import unwrap_formatted
                    v_ = unwrap_formatted(v_)       # format_float((a, b))[1].ljust(w) prints b
                    angs = linear_angles(v_)
                    if not angs:
                        continue
                    # strip the element selection of an array-valued conversion: (x / pi * 180)[k]
                    core = v_
                    while isinstance(core, ast.Subscript):
                        core = core.value
                    okv = expr_unit(core, {}) == 'deg'
                    key = '%s|%s' % (f.qual, canon_k(norm(angs[0]))[:80])
                    prev = seen_.get(key)
                    if prev is None or (prev[0] and not okv):
                        seen_[key] = (okv, f.loc(st_), canon_k(norm(core))[:80], norm(angs[0])[:60])
    for key, (okv, where, txt, ang) in sorted(seen_.items()):
        n_ang += 1
        ck.ob('R-KIND.angle-conversion', key, okv, where,
              'angle %s converted to degrees before printing' % ang if okv else
              'value %s reaches the formatter without / pi * 180' % txt)
    ck.floor('np.angle values reaching a formatter', n_ang, 3)

    # ---------------------------------------------------------------- D2
    # decided on the symbolic walk of the writers (private helpers, tables, generators looked through;
    # the public writers of other classes stay calls): on every path the count that is announced is the
    # number of blocks that follow
    from ..symx import SymExec, canon_k, unwrap_formatted
    from ..lines import printed_value, lines_with_loops, default_none_env, ranges_over
    w = m.func('mininec.Mininec.as_basic_input')
    bq = {g_.qual for g_ in m.all_funcs() if g_.name == 'as_basic_input'}
    wpaths = [p_ for p_ in SymExec(ctx, w, bind_loops=True, no_expand=bq - {w.qual}, max_paths=20000).run(
        env=default_none_env(w)) if p_.end != 'raise']
    ck.floor('paths through Mininec.as_basic_input (options at their defaults)', len(wpaths), 8)
    strip_enum = lambda t_: re.sub(r'^enumerate\((.*)\)$', r'\1', t_)

    def count_then_blocks(coll, count_txt, label, text):
        bad = None
        n_entered = 0
        for p_ in wpaths:
            ent = any(k_ == 'loop' and ranges_over(t_, coll) for k_, t_ in p_.conds)
            skp = any(k_ == 'loop-skipped' and ranges_over(t_, coll) for k_, t_ in p_.conds)
            L = lines_with_loops(p_)
            comp = any(ranges_over(x_, coll) for e_, lp_, st_ in L for x_ in lp_)
            if ent and skp:
                continue        # the same collection empty and not empty
            cnt = [i_ for i_, (e_, lp_, st_) in enumerate(L)
                   if printed_value(e_) is not None and canon_k(norm(printed_value(e_))) == count_txt]
            blk = [i_ for i_, (e_, lp_, st_) in enumerate(L) if any(
                isinstance(c_, ast.Call) and isinstance(c_.func, ast.Attribute) and c_.func.attr == 'as_basic_input'
                and re.match(re.escape(coll) + r'\[_k\d+\]$', norm(c_.func.value)) for c_ in ast.walk(e_))]
            want_blk = 1 if (ent or comp) else 0
            n_entered += want_blk
            if len(cnt) != 1:
                bad = bad or ('the count %s is written %d times' % (count_txt, len(cnt)), p_, L)
            elif len(blk) != want_blk:
                bad = bad or ('%d writer calls per element' % len(blk), p_, L)
            elif blk and blk[0] < cnt[0]:
                bad = bad or ('the blocks come before the count', p_, L)
        ok = bad is None and n_entered > 0
        ck.ob('R-EXH.counts', w.qual + '|' + label, ok, w.loc(bad[2][0][2]) if bad and bad[2] and bad[2][0][2] is not None else w.loc(),
              text if ok else '%s: %s on the path %s' % (text, bad[0] if bad else 'no path writes the blocks',
                                                         [c_ for c_ in (bad[1].conds if bad else ())][:5]))
    count_then_blocks('self.sources', 'len(self.sources)', 'sources',
                      'NO. OF SOURCES = len(self.sources), then one block per source')
    count_then_blocks('self.geo', 'sum(_each(self.geo[_k0].n_emulated_wires, self.geo))', 'wires',
                      'NO. OF WIRES = sum of emulated wires, then one writer call per object')
    count_then_blocks('self.loads', 'sum(_each(len(self.loads[_k0].pulses), self.loads))', 'loads',
                      'NUMBER OF LOADS = sum(len(l.pulses)), then one writer call per load')
    # each load writer: one entry per pulse
    for q in ('mininec.Impedance_Load.as_basic_input', 'mininec.Distributed_Load.as_basic_input',
              'mininec.Laplace_Load.as_basic_input'):
        # (defined in the class or inherited from a template in the base class; hooks resolved for the class)
        cls_q = q.split('.')[1]
        g = m.resolve_method(cls_q, q.split('.')[-1])
        if g is None:
            raise AnalysisError('anchor vanished: %s' % q)
        sx_ = SymExec(ctx, g, bind_loops=True, no_expand=bq - {g.qual}, max_paths=5000)
        sx_.self_cls = cls_q
        gp = [p_ for p_ in sx_.run() if p_.end != 'raise']
        got = set()
        n_ent = 0
        for p_ in gp:
            ent = any(k_ == 'loop' and ranges_over(t_, 'self.pulses') for k_, t_ in p_.conds)
            skp = any(k_ == 'loop-skipped' and ranges_over(t_, 'self.pulses') for k_, t_ in p_.conds)
            L = lines_with_loops(p_)
            comp = any(ranges_over(x_, 'self.pulses') for e_, lp_, st_ in L for x_ in lp_)
            if ent and skp:
                continue
            heads = [e_ for e_, lp_, st_ in L if re.search(r'self\.pulses\[_k\d+\]\.idx \+ 1', norm(e_))]
            n_ent += 1 if (ent or comp) else 0
            got.add((bool(ent or comp), len(heads)))
        ok = got <= {(True, 1), (False, 0)} and n_ent > 0
        ck.ob('R-EXH.counts', q, ok, g.loc(),
              'one entry (with 1-based pulse number) per attached pulse: (pulses?, entries) %s' % sorted(got))
    # wire blocks: on every path the answers come in blocks of five (segments, end 1, end 2, radius, N);
    # a single wire writes one block, an emulated one a first block plus one per further segment
    g = m.func('mininec.Geobj.as_basic_input')
    gp = [p_ for p_ in SymExec(ctx, g, bind_loops=True, no_expand=bq - {g.qual}, max_paths=5000).run() if p_.end != 'raise']

    def block_ok(blk, first_kind):
        if len(blk) != 5:
            return False
        v0 = printed_value(blk[0]) if printed_value(blk[0]) is not None else blk[0]
        head = (isinstance(v0, ast.Constant) and str(v0.value) == '1') if first_kind == 'one' else norm(v0) == 'self.n_segments'
        from ..symx import fold_text

        def fmt_of(b_):
            """the format text of `fmt % args` (a literal, or a constant expression that folds to one)"""
            if not (isinstance(b_, ast.BinOp) and isinstance(b_.op, ast.Mod)):
                return None
            try:
                t_ = fold_text(b_.left)
            except ValueError:
                return None
            return t_ if isinstance(t_, str) else None
        coords = all(fmt_of(b_) is not None and fmt_of(b_).count('%') == 3 for b_ in blk[1:3])
        rad = fmt_of(blk[3]) is not None and norm(blk[3].right) in ('self.r', '(self.r,)')
        v0 = unwrap_formatted(v0)
        head = (isinstance(v0, ast.Constant) and str(v0.value) == '1') if first_kind == 'one' else norm(v0) == 'self.n_segments'
        return head and coords and rad and isinstance(blk[4], ast.Constant) and blk[4].value == 'N'
    ok = bool(gp)
    shapes = []
    seen_single = set()
    for p_ in gp:
        single = [b_ for (t_, b_) in p_.conds if t_ == 'self.n_emulated_wires == 1' and isinstance(b_, bool)]
        ent = any(k_ == 'loop' and t_ == 'self.segments[1:]' for k_, t_ in p_.conds)
        skp = any(k_ == 'loop-skipped' and t_ == 'self.segments[1:]' for k_, t_ in p_.conds)
        if ent and skp:
            continue
        L = lines_with_loops(p_)
        flat = [e_ for e_, lp_, st_ in L if not lp_]
        loop = [e_ for e_, lp_, st_ in L if lp_]
        loop_iters = sorted({x_ for e_, lp_, st_ in L for x_ in lp_})
        shapes.append((single, len(flat), len(loop), loop_iters))
        seen_single |= set(single)
        if single == [True]:
            ok = ok and block_ok(flat, 'n_segments') and not loop
        elif single == [False]:
            ok = ok and block_ok(flat, 'one') and ((block_ok(loop, 'one') and loop_iters == ['self.segments[1:]'])
                                                   if not skp else not loop)
        else:
            ok = False
    ok = ok and seen_single == {True, False}
    why = 'paths (single?, answers, answers per further segment, loop): %s' % sorted(shapes, key=str)
    ck.ob('R-EXH.counts', g.qual + '|wire-blocks', ok, g.loc(), why)
    # n_emulated_wires definitions agree with the number of blocks written
    wprop = m.func('mininec.Wire.n_emulated_wires')
    rets = sorted(norm(r.value) for r in walk_no_nested(wprop.node) if isinstance(r, ast.Return))
    ok = rets == ['1', 'self.n_segments']
    for cname in ('Arc', 'Helix'):
        ci = m.func('mininec.%s.__init__' % cname)
        ok = ok and any(norm(s) == 'self.n_emulated_wires = self.n_segments' for s in ci.body())
    ck.ob('R-EXH.counts', 'n_emulated_wires', ok, wprop.loc(),
          'emulated wires = 1 (plain wire) or n_segments (tapered wire, arc, helix)')

    # ---------------------------------------------------------------- D3 documentation of prompts
    n_ans = 0
    n_doc = 0
    for q in ('mininec.Mininec.as_basic_input', 'mininec.Excitation.as_basic_input',
              'mininec.Medium.as_basic_input', 'mininec.Geobj.as_basic_input',
              'mininec.Impedance_Load.as_basic_input', 'mininec.Laplace_Load.as_basic_input',
              'mininec.Distributed_Load.as_basic_input'):
        f = m.funcs.get(q) or m.resolve_method(q.split('.')[1], q.split('.')[-1])
        if f is None:
            raise AnalysisError('anchor vanished: %s' % q)
        for s in walk_no_nested(f.node):
            if isinstance(s, ast.Expr) and isinstance(s.value, ast.Call) and \
               isinstance(s.value.func, ast.Attribute) and s.value.func.attr == 'append' and \
               norm(s.value.func.value) == 'r':
                n_ans += 1
                # comment within the 3 lines above, or the answer continues a documented group
                c = prompt_comment(f.module, s.lineno, back=4)
                if c:
                    n_doc += 1
    ck.info('answers', n_ans)
    ck.info('answers_with_prompt_comment', n_doc)
    # media: an answer is written exactly when its prompt is asked; the report writer of the same
    # class prints the same item under the same condition (sibling)
    ck.rule('R-SIB.media-prompts', 'Medium: coordinate written iff there is a next medium, height iff a previous one')
    # decided on the symbolic rows of both Medium writers: a path of the walk fixes the truth of the tests
    # it passed (self.next / self.prev, looked through flags and tables of (condition, text, value) rows)
    from ..symx import SymExec, line_exprs
    want = {'self.coord': 'self.next', 'self.height': 'self.prev'}
    for q in ('mininec.Medium.as_basic_input', 'mininec.Medium.as_mininec'):
        g = m.func(q)
        paths_ = [p_ for p_ in SymExec(ctx, g, bind_loops=True, max_paths=5000).run() if p_.end != 'raise']
        for attr, guard in want.items():
            bad = []
            n_paths = 0
            for p_ in paths_:
                emitted = any(isinstance(x_, ast.Attribute) and norm(x_) == attr
                              for e_, st_ in line_exprs(p_) for x_ in ast.walk(e_))
                gv = [b_ for t_, b_ in p_.conds if t_ == guard and isinstance(b_, bool)]
                n_paths += 1
                # a path on which the guard is not tested stands for both values of the guard
                for val in ([gv[-1]] if gv else [True, False]):
                    if val != emitted:
                        bad.append((p_.conds, emitted, val))
            ok = not bad and n_paths >= 2
            why = '%s written exactly on the paths with `%s` (%d paths)' % (attr, guard, n_paths)
            if bad:
                pc, em_, val = bad[0]
                why = ('%s is %s on the path %s although `%s` is %s: the answers do not match the prompts '
                       'for that medium' % (attr, 'written' if em_ else 'NOT written',
                                            ['%s=%s' % (t_, b_) for t_, b_ in pc if isinstance(b_, bool)], guard, val))
            ck.ob('R-SIB.media-prompts', '%s|%s' % (q, attr), ok, g.loc(), why)
    # BASIC grounds a wire end only when its Z coordinate is exactly 0: an end this model treats as grounded
    # (within the tolerance) must be put on the ground in the coordinates the writer prints (p1 / p2)
    ck.rule('R-SNAP.grounded-end', 'a wire end within the ground tolerance is stored with z = 0 exactly')
    wg = m.resolve_method('Wire', 'compute_ground')
    sx_ = SymExec(ctx, wg, bind_loops=True, effects=True, depth=2, max_paths=2000)
    sx_.self_cls = 'Wire'
    snapped, other = set(), []
    for p_ in sx_.run():
        if p_.end == 'raise':
            continue
        for ev in p_.events:
            if ev[0] == 'store' and isinstance(ev[2], ast.Constant) and ev[2].value in (0, 0.0) and \
               not isinstance(ev[2].value, bool) and re.search(r'\[(-1|2)\]$', ev[1]):
                mo_ = re.match(r'^self\.(p[12])\[(-1|2)\]$', ev[1])
                if mo_:
                    snapped.add(mo_.group(1))
                else:
                    other.append((ev[1], ev[3]))
    if not snapped and not other:
        raise AnalysisError('%s: no store of z = 0 for a grounded end found' % wg.qual)
    oks = snapped == {'p1', 'p2'}
    ck.ob('R-SNAP.grounded-end', wg.qual, oks, wg.loc(other[0][1]) if (other and not oks) else wg.loc(),
          'both ends are put on the ground plane exactly (p1[-1] / p2[-1] = 0.0 within the tolerance)' if oks else
          'z = 0 is stored into %s but not into %s: the coordinates written to the BASIC input keep their tiny non-zero '
          'height and BASIC reads the end as free' % (sorted({k_ for k_, n_ in other}) or 'nothing',
                                                      sorted({'p1', 'p2'} - snapped)))
    # an answer computed for one pulse is not handed out for another
    ck.rule('R-CACHE.local-memo', 'a local memo dictionary of a writer is keyed by everything its value is computed from')
    from ..rules import local_memo_hazards
    n_lm = 0
    from ..rules import writer_functions as _wf
    for g_ in _wf(ctx, ('as_basic_input',), ()):
        for st_, k_, loose_ in local_memo_hazards(g_):
            n_lm += 1
            ck.ob('R-CACHE.local-memo', '%s|%s' % (g_.qual, norm(st_.targets[0])), False, g_.loc(st_),
                  'the value stored under `%s` is computed from `%s` itself (%s), not only from the key: the entry of the first '
                  'element is written for every later element with the same key' % (k_, loose_[0], norm(st_.value)[:60]))
    ck.ob('R-CACHE.local-memo', 'BASIC writers', True, 'mininec', 'local memo dictionaries keyed too coarsely in the BASIC writers: %d' % n_lm)
    # unit factors 10**(6 d) of the Laplace coefficients: exact Python integers, not wrapping numpy integers
    ck.rule('R-NUM.integer-power', 'a power of an integer literal is not taken with a numpy integer array as exponent (int64 wraps silently from 10**19)')
    n_pow = 0
    for g_ in m.all_funcs():
        for x_ in walk_no_nested(g_.node):
            if not (isinstance(x_, ast.BinOp) and isinstance(x_.op, ast.Pow)):
                continue
            n_pow += 1
            b_ = x_.left
            if not (isinstance(b_, ast.Constant) and isinstance(b_.value, int) and not isinstance(b_.value, bool) and abs(b_.value) >= 2):
                continue
            e_ = x_.right
            if isinstance(e_, ast.Name):
                # (a local bound once)
                ds_ = [s_.value for s_ in walk_no_nested(g_.node) if isinstance(s_, ast.Assign) and len(s_.targets) == 1
                       and isinstance(s_.targets[0], ast.Name) and s_.targets[0].id == e_.id]
                if len(ds_) == 1:
                    e_ = ds_[0]
            arr_ = [c_ for c_ in ast.walk(e_) if isinstance(c_, ast.Call) and (dotted(c_.func) or '').split('.')[-1] in ('arange', 'indices')
                    and not any(k_.arg == 'dtype' and 'float' in norm(k_.value) for k_ in c_.keywords)
                    and not any(isinstance(a_, ast.Constant) and isinstance(a_.value, float) for a_ in c_.args)]
            cast_ = any(isinstance(c_, ast.Call) and ((dotted(c_.func) or '').split('.')[-1] in ('float', 'float64', 'astype'))
                        for c_ in ast.walk(e_))
            if arr_ and not cast_:
                # (a literal range whose largest power provably fits is fine: 2 ** np.arange(8))
                try:
                    stops_ = [max(a_.value for a_ in c_.args) for c_ in arr_
                              if c_.args and all(isinstance(a_, ast.Constant) and isinstance(a_.value, int) for a_ in c_.args)]
                    mult_ = 1
                    for c_ in ast.walk(e_):
                        if isinstance(c_, ast.BinOp) and isinstance(c_.op, ast.Mult):
                            for o_ in (c_.left, c_.right):
                                if isinstance(o_, ast.Constant) and isinstance(o_.value, int):
                                    mult_ *= abs(o_.value)
                    if len(stops_) == len(arr_) and abs(b_.value) ** (max(stops_) * mult_) < 2 ** 62:
                        continue
                except (ValueError, OverflowError):
                    pass
                ck.ob('R-NUM.integer-power', '%s|%s' % (g_.qual, norm(x_)[:60]), False, g_.loc(x_),
                      '%s is computed in 64-bit numpy integers: from %d**19 on the value wraps around silently (a Laplace '
                      'load of order >= 4 gets garbage coefficients in the BASIC input)' % (norm(x_)[:60], b_.value))
    ck.ob('R-NUM.integer-power', 'package', True, 'mininec', '%d powers examined' % n_pow)
    ck.floor('power expressions examined', n_pow, 10)
    ck.undecided += ['true prompt order of the BASIC program', 're-reading the answers as MININEC would']


def check_source_units(ctx, ck, with_basic=True):
    """R-KIND.degrees: the source line of the report labelled PHASE (DEGREES) prints a degree value; the BASIC
    answer to the same prompt has the same unit kinds (with_basic).  Shared with C19 (the report line only)."""
    m = ctx.model
    # ---------------------------------------------------------------- D1
    kinds = unit_kinds(ctx, 'Excitation')
    ck.info('excitation_unit_kinds', kinds)
    if not ({'phase', 'phase_d'} <= set(kinds)):
        raise AnalysisError('unit kinds of Excitation.phase / phase_d could not be inferred: %s' % kinds)
    ck.ob('R-KIND.degrees', 'Excitation|unit-constructors', kinds.get('phase') == 'rad' and
          kinds.get('phase_d') == 'deg', m.func('mininec.Excitation.__init__').loc(),
          'phase is %s, phase_d is %s' % (kinds.get('phase'), kinds.get('phase_d')))
    # the labelled sibling (report line "PULSE NO., VOLTAGE MAGNITUDE, PHASE (DEGREES):") fixes the
    # unit of each of the three values; the BASIC writer answers the same prompt
    def triple(q):
        """(func, (row expr, [three written values]), literal text of the function, prompt comment) - the one
        line with three values, from the symbolic rows of the writer"""
        from ..symx import SymExec, line_exprs, row_values, unwrap_formatted
        f = m.func(q)
        rows_ = []
        for p_ in SymExec(ctx, f, bind_loops=True, max_paths=500, props=True, depth=3).run():     # (properties of the source looked through)
            if p_.end == 'raise':
                continue
            for e_, st_ in line_exprs(p_):
                vals_ = row_values(e_)
                if vals_ is not None and len(vals_) == 3:
                    rows_.append((e_, [unwrap_formatted(v_) for v_ in vals_], st_))
        keys_ = {tuple(norm(v_) for v_ in r_[1]) for r_ in rows_}
        if len(keys_) != 1:
            raise AnalysisError('%s: expected one 3-value line, found %d' % (q, len(keys_)))
        # the literal text around the values: what the function spells out plus what the closed row holds (formats
        # kept as class-level / module-level constants are part of the row expression)
        label = ' '.join([x.value for x in ast.walk(f.node) if isinstance(x, ast.Constant) and isinstance(x.value, str)] +
                         [x.value for r_ in rows_ for x in ast.walk(r_[0]) if isinstance(x, ast.Constant) and isinstance(x.value, str)])
        line = rows_[0][2].lineno if rows_[0][2] is not None else f.node.lineno
        c = prompt_comment(f.module, line)
        node = rows_[0][2] if rows_[0][2] is not None else f.node
        return f, (node, rows_[0][1]), label, c
    sf, smod, slabel, _ = triple('mininec.Excitation.as_mininec_short')
    bf, bmod, blabel, bcomment = triple('mininec.Excitation.as_basic_input')
    n_deg = 1 if re.search(r'DEG', slabel) else 0
    ck.floor('DEGREES label on the source report line', n_deg, 1)
    ck.info('basic_input_prompt_comment', bcomment)
    (smod, svals), (bmod, bvals) = smod, bmod
    skinds = [expr_unit(a, kinds) for a in svals]
    bkinds = [expr_unit(a, kinds) for a in bvals]
    ck.ob('R-KIND.degrees', sf.qual, 'deg' in skinds and 'rad' not in skinds, sf.loc(smod),
          'label asks for DEGREES; writes %s with kinds %s' % ([norm(a) for a in svals], skinds))
    ok = bkinds == skinds
    why = 'BASIC answer %s has the unit kinds %s of the labelled report line' % (
        [norm(a) for a in bvals], bkinds)
    if not ok:
        bad = [norm(a) for a, k, k2 in zip(bvals, bkinds, skinds) if k != k2]
        why = ('the prompt PULSE NO., VOLTAGE MAGNITUDE, PHASE (DEGREES) is answered with %s (kinds %s) '
               'but the report line with that label writes %s (kinds %s): %s is in radians'
               % ([norm(a) for a in bvals], bkinds, [norm(a) for a in svals], skinds, bad))
    if with_basic:
        ck.ob('R-KIND.degrees', bf.qual, ok, bf.loc(bmod), why)
