"""Program model of the pymininec package: modules, classes (with MRO), functions.

Pure `ast`/`tokenize`.  Nothing from the repository is imported or executed.
"""
import ast
import io
import os
import tokenize
import hashlib

REPO = os.environ.get('PMV_REPO', '/repo')
PKG = 'mininec'
MODULES = ('mininec', 'pulse', 'segment', 'taper', 'util')


class AnalysisError(Exception):
    """Raised when the analysis itself cannot proceed (anchor vanished, floor not met)."""


class Module:
    def __init__(self, name, path, src):
        self.name = name
        self.path = path
        self.src = src
        self.lines = src.split('\n')
        try:
            self.tree = ast.parse(src, filename=path)
        except SyntaxError as e:
            raise AnalysisError('cannot parse %s: %s' % (path, e))
        self.comments = {}          # line -> comment text
        try:
            for tok in tokenize.generate_tokens(io.StringIO(src).readline):
                if tok.type == tokenize.COMMENT:
                    self.comments[tok.start[0]] = tok.string
        except (tokenize.TokenError, IndentationError):
            pass
        for node in ast.walk(self.tree):
            for ch in ast.iter_child_nodes(node):
                ch._parent = node
        self.tree._parent = None

    def relpath(self):
        return os.path.relpath(self.path, REPO)


class Func:
    def __init__(self, module, cls, node, kind='method'):
        self.module = module
        self.cls = cls                  # ClassInfo or None
        self.node = node
        self.name = node.name
        self.kind = kind                # 'function' | 'method' | 'property' | 'setter' | 'cached_property'
        self.decorators = [_dec_name(d) for d in node.decorator_list]
        if cls is not None:
            self.qual = '%s.%s.%s' % (module.name, cls.name, node.name)
            if kind == 'setter':
                self.qual += '@setter'
        else:
            self.qual = '%s.%s' % (module.name, node.name)

    @property
    def params(self):
        a = self.node.args
        return [x.arg for x in a.posonlyargs + a.args]

    @property
    def is_static(self):
        return 'staticmethod' in self.decorators

    def bound_params(self):
        """positional parameters as seen by a caller (without self / cls)"""
        if self.cls is not None and not self.is_static:
            return self.params[1:]
        return self.params

    @property
    def all_params(self):
        a = self.node.args
        r = [x.arg for x in a.posonlyargs + a.args + a.kwonlyargs]
        if a.vararg:
            r.append(a.vararg.arg)
        if a.kwarg:
            r.append(a.kwarg.arg)
        return r

    def defaults(self):
        """param name -> default expr node (only for params that have one)"""
        a = self.node.args
        pos = a.posonlyargs + a.args
        d = {}
        for p, dv in zip(pos[len(pos) - len(a.defaults):], a.defaults):
            d[p.arg] = dv
        for p, dv in zip(a.kwonlyargs, a.kw_defaults):
            if dv is not None:
                d[p.arg] = dv
        return d

    def body(self):
        """statements without the docstring"""
        b = self.node.body
        if b and isinstance(b[0], ast.Expr) and isinstance(b[0].value, ast.Constant) \
           and isinstance(b[0].value.value, str):
            return b[1:]
        return b

    def loc(self, node=None):
        n = node if node is not None else self.node
        return '%s:%d' % (self.module.relpath(), getattr(n, 'lineno', 0))

    def __repr__(self):
        return '<Func %s>' % self.qual


def _dec_name(d):
    if isinstance(d, ast.Name):
        return d.id
    if isinstance(d, ast.Attribute):
        return dotted(d)
    if isinstance(d, ast.Call):
        return _dec_name(d.func)
    return '?'


def dotted(node):
    """a.b.c -> 'a.b.c' (None if not a pure dotted name)"""
    parts = []
    while isinstance(node, ast.Attribute):
        parts.append(node.attr)
        node = node.value
    if isinstance(node, ast.Name):
        parts.append(node.id)
        return '.'.join(reversed(parts))
    return None


class ClassInfo:
    def __init__(self, module, node):
        self.module = module
        self.node = node
        self.name = node.name
        self.base_names = [dotted(b) for b in node.bases]
        self.methods = {}       # name -> Func (getter for properties)
        self.setters = {}       # name -> Func
        self.class_attrs = {}   # name -> value node
        self.aliases = {}       # name -> other method name (__repr__ = __str__)
        self.mro = []
        self.subclasses = []    # direct + indirect, filled by Model

    def __repr__(self):
        return '<Class %s>' % self.name


class Model:
    def __init__(self, repo=None, overrides=None):
        self.repo = repo or REPO
        self.overrides = overrides or {}
        self.modules = {}
        self.classes = {}
        self.funcs = {}
        self.module_funcs = {}   # bare function name -> Func
        self.module_consts = {}  # (module, name) -> value node
        self.imports = {}        # module -> {local name: 'module.name' or external dotted}
        self._load()

    # ------------------------------------------------------------------ loading
    def _load(self):
        for m in MODULES:
            rel = os.path.join(PKG, m + '.py')
            path = os.path.join(self.repo, rel)
            if rel in self.overrides:
                src = self.overrides[rel]
            else:
                if not os.path.exists(path):
                    raise AnalysisError('module missing: %s' % path)
                with open(path, encoding='utf-8') as f:
                    src = f.read()
            self.modules[m] = Module(m, path, src)
        # tuple records (namedtuple / NamedTuple) are written as the plain tuples they are (records.py)
        from .records import detuple, decontainer, dewalrus, deconst, deaccessor, deannotate
        n_acc = deaccessor([m.tree for m in self.modules.values()])
        n_walrus = dewalrus([m.tree for m in self.modules.values()])
        n_const = deconst({nm_: m.tree for nm_, m in self.modules.items()})
        self.record_stats = detuple([m.tree for m in self.modules.values()])
        # ... and `for x in self` as the loop over the attribute the class's __iter__ hands out
        self.record_stats['container_rewrites'] = decontainer([m.tree for m in self.modules.values()])
        # (type hints are dropped last: the record types are inferred from them)
        n_ann = deannotate([m.tree for m in self.modules.values()])
        self.record_stats['walrus_hoisted'] = n_walrus
        self.record_stats['int_constants_inlined'] = n_const
        self.record_stats['wrapper_properties_dropped'] = n_acc
        self.record_stats['type_hints_dropped'] = n_ann
        if n_ann or n_acc or self.record_stats['creations'] or self.record_stats['reads'] or self.record_stats['container_rewrites'] or n_walrus or n_const:
            for m in self.modules.values():
                for node in ast.walk(m.tree):
                    for ch in ast.iter_child_nodes(node):
                        ch._parent = node
        for m in self.modules.values():
            self._index_module(m)
        self._compute_mro()

    def digest(self):
        h = hashlib.sha256()
        for m in sorted(self.modules):
            h.update(self.modules[m].src.encode())
        return h.hexdigest()[:16]

    def _index_module(self, m):
        imp = self.imports.setdefault(m.name, {})
        for node in m.tree.body:
            if isinstance(node, ast.ImportFrom):
                for a in node.names:
                    imp[a.asname or a.name] = '%s.%s' % (node.module, a.name)
            elif isinstance(node, ast.Import):
                for a in node.names:
                    imp[a.asname or a.name] = a.name
            elif isinstance(node, ast.FunctionDef):
                f = Func(m, None, node, 'function')
                self.funcs[f.qual] = f
                if node.name in self.module_funcs:
                    # keep first; name clashes across modules are resolved via imports
                    pass
                self.module_funcs.setdefault(node.name, f)
                self._index_nested(m, f)
            elif isinstance(node, ast.ClassDef):
                ci = ClassInfo(m, node)
                if ci.name in self.classes:
                    raise AnalysisError('duplicate class name %s' % ci.name)
                self.classes[ci.name] = ci
                for st in node.body:
                    if isinstance(st, ast.FunctionDef):
                        decs = [_dec_name(d) for d in st.decorator_list]
                        kind = 'method'
                        if 'property' in decs:
                            kind = 'property'
                        elif 'cached_property' in decs or 'functools.cached_property' in decs:
                            kind = 'cached_property'
                        elif any(d and d.endswith('.setter') for d in decs):
                            kind = 'setter'
                        f = Func(m, ci, st, kind)
                        self.funcs[f.qual] = f
                        if kind == 'setter':
                            ci.setters[st.name] = f
                        else:
                            ci.methods[st.name] = f
                    elif isinstance(st, ast.Assign):
                        for t in st.targets:
                            if isinstance(t, ast.Name):
                                ci.class_attrs[t.id] = st.value
                                if isinstance(st.value, ast.Name):
                                    ci.aliases[t.id] = st.value.id
            elif isinstance(node, ast.Assign):
                for t in node.targets:
                    if isinstance(t, ast.Name):
                        self.module_consts[(m.name, t.id)] = node.value

    def _index_nested(self, m, f):
        # nested defs (e.g. measure_time.timer) are not separately indexed
        pass

    def _compute_mro(self):
        def lin(ci, seen=()):
            if ci.name in seen:
                raise AnalysisError('inheritance cycle at %s' % ci.name)
            r = [ci]
            for b in ci.base_names:
                if b in self.classes:
                    for x in lin(self.classes[b], seen + (ci.name,)):
                        if x not in r:
                            r.append(x)
            return r
        for ci in self.classes.values():
            ci.mro = lin(ci)
        for ci in self.classes.values():
            for b in ci.mro[1:]:
                if ci not in b.subclasses:
                    b.subclasses.append(ci)

    # ------------------------------------------------------------------ lookup
    def func(self, qual):
        f = self.funcs.get(qual)
        if f is None:
            raise AnalysisError('anchor vanished: function %s' % qual)
        return f

    def cls(self, name):
        c = self.classes.get(name)
        if c is None:
            raise AnalysisError('anchor vanished: class %s' % name)
        return c

    def has_func(self, qual):
        return qual in self.funcs

    def resolve_method(self, clsname, mname, after=None):
        """method `mname` as seen from class `clsname` (MRO); `after`: start after that class (super())."""
        ci = self.classes.get(clsname)
        if ci is None:
            return None
        mro = ci.mro
        if after is not None:
            names = [c.name for c in mro]
            if after in names:
                mro = mro[names.index(after) + 1:]
        for c in mro:
            if mname in c.methods:
                return c.methods[mname]
            if mname in c.aliases and c.aliases[mname] in c.methods:
                return c.methods[c.aliases[mname]]
        return None

    def resolve_setter(self, clsname, name):
        ci = self.classes.get(clsname)
        if ci is None:
            return None
        for c in ci.mro:
            if name in c.setters:
                return c.setters[name]
            if name in c.methods and c.methods[name].kind in ('property', 'cached_property'):
                return None
        return None

    def dispatch(self, clsname, mname):
        """all functions that `recv.mname` may denote when recv has static type clsname
        (the method visible from clsname plus overrides in subclasses)."""
        out = []
        ci = self.classes.get(clsname)
        if ci is None:
            return out
        f = self.resolve_method(clsname, mname)
        if f is not None:
            out.append(f)
        for sc in ci.subclasses:
            g = self.resolve_method(sc.name, mname)
            if g is not None and g not in out:
                out.append(g)
        return out

    def is_subclass(self, a, b):
        ca = self.classes.get(a)
        return ca is not None and any(c.name == b for c in ca.mro)

    def methods_named(self, mname):
        return [c.methods[mname] for c in self.classes.values() if mname in c.methods]

    def all_funcs(self):
        return list(self.funcs.values())

    def concrete_subclasses(self, name):
        ci = self.cls(name)
        return [ci] + list(ci.subclasses)


# ---------------------------------------------------------------------- helpers
def norm(node):
    """Normalised text of a node: ast.unparse (independent of layout, comments, parentheses)."""
    try:
        return ast.unparse(node)
    except Exception:           # pragma: no cover
        return ast.dump(node)


def walk_no_nested(node):
    """ast.walk that does not descend into nested function/class/lambda definitions."""
    todo = list(ast.iter_child_nodes(node))
    while todo:
        n = todo.pop()
        yield n
        if isinstance(n, (ast.FunctionDef, ast.AsyncFunctionDef, ast.ClassDef, ast.Lambda)):
            continue
        todo.extend(ast.iter_child_nodes(n))


def stmts_of(func_node):
    """all statements (recursively) in a function, excluding nested defs"""
    for n in walk_no_nested(func_node):
        if isinstance(n, ast.stmt):
            yield n


def parent(node):
    return getattr(node, '_parent', None)


def enclosing_stmt(node):
    while node is not None and not isinstance(node, ast.stmt):
        node = parent(node)
    return node


def ancestors(node):
    node = parent(node)
    while node is not None:
        yield node
        node = parent(node)


def const_value(node):
    """Python value of a literal-only expression (numbers, strings, tuples; + - * / ** unary)."""
    if isinstance(node, ast.Constant):
        return node.value
    if isinstance(node, ast.UnaryOp) and isinstance(node.op, (ast.USub, ast.UAdd)):
        v = const_value(node.operand)
        if isinstance(v, (int, float, complex)):
            return -v if isinstance(node.op, ast.USub) else v
        raise ValueError
    if isinstance(node, ast.BinOp):
        a = const_value(node.left)
        b = const_value(node.right)
        if isinstance(a, (int, float, complex)) and isinstance(b, (int, float, complex)):
            if isinstance(node.op, ast.Add):
                return a + b
            if isinstance(node.op, ast.Sub):
                return a - b
            if isinstance(node.op, ast.Mult):
                return a * b
            if isinstance(node.op, ast.Div):
                return a / b
            if isinstance(node.op, ast.Pow):
                return a ** b
        if isinstance(a, str) and isinstance(node.op, ast.Add) and isinstance(b, str):
            return a + b
        if isinstance(a, str) and isinstance(node.op, ast.Mult) and isinstance(b, int):
            return a * b
        raise ValueError
    if isinstance(node, ast.Tuple):
        return tuple(const_value(e) for e in node.elts)
    raise ValueError


def is_const(node):
    try:
        const_value(node)
        return True
    except (ValueError, ZeroDivisionError, OverflowError):
        return False
