"""Reader model of `main`: how every comma-list option is taken apart, from the symbolic walk.

Each top-level statement of main after `cmd.parse_args` that mentions `args.<dest>` is walked on its
own (symx: loops entered once with the element bound, literal loops unrolled, module-level helpers
expanded with their effects, list pop / slices folded to absolute indices).  On every path the text
of one option value appears as a closed expression  P = args.<dest>[_k].split(',')  and everything
derived from it refers to P[i] with absolute i.  From the paths we read off, per number of fields n:
  - whether a value with n fields is accepted (some path that does not end in `return <code>`
    is consistent with len(P) == n),
  - which converter each field goes through (int / float / complex),
  - which fields end up as a geometry tag (argument named tag / geo_tag of a constructor or method
    of the package, key of a by_tag lookup, or the tag slot of a deferred transformation).
Nothing is executed; the consistency test is integer arithmetic on len(P) == n.
"""
import ast
import re
from .model import AnalysisError, norm, dotted
from .symx import SymExec, copy_replace

MAXN = 12


class Undecided(Exception):
    pass


def _val(e, env):
    """tiny evaluator for tests on len(P): ints, comparisons (chains, in), and/or/not"""
    if isinstance(e, ast.Constant):
        return e.value
    t = norm(e)
    if t in env:
        return env[t]
    if isinstance(e, ast.BoolOp):
        vals = [_val(v, env) for v in e.values]
        return all(vals) if isinstance(e.op, ast.And) else any(vals)
    if isinstance(e, ast.UnaryOp) and isinstance(e.op, ast.Not):
        return not _val(e.operand, env)
    if isinstance(e, ast.UnaryOp) and isinstance(e.op, ast.USub):
        return -_val(e.operand, env)
    if isinstance(e, ast.BinOp) and isinstance(e.op, (ast.Add, ast.Sub)):
        a, b = _val(e.left, env), _val(e.right, env)
        return a + b if isinstance(e.op, ast.Add) else a - b
    if isinstance(e, (ast.Tuple, ast.List)):
        return tuple(_val(x, env) for x in e.elts)
    if isinstance(e, ast.Compare):
        left = _val(e.left, env)
        for op, c in zip(e.ops, e.comparators):
            right = _val(c, env)
            ok = {ast.Eq: lambda: left == right, ast.NotEq: lambda: left != right, ast.Lt: lambda: left < right,
                  ast.LtE: lambda: left <= right, ast.Gt: lambda: left > right, ast.GtE: lambda: left >= right,
                  ast.In: lambda: left in right, ast.NotIn: lambda: left not in right}.get(type(op))
            if ok is None:
                raise Undecided(t)
            if not ok():
                return False
            left = right
        return True
    raise Undecided(t)


class OptionModel:
    def __init__(self, dest):
        self.dest = dest
        self.parts = set()          # texts of P
        self.accepted = set()       # field counts accepted
        self.rejected = set()
        self.conv = {}              # (n, i) -> set of converter names
        self.tags = {}              # (n, i) -> reason text
        self.where = None
        self.npaths = 0
        self.undecided = set()      # tests on the number of fields that could not be evaluated

    @property
    def arity(self):
        if not self.accepted:
            return None
        return (min(self.accepted), max(self.accepted))

    def conv_at(self, n, i):
        c = self.conv.get((n, i), set())
        return sorted(c)[0] if len(c) == 1 else (None if not c else 'mixed')

    def is_tag(self, n, i):
        return (n, i) in self.tags


def _prelude(body, k, consts=None):
    """simple definitions before statement k that later statements may refer to (tables of literals, bounds taken
    from a module-level table: n_min, n_max = FIELDS)"""
    env = {}
    consts = consts or {}
    for st in body[:k]:
        if isinstance(st, ast.Assign) and len(st.targets) == 1 and isinstance(st.targets[0], ast.Name):
            if not any(isinstance(n, ast.Call) for n in ast.walk(st.value)) and \
               isinstance(st.value, (ast.Tuple, ast.Constant)):
                env[st.targets[0].id] = st.value
            else:
                env.pop(st.targets[0].id, None)
        elif isinstance(st, ast.Assign) and len(st.targets) == 1 and isinstance(st.targets[0], ast.Tuple) and \
                all(isinstance(t_, ast.Name) for t_ in st.targets[0].elts):
            v = st.value
            if isinstance(v, ast.Name) and v.id not in env and isinstance(consts.get(v.id), ast.Tuple):
                v = consts[v.id]
            elif isinstance(v, ast.Name) and isinstance(env.get(v.id), ast.Tuple):
                v = env[v.id]
            if isinstance(v, ast.Tuple) and len(v.elts) == len(st.targets[0].elts) and \
               all(isinstance(x_, ast.Constant) for x_ in v.elts):
                for t_, x_ in zip(st.targets[0].elts, v.elts):
                    env[t_.id] = x_
            else:
                for t_ in st.targets[0].elts:
                    env.pop(t_.id, None)
        else:
            # anything else that binds a name takes the simple meaning away
            for n in ast.walk(st):
                if isinstance(n, ast.Name) and isinstance(n.ctx, ast.Store) and n.id in env:
                    del env[n.id]
    return env


def main_slices(ctx, entry='mininec.main'):
    """[(statement, set of dests mentioned, [paths])] for the option-consuming statements of main"""
    cache = ctx.__dict__.get('_main_slices')
    if cache is not None:
        return cache
    f = ctx.func(entry)
    body = f.body()
    start = None
    for i, st in enumerate(body):
        if isinstance(st, ast.Assign) and 'parse_args' in norm(st.value):
            start = i + 1
    n_direct = sum(1 for st in body[start or 0:] if re.search(r'\bargs\.\w+', norm(st)) and ('split' in norm(st) or 'partition' in norm(st))) if start is not None else 0
    if start is None or n_direct < 5:
        # main delegates: the option handling lives in private helpers (and a try block around them); use the
        # function with those helpers inlined and read the statements of the try / one-pass blocks in sequence
        f = ctx.flat(entry)

        def seq(stmts):
            out_ = []
            for st in stmts:
                if isinstance(st, ast.Try):
                    out_ += seq(st.body)
                elif isinstance(st, ast.For) and isinstance(st.target, ast.Name) and st.target.id.startswith('__once'):
                    out_ += seq(st.body)
                else:
                    out_.append(st)
            return out_
        body = seq(f.body())
        start = None
        for i, st in enumerate(body):
            if isinstance(st, ast.Assign) and 'parse_args' in norm(st.value):
                start = i + 1
    if start is None:
        raise AnalysisError('%s: the parse_args call was not found' % entry)
    out = []
    consumed = set()
    from .symx import module_constants
    consts = module_constants(f.module)
    for k in range(start, len(body)):
        if k in consumed:
            continue
        st = body[k]
        txt = norm(st)
        dests = set(re.findall(r'\bargs\.(\w+)', txt))
        if not dests:
            # a loop over a table of (name, args.x, ...) defined just before
            names = {n.id for n in ast.walk(st) if isinstance(n, ast.Name)}
            pre = _prelude(body, k, consts)
            for nm in names & set(pre):
                dests |= set(re.findall(r'\bargs\.(\w+)', norm(pre[nm])))
            if not dests:
                continue
        if 'split' not in txt and 'partition' not in txt and not any(isinstance(n, ast.Call) and isinstance(n.func, ast.Name) and
                                          ('%s.%s' % (f.module.name, n.func.id)) in ctx.model.funcs for n in ast.walk(st)):
            continue
        stmts = [st]
        # a value split at the top level (p = args.phi.split(',')): the statements that follow and
        # take the parts apart belong to the same slice
        if isinstance(st, ast.Assign) and len(st.targets) == 1 and isinstance(st.targets[0], ast.Name) and \
           '.split(' in norm(st.value):
            pv = st.targets[0].id
            for j in range(k + 1, len(body)):
                nxt = body[j]
                if isinstance(nxt, ast.Assign) and any(isinstance(t_, ast.Name) and t_.id == pv for t_ in nxt.targets) \
                   and not any(isinstance(n_, ast.Name) and n_.id == pv and isinstance(n_.ctx, ast.Load) for n_ in ast.walk(nxt.value)):
                    break       # the name is given a new meaning
                if not any(isinstance(n_, ast.Name) and n_.id == pv for n_ in ast.walk(nxt)):
                    break
                stmts.append(nxt)
                consumed.add(j)
        sx = SymExec(ctx, f, bind_loops=True, objects=True, effects=True, max_paths=20000, depth=3)
        try:
            paths = sx.run(stmts=stmts, env=_prelude(body, k, consts))
        except AnalysisError:
            continue
        out.append((st, dests, paths))
    ctx.__dict__['_main_slices'] = out
    return out


_P_RE = re.compile(r"args\.(\w+)(\[_k\d+\])?(\.strip\(\))?\.split\(','\)")


def _parts_in(text):
    return {(mo.group(0), mo.group(1)) for mo in _P_RE.finditer(text)}


def _tag_params(ctx, call):
    """indices / keywords of `call` bound to a parameter named tag / geo_tag of a package function"""
    m = ctx.model
    fn = call.func
    name = fn.attr if isinstance(fn, ast.Attribute) else (fn.id if isinstance(fn, ast.Name) else None)
    if name is None:
        return []
    cands = []
    if isinstance(fn, ast.Name) and name in m.classes:
        init = m.resolve_method(name, '__init__')
        cands = [init] if init else []
    elif isinstance(fn, ast.Attribute):
        cands = [g for g in m.methods_named(name)]
    elif isinstance(fn, ast.Name):
        g = m.funcs.get('mininec.' + name)
        cands = [g] if g else []
    out = []
    for kw in call.keywords:
        if kw.arg in ('tag', 'geo_tag'):
            out.append(kw.value)
    for g in cands:
        ps = g.bound_params() if g.cls is not None else list(g.all_params)
        for i, a in enumerate(call.args):
            if isinstance(a, ast.Starred):
                break
            if i < len(ps) and ps[i] in ('tag', 'geo_tag'):
                out.append(a)
    return out


def reader_model(ctx, entry='mininec.main'):
    """{dest: OptionModel}"""
    cache = ctx.__dict__.get('_reader_model')
    if cache is not None:
        return cache
    f = ctx.func(entry)
    models = {}
    # the dispatch of deferred transformations: t[1](t[0], t[2], t[3]) over the collected tuples
    dispatch = None
    for n in ast.walk(ctx.flat(entry).node):        # (main with its private / module-level helpers inlined)
        if isinstance(n, ast.Call) and isinstance(n.func, ast.Subscript) and isinstance(n.func.slice, ast.Constant) \
           and isinstance(n.func.value, ast.Name):
            idx = []
            ok = True
            for a in n.args:
                if isinstance(a, ast.Subscript) and isinstance(a.value, ast.Name) and a.value.id == n.func.value.id \
                   and isinstance(a.slice, ast.Constant):
                    idx.append(a.slice.value)
                else:
                    ok = False
            if ok and idx:
                dispatch = (n.func.slice.value, idx)
        elif isinstance(n, ast.For) and isinstance(n.target, ast.Tuple) and all(isinstance(t_, ast.Name) for t_ in n.target.elts):
            # the same with the record unpacked in the loop header: for key, method, vector, tag, text in L: method(key, vector, tag)
            names = [t_.id for t_ in n.target.elts]
            for c in ast.walk(n):
                if isinstance(c, ast.Call) and isinstance(c.func, ast.Name) and c.func.id in names and c.args and \
                   all(isinstance(a, ast.Name) and a.id in names for a in c.args) and not c.keywords:
                    dispatch = (names.index(c.func.id), [names.index(a.id) for a in c.args])
    # module-level names bound once to a whole number (ANGLE_FIELDS = 3)
    int_consts = {}
    for (mod_, nm_), v_ in ctx.model.module_consts.items():
        if mod_ == f.module.name and isinstance(v_, ast.Constant) and isinstance(v_.value, int) and not isinstance(v_.value, bool):
            n_bind = sum(1 for st_ in f.module.tree.body for t_ in (st_.targets if isinstance(st_, ast.Assign) else [])
                         if isinstance(t_, ast.Name) and t_.id == nm_)
            if n_bind == 1:
                int_consts[nm_] = v_.value
    for st, dests, paths in main_slices(ctx, entry):
        for p in paths:
            texts = [norm(ev[1]) if not isinstance(ev[1], (str, tuple)) else '' for ev in p.events] + \
                    [norm(ev[2]) for ev in p.events if len(ev) > 4 and isinstance(ev[2], ast.AST)] + \
                    [t for t, b in p.conds if isinstance(t, str)] + [b for t, b in p.conds if isinstance(b, str)]
            found = set()
            for t in texts:
                found |= _parts_in(t)
            by_dest = {}
            for ptxt, dest in found:
                by_dest.setdefault(dest, set()).add(ptxt)
            for dest, ps in by_dest.items():
                if len(ps) != 1:
                    continue        # the same option split twice on one path: judged by the other slice
                P = sorted(ps)[0]
                om = models.setdefault(dest, OptionModel(dest))
                om.parts.add(re.sub(r'_k\d+', '_k', P))
                om.where = om.where or st
                om.npaths += 1
                rejecting = (p.end == 'return' and isinstance(p.ret, ast.Constant) and p.ret.value is not None) or \
                    p.end == 'raise' or getattr(p, '_raised', False)      # (a diagnostic exception ends the run as well)
                lenP = 'len(%s)' % P
                for n_ in range(0, MAXN + 1):
                    env = dict(int_consts)
                    env[lenP] = n_
                    feasible = True
                    for t, b in p.conds:
                        if not isinstance(b, bool) or lenP not in t:
                            continue
                        try:
                            v = _val(ast.parse(t, mode='eval').body, env)
                        except (Undecided, SyntaxError, TypeError):
                            if P + '[' not in t:
                                # a test on the count alone (not on what a field holds) that is not understood
                                om.undecided.add(re.sub(r'_k\d+', '_k', t))
                            continue
                        if bool(v) != b:
                            feasible = False
                            break
                    if not feasible:
                        continue
                    if not rejecting and not _star_calls_fit(ctx, p, P, n_):
                        om.rejected.add(n_)     # a call f(*fields) does not take this many arguments (TypeError)
                        continue
                    (om.rejected if rejecting else om.accepted).add(n_)
                    if rejecting:
                        continue
                    _collect_fields(ctx, om, p, P, n_, dispatch)
    # a count is accepted only if no path consistent with it rejects *unconditionally on the count*:
    # rejections that depend on other tests (bad number, unknown tag) do not make the count invalid
    for om in models.values():
        pass
    ctx.__dict__['_reader_model'] = models
    return models


def _index_of(e, P, n):
    """absolute field index of the expression e == P[i] (negative indices resolved for n fields)"""
    if isinstance(e, ast.Subscript) and norm(e.value) == P and isinstance(e.slice, ast.Constant) and \
       isinstance(e.slice.value, int):
        i = e.slice.value
        return i if i >= 0 else n + i
    if isinstance(e, ast.Call) and isinstance(e.func, ast.Attribute) and e.func.attr == 'join' and len(e.args) == 1 and \
       isinstance(e.func.value, ast.Constant):
        # sep.join(P[a:]) (the rest after a partition): with n fields and n - a == 1 that is the field a itself
        b = _slice_bounds(e.args[0], P, n)
        if b is not None and b[1] - b[0] == 1:
            return b[0]
    return None


def _range_of(e, P, n):
    """fields covered by P[a:b][_k] / P[_k + a] inside an _each over a slice of P: range of absolute indices"""
    if isinstance(e, ast.Subscript) and norm(e.value) == P:
        sl = e.slice
        if isinstance(sl, ast.Name) and sl.id.startswith('_k'):
            return None     # bounds come from the iterable, handled by the caller
        if isinstance(sl, ast.BinOp) and isinstance(sl.op, ast.Add) and isinstance(sl.left, ast.Name) and \
           sl.left.id.startswith('_k') and isinstance(sl.right, ast.Constant):
            return (sl.right.value, n)
    return None


def _base(it):
    """L for `L with element i replaced` (the replaced element is not a field any more)"""
    while isinstance(it, ast.Call) and isinstance(it.func, ast.Name) and it.func.id == '_with' and len(it.args) == 3:
        it = it.args[0]
    return it


def _replaced(it):
    out = set()
    while isinstance(it, ast.Call) and isinstance(it.func, ast.Name) and it.func.id == '_with' and len(it.args) == 3:
        if isinstance(it.args[1], ast.Constant):
            out.add(it.args[1].value)
        it = it.args[0]
    return out


def _slice_bounds(it, P, n):
    """(lo, hi) when `it` is P or P[a:b]"""
    it = _base(it)
    if norm(it) == P:
        return (0, n)
    if isinstance(it, ast.Subscript) and norm(it.value) == P and isinstance(it.slice, ast.Slice) and it.slice.step is None:
        def cv(x, default):
            if x is None:
                return default
            if isinstance(x, ast.Constant) and isinstance(x.value, int):
                return x.value if x.value >= 0 else n + x.value
            if isinstance(x, ast.UnaryOp) and isinstance(x.op, ast.USub) and isinstance(x.operand, ast.Constant):
                return n - x.operand.value
            return None
        lo, hi = cv(it.slice.lower, 0), cv(it.slice.upper, n)
        if lo is None or hi is None:
            return None
        return (max(0, lo), min(n, hi))
    return None


def _fields_of(e, P, n):
    """absolute indices of the fields of P that the expression e reads"""
    out = set()
    for x in ast.walk(e):
        i = _index_of(x, P, n)
        if i is not None and 0 <= i < n:
            out.add(i)
        r = _range_of(x, P, n)
        if r is not None:
            out |= set(range(r[0], r[1]))
        if isinstance(x, ast.Call) and isinstance(x.func, ast.Name) and x.func.id == '_each' and len(x.args) == 2:
            b = _slice_bounds(x.args[1], P, n)
            if b is not None and any(isinstance(y, ast.Subscript) and norm(y.value) == P and isinstance(y.slice, ast.Name)
                                     for y in ast.walk(x.args[0])):
                out |= set(range(b[0], b[1]))
    return out


def _collect_fields(ctx, om, p, P, n, dispatch):
    exprs = []
    for ev in p.events:
        if ev[0] in ('call',):
            exprs.append(ev[1])
        elif ev[0] == 'create':
            exprs.append(ev[2])
        elif ev[0] == 'store':
            exprs.append(ev[2])
            try:
                exprs.append(ast.parse(ev[1], mode='eval').body)
            except SyntaxError:
                pass
    for t, b in p.conds:
        if isinstance(b, bool):
            try:
                exprs.append(ast.parse(t, mode='eval').body)
            except SyntaxError:
                pass
    for e in exprs:
        for x in ast.walk(e):
            # converters
            if isinstance(x, ast.Call) and isinstance(x.func, ast.Name) and x.func.id in ('int', 'float', 'complex') \
               and len(x.args) == 1:
                for i in _fields_of_direct(x.args[0], P, n):
                    om.conv.setdefault((n, i), set()).add(x.func.id)
            if isinstance(x, ast.Call) and isinstance(x.func, ast.Name) and x.func.id == '_each' and len(x.args) == 2:
                b = _slice_bounds(x.args[1], P, n)
                if b is not None:
                    skip = {b[0] + r_ for r_ in _replaced(x.args[1])}
                    ittxt = norm(x.args[1])
                    for c_ in ast.walk(x.args[0]):
                        # a converter applied to the element of the iterable: every field of the slice
                        if isinstance(c_, ast.Call) and isinstance(c_.func, ast.Name) and c_.func.id in ('int', 'float', 'complex') \
                           and len(c_.args) == 1 and isinstance(c_.args[0], ast.Subscript):
                            a0 = c_.args[0]
                            rng = None
                            if norm(a0.value) == ittxt and isinstance(a0.slice, ast.Name) and a0.slice.id.startswith('_k'):
                                rng = range(b[0], b[1])
                            elif norm(a0.value) == P and isinstance(a0.slice, ast.Name) and a0.slice.id.startswith('_k'):
                                rng = range(b[0], b[1])
                            elif norm(a0.value) == P and isinstance(a0.slice, ast.BinOp) and isinstance(a0.slice.op, ast.Add) \
                                    and isinstance(a0.slice.right, ast.Constant) and isinstance(a0.slice.left, ast.Name):
                                off = a0.slice.right.value
                                rng = range(off, off + (b[1] - b[0]))
                            if rng is not None:
                                for i in rng:
                                    if 0 <= i < n and i not in skip:
                                        om.conv.setdefault((n, i), set()).add(c_.func.id)
            # tags: by_tag[...] keys, tag / geo_tag arguments
            if isinstance(x, ast.Subscript) and isinstance(x.value, ast.Attribute) and x.value.attr == 'by_tag':
                for i in _fields_of(x.slice, P, n):
                    om.tags.setdefault((n, i), 'key of by_tag')
            if isinstance(x, ast.Call) and isinstance(x.func, ast.Attribute) and x.func.attr == 'get' and x.args and \
               isinstance(x.func.value, ast.Attribute) and x.func.value.attr == 'by_tag':
                for i in _fields_of(x.args[0], P, n):
                    om.tags.setdefault((n, i), 'key of by_tag')
            if isinstance(x, ast.Call):
                for a in _tag_params(ctx, x):
                    for i in _fields_of(a, P, n):
                        om.tags.setdefault((n, i), 'argument tag/geo_tag of %s' % norm(x.func)[:40])
                for i in _star_tag_fields(ctx, x, P, n):
                    om.tags.setdefault((n, i), 'argument tag/geo_tag of %s (through *fields)' % norm(x.func)[:40])
            # deferred transformation: (key, geo.rotate, vector, tag, text) dispatched as t[1](t[0], t[2], t[3])
            if dispatch is not None and isinstance(x, ast.Tuple) and len(x.elts) > max(dispatch[1] + [dispatch[0]]):
                fn = x.elts[dispatch[0]]
                if isinstance(fn, ast.Attribute) and fn.attr in ('rotate', 'translate', 'scale'):
                    g = None
                    for cand in ctx.model.methods_named(fn.attr):
                        if cand.cls is not None and cand.cls.name == 'Geo_Container':
                            g = cand
                    if g is not None:
                        ps = g.bound_params()
                        for pos, ti in enumerate(dispatch[1]):
                            if pos < len(ps) and ps[pos] in ('tag', 'geo_tag'):
                                for i in _fields_of(x.elts[ti], P, n):
                                    om.tags.setdefault((n, i), 'tag slot of a deferred %s' % fn.attr)


def _fields_of_direct(e, P, n):
    """fields read by a converter argument: P[i] itself (not nested converters of other fields)"""
    i = _index_of(e, P, n)
    if i is not None and 0 <= i < n:
        return {i}
    return set()


def _star_calls_fit(ctx, p, P, n):
    """constructor / function calls with *<fields of P>: the number of fields must fit the signature"""
    m = ctx.model
    for ev in p.events:
        call = ev[2] if ev[0] == 'create' else (ev[1] if ev[0] == 'call' else None)
        if not isinstance(call, ast.Call):
            continue
        stars = [a for a in call.args if isinstance(a, ast.Starred)]
        if len(stars) != 1:
            continue
        from .symx import _each_of
        ea = _each_of(stars[0].value)
        if ea is None:
            continue
        b = _slice_bounds(ea[1], P, n)
        if b is None:
            continue
        g = None
        if isinstance(call.func, ast.Name) and call.func.id in m.classes:
            g = m.resolve_method(call.func.id, '__init__')
        if g is None or g.node.args.vararg is not None:
            continue
        params = g.bound_params()
        npos = len([a for a in call.args if not isinstance(a, ast.Starred)]) + (b[1] - b[0])
        given_kw = {k.arg for k in call.keywords if k.arg}
        nreq = len([p_ for p_ in params[:len(params) - len(g.node.args.defaults)] if p_ not in given_kw])
        if npos > len(params) or npos < nreq:
            return False
    return True


def _callee_candidates(ctx, call):
    m = ctx.model
    fn = call.func
    name = fn.attr if isinstance(fn, ast.Attribute) else (fn.id if isinstance(fn, ast.Name) else None)
    if name is None:
        return []
    if isinstance(fn, ast.Name) and name in m.classes:
        init = m.resolve_method(name, '__init__')
        return [init] if init else []
    if isinstance(fn, ast.Attribute):
        return list(m.methods_named(name))
    g = m.funcs.get('mininec.' + name)
    return [g] if g else []


def _seq_len(v, P, n):
    """number of elements of a sequence expression built from the fields of P (None if unknown)"""
    from .symx import _each_of
    if norm(v) == P:
        return n
    if isinstance(v, ast.Call) and isinstance(v.func, ast.Name) and v.func.id == '_with' and len(v.args) == 3:
        return _seq_len(v.args[0], P, n)
    if isinstance(v, (ast.List, ast.Tuple)) and not any(isinstance(x, ast.Starred) for x in v.elts):
        return len(v.elts)
    ea = _each_of(v)
    if ea is not None:
        return _seq_len(ea[1], P, n)
    if isinstance(v, ast.Subscript) and isinstance(v.slice, ast.Slice) and v.slice.step is None:
        base = _seq_len(v.value, P, n)
        if base is None:
            return None

        def cv(x, default):
            if x is None:
                return default
            if isinstance(x, ast.Constant) and isinstance(x.value, int):
                return x.value if x.value >= 0 else base + x.value
            return None
        lo, hi = cv(v.slice.lower, 0), cv(v.slice.upper, base)
        if lo is None or hi is None:
            return None
        return max(0, min(hi, base) - max(lo, 0))
    return None


def _star_tag_fields(ctx, call, P, n):
    """f(a, *<sequence built from the fields of P>): the fields that land on a parameter named tag / geo_tag"""
    from .symx import simplify
    out = set()
    pos = 0
    for a in call.args:
        if isinstance(a, ast.Starred):
            ln = _seq_len(a.value, P, n)
            if ln is None:
                return out
            for g in _callee_candidates(ctx, call):
                ps = g.bound_params() if g.cls is not None else list(g.all_params)
                for j in range(ln):
                    if pos + j < len(ps) and ps[pos + j] in ('tag', 'geo_tag'):
                        elem = simplify(ast.Subscript(value=a.value, slice=ast.Constant(value=j), ctx=ast.Load()))
                        out |= _fields_of(elem, P, n)
            pos += ln
        else:
            pos += 1
    return out


def feasible_counts(p):
    """field counts n for which the tests on len(<option text>.split(',')) passed on path p are consistent
    (None when the path tests no such length)"""
    lens = set()
    for t, b in p.conds:
        if isinstance(b, bool):
            for mo in re.finditer(r"len\((args\.\w+(\[_k\d+\])?(\.strip\(\))?\.split\(','\))\)", t):
                lens.add(mo.group(0))
    if not lens:
        return None
    out = set()
    for n_ in range(0, MAXN + 1):
        env = {l_: n_ for l_ in lens}
        ok = True
        for t, b in p.conds:
            if not isinstance(b, bool) or not any(l_ in t for l_ in lens):
                continue
            try:
                v = _val(ast.parse(t, mode='eval').body, env)
            except (Undecided, SyntaxError, TypeError):
                continue
            if bool(v) != b:
                ok = False
                break
        if ok:
            out.add(n_)
    return out
