M = 'mininec.Mininec.'
MUTANTS = [
    ('positive half uses direction of negative half', [(M + 'nf_helper', "u * d2 [pidx] * v7", "u * d1 [pidx] * v7")], ['coherent-product', 'complete-term']),
    ('positive half without sign', [(M + 'nf_helper', "            ( self.psi (v2, vv, k, 0.5, pidx, exact = False)\n            * self.pulses.sign [..., 1][pidx]\n            ) [..., np.newaxis]", "            ( self.psi (v2, vv, k, 0.5, pidx, exact = False)\n            ) [..., np.newaxis]")], ['complete-term', 'families']),
    ('negative half with positive scale', [(M + 'nf_helper', "self.psi (v2, vv, k, -0.5, pidx, exact = False)", "self.psi (v2, vv, k, 0.5, pidx, exact = False)")], ['potential-half', 'coherent-product']),
    ('ground sign of wrong half', [(M + 'nf_helper', "v7 [..., 2] = gs.T [1][pidx]", "v7 [..., 2] = gs.T [0][pidx]")], ['coherent-product', 'complete-term']),
    ('negative half geometry from positive dvecs', [(M + 'nf_helper', "dv          = self.pulses.dvecs (-0.5)", "dv          = self.pulses.dvecs (0.5)")], ['potential-half', 'coherent-product']),
    ('gradient divided by other half length', [(M + 'compute_near_field', "u    = tmp2 / sl [:, 1, np.newaxis]", "u    = tmp2 / sl [:, 0, np.newaxis]")], ['coherent-product', 'difference-length']),
    ('psi56 uses fixed half geometry', [(M + 'psi_near_field_56', "dv = self.pulses.dvecs (ds2)", "dv = self.pulses.dvecs (1)")], ['potential-half', 'one-selector']),
    ('E not scaled', [(M + 'compute_near_field', "self.e_field.append (u78 * f_e)", "self.e_field.append (u78)")], ['field-scaling', 'scaled']),
    ('fields not reset', [(M + 'compute_near_field', "        self.e_field = []\n", "")], ['FRESH', 'fields']),
    ('H scale without 4 pi', [(M + 'compute_near_field', "f_h = f_e / s0 / (4*np.pi)", "f_h = f_e / s0")], ['field-scaling']),
    ('H image not signed', [(M + 'compute_near_field', "kf += np.sum ((v35_h * curr) [cond], axis = 0) * k", "kf += np.sum ((v35_h * curr) [cond], axis = 0)")], ['image-loop']),
    ('curl term with the wrong sign', [('mininec.Mininec.compute_near_field', "            h [1]  = kf [0][0][2] - kf [1][0][2]\n", "            h [1]  = kf [1][0][2] - kf [0][0][2]\n")], ['curl']),
    ('curl term reads the wrong component', [('mininec.Mininec.compute_near_field', "            h [0]  = kf [1][1][2] - kf [0][1][2]\n", "            h [0]  = kf [1][1][0] - kf [0][1][0]\n")], ['curl']),
    ('curl with the displaced points in the other order', [('mininec.Mininec.compute_near_field', "for j8 in (-1, 1)", "for j8 in (1, -1)")], ['curl']),
    ('curl term loses its imaginary part', [('mininec.Mininec.compute_near_field', "                     + (kf [1][2][0].imag - kf [0][2][0].imag) * 1j\n", "                     + (kf [1][2][0].imag - kf [0][2][0].imag)\n")], ['curl']),
    ('image charges reflected through the origin', [('mininec.Mininec.psi_near_field_56', "        v2 = vec1 - kvec * v2 [pidx]", "        v2 = vec1 - k * v2 [pidx]")], ['image-mirror']),
]
REFACTORS = [
    ('terms reordered', [(M + 'nf_helper', "return (v * d1 [pidx] * v6 + u * d2 [pidx] * v7) * kvec", "return kvec * (v7 * u * d2 [pidx] + v6 * d1 [pidx] * v)")]),
    ('rename direction locals', [(M + 'nf_helper', "        d1          = dir [:, 0, :]\n        d2          = dir [:, 1, :]", "        dneg        = dir [:, 0, :]\n        dpos        = dir [:, 1, :]"),
                                  (M + 'nf_helper', "return (v * d1 [pidx] * v6 + u * d2 [pidx] * v7) * kvec", "return (v * dneg [pidx] * v6 + u * dpos [pidx] * v7) * kvec")]),
    ('f_e via temporary', [(M + 'compute_near_field', "f_e = np.sqrt (pwr / self.power)", "ratio = pwr / self.power\n        f_e = np.sqrt (ratio)")]),
    ('curl terms as plain complex differences', [('mininec.Mininec.compute_near_field', "            h [1] += (  kf [1][2][0].real - kf [0][2][0].real\n                     + (kf [1][2][0].imag - kf [0][2][0].imag) * 1j\n                     )\n", "            h [1] += kf [1][2][0] - kf [0][2][0]\n")]),
]
