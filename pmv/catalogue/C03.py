M = 'mininec.Mininec.'
MUTANTS = [
    ('far field without image', [(M + 'compute_far_field', "for k in self.image_iter ():", "for k in iter ([1]):")], ['image-loop']),
    ('near field without image', [(M + 'compute_near_field', "            for k in self.image_iter ():", "            for k in iter ([1]):")], ['image-loop']),
    ('image also in free space', [(M + 'image_iter', "        if self.media is None:\n            return iter ([1])\n", "")], ['image-iter']),
    ('image with positive sign', [(M + 'image_iter', "return iter ([1, -1])", "return iter ([1, 1])")], ['image-iter']),
    ('near field image not signed', [(M + 'compute_near_field', "u56 [cond] += ((u + tmp2 + d) * k) [cond]", "u56 [cond] += ((u + tmp2 + d)) [cond]")], ['image-loop']),
    ('matrix image not signed', [(M + 'compute_impedance_matrix', "self.Z    += k * (d + u12)", "self.Z    += (d + u12)")], ['image-loop']),
    ('load doubling only when end 1 grounded', [(M + 'compute_impedance_matrix_loads', "if pulse.ground.any () and self.media is not None:", "if pulse.ground [0] and self.media is not None:")], ['weight', 'grounded']),
    ('source not doubled', [(M + 'compute_rhs', "f2 = -2j/self.m", "f2 = -1j/self.m")], ['weight', 'grounded']),
    ('grounded end 2 creates no pulse', [('mininec.Geobj.compute_connections', "        if self.is_ground [1]:\n            end2 = p2 - lseg.dirvec * lseg.seg_len * invz", "        if False and self.is_ground [1]:\n            end2 = p2 - lseg.dirvec * lseg.seg_len * invz")], ['grounded-pulse']),
    ('mirror vector wrong axis', [('mininec.Geobj.compute_connections', "invz = np.array ([1, 1, -1])", "invz = np.array ([1, -1, 1])")], ['grounded-pulse']),
    ('ground sign not applied', [('pulse.Pulse.__init__', "            self.gnd_sgn [self.ground] = -1\n", "")], ['grounded-pulse']),
    ('grounded objects count as connected', [('mininec.Geobj.is_connected', "        if other is self:", "        if any (self.is_ground) and any (other.is_ground):\n            return True\n        if other is self:")], ['no-object-ground-state']),
    ('ground flag never set', [('pulse.Pulse.__init__', "            self.ground [gnd] = True", "            self.ground [gnd] = False")], ['grounded-pulse']),
    ('inverse ground flags not swapped', [('pulse.Pulse.__init__', "np.array ([self.ground [1], self.ground [0]])", "np.array ([self.ground [0], self.ground [1]])")], ['grounded-pulse']),
    ('ground sign computed but not multiplied in', [('pulse.Pulse.__init__', "            self.sign    = self.sign * self.gnd_sgn\n", "")], ['grounded-pulse']),
    ('ground sign +1', [('pulse.Pulse.__init__', "            self.gnd_sgn [self.ground] = -1\n", "            self.gnd_sgn [self.ground] = 1\n")], ['grounded-pulse']),
    ('vertical test with a tolerance', [('pulse.Pulse.is_non_vertical_grounded', "        return (   (self.ground [0] or self.ground [1])\n               and (self.segs [0].dirvec [0] or self.segs [0].dirvec [1])\n               )", "        return bool (self.ground.any () and np.hypot (self.segs [0].dirvec [0], self.segs [0].dirvec [1]) > 0.01)")], ['vertical-exact']),
    ('reduced kernel for every image pair', [('mininec.Mininec.scalar_potential', "            xct = np.logical_not (wd)", "            xct = np.logical_not (wd) if k > 0 else np.zeros_like (wd)")], ['kernel-choice']),
    ('horizontal weight zeroed for one half only', [('mininec.Mininec.compute_far_field', "                kv2g [pv.inv_ground] = np.array ([0, 0, 2])", "                kv2g [pv.inv_ground] = np.array ([0, 0, 2])\n                kv2g [pv.ground.any (axis = 1), 1, :2] = 0")], ['half-weights']),
]
REFACTORS = [
    ('image_iter with list variable', [(M + 'image_iter', "        if self.media is None:\n            return iter ([1])\n        return iter ([1, -1])", "        if self.media is None:\n            return iter ([1])\n        else:\n            return iter ([1, -1])")]),
    ('Z accumulate reordered', [(M + 'compute_impedance_matrix', "self.Z    += k * (d + u12)", "self.Z    += (u12 + d) * k")]),
    ('direction sign by conditional expression', [('pulse.Pulse.__init__', "        self.dir_sgn = sgn\n        if sgn is None:\n            self.dir_sgn = [1, 1]\n", "        self.dir_sgn = [1, 1] if sgn is None else sgn\n")]),
    ('ground sign product commuted', [('pulse.Pulse.__init__', "            self.sign    = self.sign * self.gnd_sgn\n", "            self.sign    = self.gnd_sgn * self.sign\n")]),
    ('weights zeroed for both halves by literal index', [('mininec.Mininec.compute_far_field', "                kv2g [pv.inv_ground] = np.array ([0, 0, 2])", "                kv2g [pv.inv_ground] = np.array ([0, 0, 2])\n                kv2g [pv.ground.all (axis = 1), 0, :2] = 0\n                kv2g [pv.ground.all (axis = 1), 1, :2] = 0")]),
]
