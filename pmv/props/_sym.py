"""R-SYM.ground-halves: a pulse can be grounded at its first or its second half (a wire can end on
the ground plane with end 1 or end 2).  Every statement that selects one half of the per-half
ground flags (Pulse.ground, Pulse.inv_ground, Pulse_Container.ground / inv_ground / matrix_ground)
by a literal index must select the other half in the same statement too - a one-sided test
(`ground[0]` without `ground[1]`) silently drops wires drawn towards the ground."""
import ast
from ..model import norm, dotted, walk_no_nested, parent, enclosing_stmt

GROUND_ATTRS = ('ground', 'inv_ground')


def _ground_base(e, aliases):
    """True if expression e denotes (an elementwise transform of) the per-half ground flags"""
    if isinstance(e, ast.Attribute):
        if e.attr in GROUND_ATTRS:
            return True
        if e.attr == 'T':
            return _ground_base(e.value, aliases)
        return False
    if isinstance(e, ast.Subscript):
        # matrix_ground[role]
        if isinstance(e.value, ast.Attribute) and e.value.attr in ('matrix_ground', 'matrix_inv_ground'):
            return True
        return False
    if isinstance(e, ast.Name):
        return e.id in aliases
    if isinstance(e, ast.Call) and (dotted(e.func) or '') in ('np.logical_not', 'np.array', 'np.copy') and e.args:
        return _ground_base(e.args[0], aliases)
    if isinstance(e, ast.UnaryOp) and isinstance(e.op, (ast.Invert, ast.Not)):
        return _ground_base(e.operand, aliases)         # ~flags: elementwise not
    return False


def _half_literal(sub):
    """literal half index selected by a subscript on a ground-family array, else None"""
    s = sub.slice
    elts = list(s.elts) if isinstance(s, ast.Tuple) else [s]
    lits = [x for x in elts if isinstance(x, ast.Constant) and x.value in (0, 1) and not isinstance(x.value, bool)]
    others = [x for x in elts if x not in lits]
    full = all((isinstance(x, ast.Slice) and x.lower is None and x.upper is None) or
               (isinstance(x, ast.Constant) and x.value is Ellipsis) for x in others)
    if len(lits) == 1 and full:
        return lits[0].value
    return None


def ground_half_selections(func):
    """[(stmt, half, node)] for literal half selections on ground-family arrays in func"""
    aliases = set()
    for _ in range(2):
        for s in walk_no_nested(func.node):
            if isinstance(s, ast.Assign) and len(s.targets) == 1 and isinstance(s.targets[0], ast.Name):
                if _ground_base(s.value, aliases):
                    aliases.add(s.targets[0].id)
    out = []
    for n in walk_no_nested(func.node):
        if isinstance(n, ast.Subscript) and _ground_base(n.value, aliases):
            h = _half_literal(n)
            if h is not None:
                st = enclosing_stmt(n)
                out.append((st, h, n))
    return out


def check_ground_symmetry(ctx, ck, rule='R-SYM.ground-halves'):
    m = ctx.model
    n_sel = 0
    n_stmt = 0
    for f in sorted(m.all_funcs(), key=lambda x: x.qual):
        sels = ground_half_selections(f)
        by_stmt = {}
        for st, h, node in sels:
            by_stmt.setdefault(id(st), [st, set(), node])[1].add(h)
            n_sel += 1
        for key, (st, halves, node) in by_stmt.items():
            n_stmt += 1
            ok = halves == {0, 1}
            # header of an if/while: only the test counts
            txt = norm(st.test) if isinstance(st, (ast.If, ast.While)) else norm(st)
            ck.ob(rule, '%s|%s' % (f.qual, txt[:70]), ok, f.loc(node),
                  'both halves of the ground flags are consulted' if ok else
                  'only half %s of the per-half ground flags is consulted: a pulse grounded at its other '
                  'half (wire drawn towards the ground) is treated as not grounded' % sorted(halves))
    return n_sel, n_stmt
