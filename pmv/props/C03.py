"""C03  Image theory: ideal ground equals free space plus mirrored antenna.

Decided:
 D1 R-EXH  every integrator over pulses (matrix fill, far field, near field) iterates the image
           loop self.image_iter() and accumulates each image contribution with a value that depends
           on the image sign; image_iter yields [1, -1] exactly when a ground is present
           (media is not None), [1] otherwise.
 D2 R-SIB  the factor 2 for grounded pulses is applied under the same predicate to the source
           (compute_rhs) and to a load (compute_impedance_matrix_loads)  (= C08-D2).
 D3 R-PAIR grounded wire ends become pulses at both ends (Pulse(gnd=K) under is_ground[K], K=0,1)
           whose other half is the z-mirrored segment (invz = [1, 1, -1]); the ground sign of a
           grounded half is -1 and the pulse sign is direction sign * ground sign.
Not decided: numeric equality with the mirrored free-space model, the 3.0103 dB.
"""
import ast
import re
from ..model import AnalysisError, walk_no_nested, norm, dotted, parent
from ..dataflow import product_of
from ..rules import loops_in, loop_reaches_on_all_paths
from ..cfg import if_chain_preds

INTEGRATORS = ['mininec.Mininec.compute_impedance_matrix', 'mininec.Mininec.compute_far_field',
               'mininec.Mininec.compute_near_field']


def base_name(t):
    while isinstance(t, (ast.Subscript, ast.Attribute)):
        t = t.value
    return t.id if isinstance(t, ast.Name) else None


def check_kernel_choice(ctx, ck, rule='R-DEP.kernel-choice'):
    """scalar_potential / vector_potential hand psi a mask `exact=X[pairs]`: X (the pairs for which the exact kernel
    may be used) is one expression on every path and does not mention the image index; the selection of the pairs
    (`[...]`) legitimately depends on k.  In image theory the image of a segment is integrated exactly like the
    segment of the mirrored free-space model, where a grounded wire and its mirror image are connected conductors."""
    from ..symx import SymExec
    m = ctx.model
    n = 0
    from ..rules import self_closure
    cands = {}
    for q in ('mininec.Mininec.scalar_potential', 'mininec.Mininec.vector_potential'):
        for g_ in self_closure(ctx, m.func(q)):
            # (the function that hands psi its `exact` mask: the potentials themselves or a helper they share)
            if any(isinstance(c_, ast.Call) and isinstance(c_.func, ast.Attribute) and c_.func.attr == 'psi' and
                   any(k_.arg == 'exact' for k_ in c_.keywords) for c_ in walk_no_nested(g_.node)):
                cands[g_.qual] = g_
    for q, f in sorted(cands.items()):
        kname = 'k' if 'k' in f.params else (f.params[1] if len(f.params) > 1 else 'k')
        bases = {}
        for p_ in SymExec(ctx, f, depth=3, max_paths=4000).run():
            if p_.end == 'raise':
                continue
            for ev in p_.events:
                if ev[0] == 'call' and isinstance(ev[1].func, ast.Attribute) and ev[1].func.attr == 'psi':
                    kw = {k_.arg: k_.value for k_ in ev[1].keywords}
                    v = kw.get('exact')
                    if v is None:
                        continue
                    b = v.value if isinstance(v, ast.Subscript) else v
                    bases.setdefault(norm(b), (b, [c_ for c_ in p_.conds if isinstance(c_[0], str) and
                                                   re.search(r'\b%s\b' % kname, c_[0]) and len(c_[0]) < 40]))
        if not bases:
            # the call is not a statement of its own on the walk (`return self.psi(..)`): judged by what the mask is
            # computed from - when the image index is not among its roots the answer is the same
            fl_ = ctx.flow(f)
            und = False
            for c_ in walk_no_nested(f.node):
                if isinstance(c_, ast.Call) and isinstance(c_.func, ast.Attribute) and c_.func.attr == 'psi':
                    v = {k_.arg: k_.value for k_ in c_.keywords}.get('exact')
                    if v is None:
                        continue
                    b = v.value if isinstance(v, ast.Subscript) else v
                    r_ = fl_.roots(b, fl_.node_id_of(c_))
                    if ('param', kname) in r_:
                        und = True
                    else:
                        bases[norm(b)] = (b, [])
            if und:
                raise AnalysisError('%s: the exact-kernel mask handed to psi depends on %s in a way that is not followed' % (q, kname))
            if not bases:
                continue
        n += 1
        dep = [t_ for t_, (b, cs) in bases.items() if any(isinstance(x_, ast.Name) and x_.id == kname for x_ in ast.walk(b))]
        by_k = len(bases) > 1 and any(cs for t_, (b, cs) in bases.items())
        ok = not dep and not by_k
        why = 'exact-kernel pairs: %s' % sorted(bases)[0][:80]
        if not ok:
            why = ('the pairs integrated with the exact kernel differ with the image index: %s' % '; '.join(
                '%s when %s' % (t_[:90], ['%s is %s' % c_ for c_ in cs] or 'otherwise') for t_, (b, cs) in sorted(bases.items())))
        ck.ob(rule, q, ok, f.loc(), why)
    return n


def run(ctx, ck):
    m = ctx.model
    ck.rule('R-EXH.image-loop', 'each integrator loops over image_iter() and accumulates with the image sign')
    ck.rule('R-LIT.image-iter', 'image_iter = [1] without ground, [1, -1] with ground')
    ck.rule('R-SIB.weight', 'factor 2 for grounded pulses: same predicate for source and load')
    ck.rule('R-PAIR.grounded-pulse', 'grounded ends become pulses with a z-mirrored second half')

    from .C10 import find_integrator
    for q0 in INTEGRATORS:
        cands = find_integrator(ctx, q0)
        ck.ob('R-EXH.image-loop', q0 + '|loop', len(cands) == 1, m.func(q0).loc(),
              'image loop found in %s' % [g_.qual for g_ in cands] if cands else
              'no loop over self.image_iter() in %s or the helpers it calls' % q0)
        if len(cands) != 1:
            continue
        f = cands[0]
        q = f.qual
        fl = ctx.flow(f)
        ls = [l for l in loops_in(f.node) if isinstance(l, ast.For) and norm(l.iter) == 'self.image_iter()']
        if not ls:
            ck.ob('R-EXH.image-loop', q + '|single-loop', False, f.loc(), 'no image loop')
            continue
        # (one loop over the images, or one per quantity - E and H each with their own: every one is judged)
        n_res_total = 0
        for l in ls:
            kv = l.target.id if isinstance(l.target, ast.Name) else None
            accs = [s for s in walk_no_nested(l) if isinstance(s, ast.AugAssign) and isinstance(s.op, ast.Add)
                    and (dotted(s.target) or base_name(s.target)) not in (None,)]
            # accumulations into result arrays (attribute self.Z or arrays defined outside the loop)
            body_ids = fl.cfg.loops[fl.cfg.node_of(l)][0]
            res = []
            for s in accs:
                bn = base_name(s.target)
                if bn == 'self':
                    res.append(s)
                elif bn in fl.rd.names:
                    defs = [d for d in fl.def_exprs(bn, fl.cfg.node_of(l)) if d[0] == 'assign']
                    if defs and all(d[2] not in body_ids for d in defs):
                        res.append(s)
            n_res_total += len(res)
            for s in res:
                nid = fl.node_id_of(s)
                pr = product_of(s.value)
                direct = any(isinstance(x, ast.Name) and x.id == kv for t, x in pr.num)
                v = s.value
                while isinstance(v, ast.Subscript) and not direct:
                    v = v.value
                    pr2 = product_of(v)
                    direct = any(isinstance(x, ast.Name) and x.id == kv for t, x in pr2.num)
                dep = direct
                if not dep:
                    # far-field style: a multiplicative factor is a sign array built (inside the loop)
                    # only by array constructors from literals and the image sign (kvec, kv2, kv2g)
                    CONSTR = ('np.array', 'np.tile', 'np.copy', 'np.ones', 'np.zeros', 'np.where', 'np.repeat', 'np.broadcast_to')

                    def is_sign_array(name, at, depth, seen):
                        if depth <= 0 or (name, at) in seen:
                            return False
                        seen.add((name, at))
                        ds = [d for d in fl.def_exprs(name, at) if d[0] == 'assign' and d[2] in body_ids]
                        if not ds:
                            return False
                        found = False
                        for d in ds:
                            e = d[1]
                            if not (isinstance(e, ast.Call) and (dotted(e.func) or '') in CONSTR):
                                return False
                            for x in ast.walk(e):
                                if isinstance(x, ast.Name) and x.id == kv:
                                    found = True
                                elif isinstance(x, ast.Name) and x.id in fl.rd.names and x.id != name:
                                    if is_sign_array(x.id, d[2], depth - 1, seen):
                                        found = True
                        return found
                    v2 = s.value
                    cands = []
                    for sub in ast.walk(v2):
                        if isinstance(sub, ast.BinOp) and isinstance(sub.op, ast.Mult):
                            for t_, x_ in product_of(sub).num:
                                b_ = x_
                                while isinstance(b_, (ast.Attribute, ast.Subscript)):
                                    b_ = b_.value
                                if isinstance(b_, ast.Name):
                                    cands.append(b_.id)
                    dep = any(is_sign_array(nm, nid, 4, set()) for nm in set(cands))
                    if not dep:
                        # the sign arrays may be built in a helper that was written back in place, or be
                        # folded into one expression: judge the factors of the accumulated product by what
                        # they derive from - one of them must derive from the image sign (loop variable /
                        # image_iter) and from literals and array constructors only, apart from masks
                        from ..dataflow import value_alternatives
                        alts_ = value_alternatives(fl, v2, nid)
                        found_all = bool(alts_)
                        for alt_, at_ in alts_:
                          found_ = False
                          for sub in ast.walk(alt_):
                            if not (isinstance(sub, ast.BinOp) and isinstance(sub.op, ast.Mult)):
                                continue
                            for t_, x_ in product_of(sub).num:
                                r_ = fl.roots(x_, at_)
                                from_sign = ('call', 'self.image_iter') in r_ or ('iter', kv) in r_
                                data = [y_ for y_ in r_ if y_[0] in ('attr', 'param') and not (
                                    y_[0] == 'attr' and (y_[1].startswith('self.pulses.') or y_[1] == 'self.pulses' or y_[1] == 'self.media'))
                                    and y_ != ('param', 'self')]
                                if from_sign and not data:
                                    found_ = True
                          found_all = found_all and found_
                        dep = dep or found_all
                ck.ob('R-EXH.image-loop', '%s|accumulate %s' % (q, norm(s.target)[:40]), dep, f.loc(s),
                      'image contribution weighted by the image sign%s' % (' (factor k)' if direct else
                                                                           ' (through sign arrays)') if dep
                      else 'accumulated value does not depend on the image sign')
        ck.floor('image accumulations in ' + q.split('.')[-1], n_res_total, 1)
    it = m.func('mininec.Mininec.image_iter')
    # closed returned sequences per path (tables, slices and iter/list wrappers folded)
    from ..symx import closed_returns
    shapes = {}
    for conds_, ret_ in closed_returns(ctx, it, private_only=True):
        v_ = ret_
        while isinstance(v_, ast.Call) and isinstance(v_.func, ast.Name) and v_.func.id in ('iter', 'list', 'tuple') \
                and len(v_.args) == 1:
            v_ = v_.args[0]
        seq = None
        if isinstance(v_, (ast.List, ast.Tuple)):
            try:
                seq = tuple(ast.literal_eval(x_) for x_ in v_.elts)
            except ValueError:
                seq = None
        mn = [b_ for t_, b_ in conds_ if t_ == 'self.media is None' and isinstance(b_, bool)]
        shapes.setdefault(seq if seq is not None else norm(ret_), set()).add(mn[-1] if mn else None)
    # [1] exactly when there is no ground (media is None), [1, -1] otherwise
    ok = set(shapes) == {(1,), (1, -1)} and shapes[(1,)] == {True} and shapes[(1, -1)] == {False}
    shapes = {str(k_): sorted(v_, key=str) for k_, v_ in shapes.items()}
    ck.ob('R-LIT.image-iter', it.qual, ok, it.loc(), 'returns %s' % shapes)

    from .C08 import check_weights
    check_weights(ctx, ck)

    # ---------------------------------------------------------------- D3
    # on the creation model (symbolic paths of compute_connections, helpers and generators looked
    # through): the pulse of a grounded end K is created under is_ground[K], its far point is built
    # with the z-mirror vector and both halves lie on the same segment
    from ._creation import creation_model, creations_of
    f, cpaths = creation_model(ctx)
    seen = {0: [], 1: []}
    for p_ in cpaths:
        for c in creations_of(p_):
            g_ = c.kws.get('gnd')
            if g_ is None:
                continue
            K = g_.value if isinstance(g_, ast.Constant) and g_.value in (0, 1) else None
            if K is None:
                seen[0].append((False, c, 'gnd = %s is not a literal end number' % norm(g_)))
                continue
            guard = [b_ for t_, b_ in p_.conds if t_ == 'self.is_ground[%d]' % K and isinstance(b_, bool)]
            far = c.call.args[2] if K == 0 else c.call.args[3]
            ftxt = norm(far)
            mirrored = 'np.array([1, 1, -1])' in ftxt
            same = c.args[4] == c.args[5]
            ok_ = bool(guard) and guard[-1] is True and mirrored and same and len(c.call.args) >= 6
            seen[K].append((ok_, c, 'Pulse(gnd=%d) under is_ground[%d]=%s; mirrored end %s; halves on %s / %s'
                            % (K, K, guard[-1] if guard else 'untested', ftxt[:70], c.args[4], c.args[5])))
    mir = any('np.array([1, 1, -1])' in w_ for K in (0, 1) for ok_, c, w_ in seen[K])
    ck.ob('R-PAIR.grounded-pulse', f.qual + '|invz', mir, f.loc(), 'z-mirror vector [1, 1, -1]')
    for K in (0, 1):
        sites = {id(c.stmt) for ok_, c, w_ in seen[K]}
        bad = [x for x in seen[K] if not x[0]]
        ok = len(sites) == 1 and not bad
        why = (bad[0][2] if bad else ('%d Pulse(gnd=%d) creations' % (len(sites), K) if len(sites) != 1 else seen[K][0][2]))
        ck.ob('R-PAIR.grounded-pulse', '%s|end%d' % (f.qual, K + 1), ok,
              f.loc(seen[K][0][1].stmt) if seen[K] else f.loc(), why)
    check_pulse_ground_state(ctx, ck)
    from ._sym import check_ground_symmetry
    ck.rule('R-SYM.ground-halves', 'statements selecting one half of the ground flags select the other too')
    nsel, nst = check_ground_symmetry(ctx, ck)
    ck.floor('statements selecting a half of the ground flags', nst, 3)
    # the fill shortcuts of a grounded pulse are only valid for an exactly vertical segment
    ck.rule('R-LIT.vertical-exact', 'grounded-and-not-vertical is decided by exact zero tests of the horizontal direction components')
    from ._sym import check_vertical_exact
    ck.floor('tests in Pulse.is_non_vertical_grounded', check_vertical_exact(ctx, ck), 1)
    # the matrix fill treats the antenna over ground like the antenna plus its image in free space: apart from
    # the image terms (per-pulse ground flags, image sign) nothing in its closure may depend on which *objects*
    # touch the ground - the free-space model has no such notion (kernel choice, connectivity, shortcuts)
    ck.rule('R-EFFECT.no-object-ground-state', 'matrix fill / potentials do not read the per-object ground state')
    prog = ctx.program
    fill = m.func('mininec.Mininec.compute_impedance_matrix')
    seen_ = prog.closure([fill])
    ck.floor('functions in the matrix-fill closure', len(seen_), 20)
    hits = [e for q_ in sorted(seen_) for e in prog.effects.get(q_, []) if e.attr == 'is_ground' and e.mode == 'read']
    for e in hits:
        ck.ob('R-EFFECT.no-object-ground-state', '%s|%s.%s' % (e.func.qual, e.cls, e.attr), False, e.func.loc(e.node),
              '%s, reached from the matrix fill, reads %s.is_ground: the treatment of a pulse pair depends on whether '
              'objects end on the ground plane, which the equivalent free-space model with image wires cannot' % (e.func.qual, e.cls))
    ck.ob('R-EFFECT.no-object-ground-state', fill.qual + '|closure', not hits, fill.loc(),
          'closure of the matrix fill (%d functions) never reads an object\'s is_ground' % len(seen_))
    # the kernel is chosen by geometry alone: the image term is the free-space term of the mirrored segment
    ck.rule('R-DEP.kernel-choice', 'which pairs are integrated with the exact kernel does not depend on the image index k')
    ck.floor('potential calls with a kernel selection', check_kernel_choice(ctx, ck), 1)
    # the per-half weights of the far field treat both halves of a grounded pulse alike
    ck.rule('R-SYM.half-weights', 'a store into the per-half far-field weights that picks the half by a literal index is made for both halves')
    from ._sym import check_half_weight_symmetry
    # (no floor: a far field that builds its weights with np.where has no such array; the positive example of the
    # catalogue shows on every thorough run that the rule fires on today's layout)
    ck.info('per_half_weight_arrays_in_the_far_field', check_half_weight_symmetry(ctx, ck))
    # the image is the mirror image: positions go through kvec = (1, 1, k)
    ck.rule('R-SYM.image-mirror', 'positions are never multiplied by the scalar image index (only by the vector (1, 1, k))')
    from ._sym import check_image_mirror
    ck.floor('products with the image index', check_image_mirror(ctx, ck), 1)
    ck.undecided += ['numeric equality with the mirrored free-space model', 'gain 3.0103 dB above the free-space pair']


def check_pulse_ground_state(ctx, ck):
    """R-PAIR.grounded-pulse on Pulse.__init__: the state a pulse ends up with, as closed expressions of the
    symbolic walk (however the statements are written):
        ground     = [False, False] with entry gnd set when a ground end is given
        sign       = direction sign, times the ground sign (ones with -1 at the ground flags) where both halves
                     lie on the same object
        inv_ground = [ground[1], ground[0]]  (an attribute set by the constructor or a property of the class)"""
    from ..symx import SymExec
    m = ctx.model
    pi = m.func('pulse.Pulse.__init__')
    paths = [p_ for p_ in SymExec(ctx, pi, depth=2, effects=True).run() if p_.end != 'raise']
    if not paths:
        raise AnalysisError('pulse.Pulse.__init__: no symbolic path')
    G0 = 'np.array([False, False])'
    bad = None
    prod_conds, plain_conds = [], []
    n_ground = 0
    inv_attr = 0
    for p_ in paths:
        conds = {t_: b_ for t_, b_ in p_.conds if isinstance(b_, bool)}
        given = conds.get('gnd is None')
        if given is None and 'gnd is not None' in conds:
            given = not conds['gnd is not None']
        env = p_.env
        g_ = norm(env['self.ground']) if 'self.ground' in env else None
        want_g = G0 if given is True else ('_upd(%s, gnd, True)' % G0 if given is False else None)
        if want_g is None:
            raise AnalysisError('pulse.Pulse.__init__: a path does not test whether a ground end is given (%s)' % sorted(conds))
        if g_ != want_g:
            bad = bad or 'ground flags are %s where %s' % (g_, 'no ground end is given' if given else 'end gnd is grounded')
            continue
        n_ground += given is False
        sg = conds.get('sgn is None')
        if sg is None and 'sgn is not None' in conds:
            sg = not conds['sgn is not None']
        dirs = '[1, 1]' if sg is True else ('sgn' if sg is False else None)
        s_ = norm(env['self.sign']) if 'self.sign' in env else None
        gs = '_upd(np.ones(2), %s, -1)' % want_g
        if dirs is None:
            raise AnalysisError('pulse.Pulse.__init__: a path does not test whether direction signs are given')
        if s_ in ('%s * %s' % (dirs, gs), '%s * %s' % (gs, dirs)):
            prod_conds.append(conds)
        elif s_ == dirs:
            plain_conds.append(conds)
        else:
            bad = bad or 'sign is %s (direction sign %s, ground sign %s)' % (s_, dirs, gs)
        if 'self.inv_ground' in env:
            inv_attr += 1
            if norm(env['self.inv_ground']) != 'np.array([%s[1], %s[0]])' % (want_g, want_g):
                bad = bad or 'inv_ground is %s' % norm(env['self.inv_ground'])[:100]
    if bad is None and not prod_conds:
        bad = 'the ground sign never enters the sign of a pulse'
    if bad is None and plain_conds:
        # the ground sign is left out only where one and the same test (both halves on one object) fails
        common = [t_ for t_ in prod_conds[0] if all(c_.get(t_) is True for c_ in prod_conds) and
                  all(c_.get(t_) is False for c_ in plain_conds)]
        if not common:
            bad = 'the ground sign is left out on paths that no single test tells from the others'
    if bad is None and inv_attr == 0:
        g = m.resolve_method('Pulse', 'inv_ground')
        if g is None or g.kind not in ('property', 'cached_property'):
            bad = 'inv_ground is neither set by the constructor nor a property'
        else:
            rets = [p_ for p_ in SymExec(ctx, g, depth=2).run() if p_.end != 'raise']
            if len(rets) != 1 or rets[0].ret is None or norm(rets[0].ret) != 'np.array([self.ground[1], self.ground[0]])':
                bad = 'inv_ground is %s' % (norm(rets[0].ret)[:100] if len(rets) == 1 and rets[0].ret is not None else 'not one expression')
    elif bad is None and inv_attr != len(paths):
        bad = 'inv_ground is set on some paths only'
    ck.ob('R-PAIR.grounded-pulse', pi.qual, bad is None and n_ground > 0, pi.loc(),
          bad or 'ground flags, inverse flags, ground sign -1 and sign = direction sign * ground sign (%d paths)' % len(paths))
