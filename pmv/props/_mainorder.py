"""Order of the geometry phase of `main`, on the flattened function (private helpers inlined).

R-ORDER.main: tags are computed first; then ALL rotations and translations are applied in one sequence
sorted by their sort key (the first field of the option); then scaling; then the taper options; then the
Mininec object is built.

The application loop is found by following the *method references*: a name is marked when a value
containing `<geo>.rotate` / `<geo>.translate` (as a value, not called) - or an already marked name - is
assigned or appended to it; the application loop is the loop over a marked iterable whose body calls through
its loop element.  Its iterable must be `sorted(<marked with both kinds>, key=<first field>)`.
"""
import ast
from ..model import AnalysisError, norm, walk_no_nested, parent

MAIN = 'mininec.main'
KINDS = ('rotate', 'translate')


def _method_refs(e):
    """kinds of container-method references used as values in e"""
    out = set()
    for n in ast.walk(e):
        if isinstance(n, ast.Attribute) and n.attr in KINDS and isinstance(n.ctx, ast.Load):
            p = parent(n)
            if not (isinstance(p, ast.Call) and p.func is n):
                out.add(n.attr)
    return out


def _first_field_key(k, f):
    """is the sort key function `k` the first field of the entry?"""
    if isinstance(k, ast.Lambda) and len(k.args.args) == 1:
        a = k.args.args[0].arg
        return norm(k.body) in ('%s[0]' % a, '%s.key' % a)
    t = norm(k)
    if t in ('itemgetter(0)', 'operator.itemgetter(0)'):
        return True
    if t in ("attrgetter('key')", "operator.attrgetter('key')"):
        return True
    return False


def check_transform_order(ctx, ck, rule='R-ORDER.main', with_phases=True):
    m = ctx.model
    f = ctx.flat(MAIN)
    fl = ctx.flow(f)
    cfg = fl.cfg
    # ---- marks
    marks = {}
    changed = True
    stmts = [s for s in walk_no_nested(f.node) if isinstance(s, ast.stmt)]

    def labels_of(e):
        out = set(_method_refs(e))
        for n in ast.walk(e):
            if isinstance(n, ast.Name) and isinstance(n.ctx, ast.Load) and n.id in marks:
                out |= marks[n.id]
        return out
    while changed:
        changed = False
        for s in stmts:
            tg = []
            val = None
            if isinstance(s, ast.Assign):
                val = s.value
                for t in s.targets:
                    tg += [n.id for n in ast.walk(t) if isinstance(n, ast.Name)]
            elif isinstance(s, ast.AugAssign) and isinstance(s.target, ast.Name):
                val, tg = s.value, [s.target.id]
            elif isinstance(s, ast.Expr) and isinstance(s.value, ast.Call) and isinstance(s.value.func, ast.Attribute) and \
                    s.value.func.attr in ('append', 'extend', 'insert', 'add') and isinstance(s.value.func.value, ast.Name):
                val, tg = s.value, [s.value.func.value.id]
            elif isinstance(s, ast.For):
                val = s.iter
                tg = [n.id for n in ast.walk(s.target) if isinstance(n, ast.Name)]
            if val is None:
                continue
            lab = labels_of(val)
            if not lab:
                continue
            for t in tg:
                if not lab <= marks.get(t, set()):
                    marks[t] = marks.get(t, set()) | lab
                    changed = True
    # ---- application loops: loop over a marked iterable whose body calls through the loop element
    loops = []
    for l in stmts:
        if not isinstance(l, ast.For):
            continue
        lab = labels_of(l.iter)
        if not lab:
            continue
        tnames = {n.id for n in ast.walk(l.target) if isinstance(n, ast.Name)}
        # names unpacked / copied from the loop element inside the body
        for _ in range(3):
            for b in l.body:
                for a_ in ast.walk(b):
                    if isinstance(a_, ast.Assign) and any(isinstance(n, ast.Name) and n.id in tnames for n in ast.walk(a_.value)):
                        for t_ in a_.targets:
                            tnames |= {n.id for n in ast.walk(t_) if isinstance(n, ast.Name)}
        # the recorded method is called with (key, vector, tag)
        through = [c for b in l.body for c in ast.walk(b) if isinstance(c, ast.Call) and len(c.args) == 3 and not c.keywords and
                   any(isinstance(n, ast.Name) and n.id in tnames for n in ast.walk(c.func)) and
                   not (isinstance(c.func, ast.Attribute) and c.func.attr in ('append', 'extend', 'split', 'format', 'replace', 'insert'))]
        direct = [c for b in l.body for c in ast.walk(b) if isinstance(c, ast.Call) and len(c.args) == 3 and
                  isinstance(c.func, ast.Attribute) and c.func.attr in KINDS]
        if through or direct:
            loops.append((l, lab, through + direct))
    if not loops:
        raise AnalysisError('%s: no loop applies the recorded rotations / translations (method references %s)'
                            % (MAIN, sorted(marks)))
    n_apply = len(loops)
    both = [x for x in loops if x[1] >= set(KINDS)]
    ck.ob(rule, 'one-sequence', n_apply == 1 and len(both) == 1, f.loc(loops[0][0]),
          'rotations and translations are applied by one loop over all of them' if n_apply == 1 and len(both) == 1 else
          '%d application loops (kinds per loop: %s): rotations and translations are not merged into one sequence, '
          'so they cannot act in sort-key order' % (n_apply, [sorted(x[1]) for x in loops]))
    lp = (both or loops)[0][0]
    # ---- sorted by the first field
    it = lp.iter
    nid = cfg.node_of(lp)
    for _ in range(6):
        if isinstance(it, ast.Name) and it.id in fl.rd.names:
            ds = fl.def_exprs(it.id, nid)
            if len(ds) == 1 and ds[0][0] == 'assign' and ds[0][1] is not None:
                it, nid = ds[0][1], ds[0][2]
                continue
        break
    ok = isinstance(it, ast.Call) and isinstance(it.func, ast.Name) and it.func.id == 'sorted' and len(it.args) == 1
    why = 'transformations applied in sort-key order'
    if ok:
        kw = {k.arg: k.value for k in it.keywords}
        ok = set(kw) == {'key'} and _first_field_key(kw['key'], f) and labels_of(it.args[0]) >= set(KINDS)
        if not ok:
            why = 'the application loop ranges over %s: not all transformations sorted by their sort key alone' % norm(it)[:80]
    else:
        why = 'the application loop ranges over %s, which is not sorted by the sort key' % norm(it)[:80]
    ck.ob(rule, 'sorted-by-key', ok, f.loc(lp), why)
    # each entry is applied once per iteration
    from ..rules import loop_reaches_on_all_paths
    calls = (both or loops)[0][2]
    ids = {id(c) for c in calls}
    cnt = loop_reaches_on_all_paths(fl, lp, lambda n: n.stmt is not None and any(id(x) in ids for x in ast.walk(n.stmt)))
    okc = cnt == (1, 1) and all(len(c.args) == 3 for c in calls)
    ck.ob(rule, 'transform-call', okc, f.loc(lp),
          'each recorded transformation calls its container method once with (key, vector, tag): %s' % (cnt,))
    if not with_phases:
        return lp
    # ---- phases
    def nodes_where(pred):
        return [n for n in cfg.nodes if n.stmt is not None and n.id in cfg.reach and pred(n)]
    tags = nodes_where(lambda n: n.kind == 'stmt' and isinstance(n.stmt, ast.Expr) and isinstance(n.stmt.value, ast.Call) and
                       isinstance(n.stmt.value.func, ast.Attribute) and n.stmt.value.func.attr == 'compute_tags')
    scale = nodes_where(lambda n: n.kind == 'stmt' and any(isinstance(c, ast.Call) and isinstance(c.func, ast.Attribute) and
                                                          c.func.attr == 'scale' and len(c.args) in (1, 2) for c in ast.walk(n.stmt))
                        and not isinstance(n.stmt, (ast.For, ast.If, ast.While, ast.Try)))
    taper = nodes_where(lambda n: n.kind == 'stmt' and isinstance(n.stmt, ast.Assign) and norm(n.stmt.targets[0]).endswith('.segtype'))
    ctor = nodes_where(lambda n: n.kind == 'stmt' and any(isinstance(c, ast.Call) and isinstance(c.func, ast.Name) and
                                                         c.func.id == 'Mininec' for c in ast.walk(n.stmt))
                       and not isinstance(n.stmt, (ast.For, ast.If, ast.While, ast.Try, ast.With)))
    counts = (len(tags), len(scale), len(taper), len(ctor))
    if not all(c == 1 for c in counts):
        raise AnalysisError('%s: phases of the geometry set-up not found once each: compute_tags %d, scale %d, taper %d, '
                            'Mininec(...) %d' % ((MAIN,) + counts))
    seq = [('compute_tags', tags[0].id), ('apply transforms', cfg.node_of(lp)), ('scale', scale[0].id),
           ('taper', taper[0].id), ('Mininec()', ctor[0].id)]
    for (na, ia), (nb, ib) in zip(seq, seq[1:]):
        before = cfg.must_pass(ib, {ia}) if na in ('compute_tags',) else True
        back = ia in cfg.reachable_from(ib)
        ck.ob(rule, '%s<%s' % (na, nb), before and not back, f.loc(cfg.nodes[ib].stmt),
              '%s happens before %s on every path' % (na, nb))
    return lp
