#!/bin/sh
# apply every stored behaviour-preserving refactoring to /repo, run all quick checks, undo.
# any VIOLATION is a false alarm; ANALYSIS-ERROR means an anchor was lost (fail-closed).
cd "$(dirname "$0")/.."
for d in seeded/refactors/*/; do
  id=$(basename "$d")
  python3 tools/seed_eval.py "$id" "$d" --refactor --skip-verify 2>&1 | grep -E "^\{|FAIL|ANALYSIS" | cut -c1-260
  # seed_eval writes to seeded/<id>: merge meta back
  if [ -d "seeded/$id" ]; then cp "seeded/$id/meta.json" "$d/meta.json"; rm -rf "seeded/$id"; fi
done
