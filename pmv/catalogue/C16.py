M = 'mininec.Mininec.'
MUTANTS = [
    ('near grid float arange', [(M + 'compute_near_field', "r = [s + np.arange (int (n)) * ((s + i) - s)", "r = [np.arange (s, s + n * i, i)")], ['count-based']),
    ('near grid linspace without count', [(M + 'compute_near_field', "r = [s + np.arange (int (n)) * ((s + i) - s)", "r = [np.arange (s, s + (n - 0.5) * i, i)")], ['count-based']),
    ('angles by float arange', [('mininec.Angle.angle_deg', "        idx = np.array (range (self.number))\n        a   = self.initial + idx * self.inc", "        a = np.arange (self.initial, self.initial + self.number * self.inc, self.inc)")], ['count-based', 'affine']),
    ('angles one short', [('mininec.Angle.angle_deg', "idx = np.array (range (self.number))", "idx = np.array (range (self.number - 1))")], []),
    ('angle step squared', [('mininec.Angle.angle_deg', "a   = self.initial + idx * self.inc", "a   = self.initial + idx * idx * self.inc")], []),
    ('grid points skipped near wires', [(M + 'near_field_iter', "        for a in self.near_field_coord.T:\n            yield a", "        for a in self.near_field_coord.T:\n            if abs (a).sum () < 1e-9:\n                continue\n            yield a")], ['grid-to-table']),
    ('E appended only when nonzero', [(M + 'compute_near_field', "            self.e_field.append (u78 * f_e)", "            if u78.any ():\n                self.e_field.append (u78 * f_e)")], ['grid-to-table']),
    ('far rows filtered', [('mininec.Far_Field_Pattern.db_as_mininec', "            r.append \\\n                ( ('%s     ' * 4 + '%s')", "            if t <= -999:\n                continue\n            r.append \\\n                ( ('%s     ' * 4 + '%s')")], ['grid-to-table']),
    ('angle grid from radians list', [(M + 'compute_far_field', "(zenith_angle.angle_deg (), azimuth_angle.angle_deg ())", "(zenith_angle.angle_deg () [:-1], azimuth_angle.angle_deg ())")], ['grid-to-table', 'angle-grid']),
]
MUTANTS = [m_ for m_ in MUTANTS if m_[2]]
REFACTORS = [
    ('angles via np.arange count', [('mininec.Angle.angle_deg', "idx = np.array (range (self.number))", "idx = np.arange (self.number)")]),
    ('near grid via linspace', [(M + 'compute_near_field', "r = [s + np.arange (int (n)) * ((s + i) - s)", "r = [np.linspace (s, s + (int (n) - 1) * i, int (n))")]),
]
