M = 'mininec.Mininec.'
MUTANTS = [
    ('end 2 overwrites', [(M + 'currents_as_mininec', "                        c += s * self.current [p]", "                        c = s * self.current [p]")], ['junction-accumulate']),
    ('end 2 without sign', [(M + 'currents_as_mininec', "                        c += s * self.current [p]", "                        c += self.current [p]")], ['junction-accumulate']),
    ('end 2 subtracts', [(M + 'currents_as_mininec', "                        c += s * self.current [p]", "                        c -= s * self.current [p]")], ['junction-accumulate']),
    ('end 2 uses conn[0]', [(M + 'currents_as_mininec', "for p, s in geobj.conn [1].pulse_iter ():", "for p, s in geobj.conn [0].pulse_iter ():")], ['junction', 'ends-alike']),
    ('unconnected end prints junction', [(M + 'currents_as_mininec', "            if not geobj.is_ground [1]:\n                if not geobj.conn [1]:", "            if not geobj.is_ground [1]:\n                if not geobj.conn [0]:")], ['ends-alike']),
    ('grounded end prints a line', [(M + 'currents_as_mininec', "            if not geobj.is_ground [1]:", "            if True:")], ['ends-alike', 'ground-guard']),
    ('pulse_iter skips first entry', [('mininec.Connected_Geobj.pulse_iter', "for geobj, ow, idx, s in self._iter ():", "for geobj, ow, idx, s in list (self._iter ()) [1:]:")], ['pulse-iter']),
    ('pulse_iter yields other object index', [('mininec.Connected_Geobj.pulse_iter', "yield (ow.end_segs [idx], s)", "yield (geobj.end_segs [idx], s)")], ['pulse-iter']),
    ('interior row uses wrong number', [(M + 'currents_as_mininec', "((k + 1, c.real, c.imag, np.abs (c), a), use_e = True)", "((k, c.real, c.imag, np.abs (c), a), use_e = True)")], ['rows']),
    ('interior rows include junction pulses', [(M + 'currents_as_mininec', "geobj.pulse_idx_iter (yield_ends = False)", "geobj.pulse_idx_iter ()")], ['rows']),
]
REFACTORS = [
    ('accumulate as c = c + term', [(M + 'currents_as_mininec', "                        c += s * self.current [p]", "                        c = c + self.current [p] * s")]),
    ('rename loop vars in end 2', [(M + 'currents_as_mininec', "                    for p, s in geobj.conn [1].pulse_iter ():\n                        assert p is not None\n                        c += s * self.current [p]", "                    for pi, sg in geobj.conn [1].pulse_iter ():\n                        assert pi is not None\n                        c += sg * self.current [pi]")]),
]
