"""C20  Command line is fail-safe: complete finite report or one-line diagnostic.

R-EXC from `main` (interprocedural may-raise with handler matching and None-ness pruning).
Decided:
 D1  every explicit `raise` reachable from main is caught on the call path (and the handler leads
     to `return 23`).  Frozen "cannot be triggered from the command line" table: one reason each.
 D2  registry lookups by_tag[k] with a user key are caught or dominated by a membership test;
     star-calls f(*user_list) are dominated by a length check; open() of user paths and
     int()/float()/complex() of user text are inside a handler.
 D3  precondition assertions of the taper module on user-controlled parameters (confirmed
     user-reachable) - AssertionError is not caught anywhere.
 D4  every handler and every validation branch of main prints exactly one diagnostic and returns
     23; no bare except that swallows and continues.
 D5  definite assignment in main: no local is read on a path on which it was never assigned
     (correlated guards are recognised).
Not decided: implicit exceptions of numeric origin (ZeroDivisionError for -f 0, LinAlgError for
     duplicate wires, overflow) and NaN / infinity in the output - value dependent.
"""
import ast
from ..model import AnalysisError, walk_no_nested, norm, dotted, parent, enclosing_stmt
from ..exc import ExcAnalysis
from ..dataflow import possibly_undefined

MAIN = 'mininec.main'

# call paths on which the explicit raises cannot be triggered from the command line (frozen, one
# reason each): a raise that can leave main ONLY through such a call is exempt
EXEMPT_CALLS = {
    'mininec.Mininec.fix_distributed_loads':
        'called without user data: it attaches the distributed load of one of the two objects of an '
        'existing junction pulse by that pulse\'s own index, so the range / ownership checks behind '
        'register_load cannot fail',
}


def handler_outcome(h):
    """(n_prints, ends_with_return_23)"""
    prints = [c for s in h.body for c in ast.walk(s) if isinstance(c, ast.Call) and
              isinstance(c.func, ast.Name) and c.func.id == 'print']
    last = h.body[-1] if h.body else None
    ret23 = isinstance(last, ast.Return) and isinstance(last.value, ast.Constant) and last.value.value == 23
    return len(prints), ret23


def run(ctx, ck):
    m = ctx.model
    ck.rule('R-EXC.explicit-raise', 'explicit raise reachable from main is caught on the call path')
    ck.rule('R-EXC.lookup', 'by_tag[user key] caught or guarded by a membership test')
    ck.rule('R-EXC.convert', 'int/float/complex of user text inside a handler')
    ck.rule('R-EXC.open', 'open(user path) inside a handler')
    ck.rule('R-EXC.starcall', 'f(*user list) dominated by a length check')
    ck.rule('R-EXC.assert', 'taper precondition assertions on user parameters are not reachable unguarded')
    ck.rule('R-EXC.handler-shape', 'handlers / validation branches print one diagnostic and return 23')
    ck.rule('R-DEFASSIGN.main', 'no local of main is read on a path without assignment')

    ea = ExcAnalysis(ctx, MAIN)
    mainf = m.func(MAIN)
    all_sites, closure = ea.all_sites_in_closure()
    ck.info('functions_reachable_from_main', len(closure))
    by_kind = {}
    for s in all_sites:
        by_kind.setdefault(s.kind, []).append(s)
    ck.info('sites_in_closure', {k: len(v) for k, v in by_kind.items()})
    ck.floor('explicit raises in the closure of main', len(by_kind.get('raise', [])), 40)
    ck.floor('conversions of user text in main', len(by_kind.get('convert', [])), 20)
    ck.floor('open() calls', len(by_kind.get('open', [])), 2)
    ck.floor('by_tag lookups', len(by_kind.get('lookup', [])), 5)
    esc = ea.escaping(mainf)
    esc_keys = {}
    for s, path in esc:
        esc_keys[s.key] = (s, path)
    # the same without the exempt calls: what remains escapes through user-driven paths
    ea2 = ExcAnalysis(ctx, MAIN)
    ea2.skip_callees = set(EXEMPT_CALLS)
    for q_ in EXEMPT_CALLS:
        m.func(q_)
    user_keys = {s.key for s, path in ea2.escaping(mainf)}
    rule_of = {'raise': 'R-EXC.explicit-raise', 'lookup': 'R-EXC.lookup', 'convert': 'R-EXC.convert',
               'open': 'R-EXC.open', 'starcall': 'R-EXC.starcall'}
    seen = set()
    for s in sorted(all_sites, key=lambda x: x.key):
        if s.key in seen:
            continue
        seen.add(s.key)
        rule = rule_of[s.kind]
        if s.key in esc_keys:
            s2, path = esc_keys[s.key]
            via = ' -> '.join('%s:%d' % (f.qual.split('.', 1)[1], getattr(n, 'lineno', 0)) for f, n in path)
            if s.key not in user_keys:
                via_q = [f_.qual for f_, n_ in path if f_.qual in EXEMPT_CALLS] or list(EXEMPT_CALLS)
                ck.ob(rule, s.key, True, s.func.loc(s.node),
                      'reaches main only through %s: %s' % (via_q[0], EXEMPT_CALLS[via_q[0]]))
                continue
            first = path[0][1] if path else s.node
            ck.ob(rule, s.key, False, s.func.loc(s.node),
                  '%s can escape main uncaught (%s)%s' % (
                      s.exc, s.text, (' via ' + via) if via else ''))
        else:
            ck.ob(rule, s.key, True, s.func.loc(s.node), '%s caught on every call path from main or '
                  'unreachable for the arguments main passes' % s.exc)

    # implicit IndexError: user pulse numbers used as list indices
    from ._addressing import check_pulse_bounds
    ck.rule('R-BOUNDS.pulse-index', 'user pulse number checked against the length of the list it indexes')
    nb = check_pulse_bounds(ctx, ck, ['mininec.Mininec.register_source', 'mininec.Mininec.register_load'])
    ck.floor('user-indexed pulse lists', nb, 1)

    # ---------------------------------------------------------------- D3 taper assertions
    n_as = 0
    for q in ('taper.taper1', 'taper.taper2'):
        f = m.func(q)
        params = set(f.all_params)
        reach = q in closure
        for a in walk_no_nested(f.node):
            if not isinstance(a, ast.Assert):
                continue
            names = {x.id for x in ast.walk(a.test) if isinstance(x, ast.Name)}
            # preconditions: tests on parameters only (plus l = |p2 - p1|), before any loop
            if not names <= (params | {'l'}):
                continue
            if any(isinstance(p_, (ast.For, ast.While)) for p_ in _ancestors(a, f.node)):
                continue
            n_as += 1
            ck.ob('R-EXC.assert', '%s|assert %s' % (q, norm(a.test)), not reach, f.loc(a),
                  'precondition `%s` on user-controlled taper parameters is an assert: AssertionError is '
                  'caught nowhere on the path main -> Mininec() -> compute_segments' % norm(a.test)
                  if reach else 'not reachable from main')
    ck.ob('R-EXC.assert', 'taper|summary', True, m.func('taper.taper1').loc(),
          '%d parameter-precondition assertions in the taper generators reachable from main '
          '(expected 0; the self-test re-inserts one to show the rule fires)' % n_as)

    # ---------------------------------------------------------------- asserts on values that may be None
    # `assert p is not None` in a function main calls states a belief about its caller; main hands the function an
    # option value that is None whenever the option is not given (no default registered): AssertionError is caught
    # nowhere on that path
    ck.rule('R-EXC.assert-none', 'no `assert p is not None` is reached from main with an option value that may be None')
    from ..cli import registered_options
    opts_ = registered_options(mainf)
    maybe_none = set()
    for o_ in set(opts_.values()):
        if o_.default is None and o_.action not in ('store_true', 'store_false', 'count', 'append') :
            maybe_none.add(o_.dest)
        elif isinstance(o_.default, ast.Constant) and o_.default.value is None:
            maybe_none.add(o_.dest)

    def option_none(v_):
        return isinstance(v_, ast.Attribute) and isinstance(v_.value, ast.Name) and v_.value.id == 'args' and v_.attr in maybe_none
    bundles_ = {}
    for s_ in walk_no_nested(mainf.node):
        if isinstance(s_, ast.Assign) and len(s_.targets) == 1:
            t_ = s_.targets[0]
            if isinstance(t_, ast.Name) and isinstance(s_.value, ast.Call) and isinstance(s_.value.func, ast.Name) and \
               s_.value.func.id == 'dict' and not s_.value.args:
                for k_ in s_.value.keywords:
                    if k_.arg is not None:
                        bundles_.setdefault(t_.id, {}).setdefault(k_.arg, []).append(k_.value)
            elif isinstance(t_, ast.Name) and isinstance(s_.value, ast.Dict):
                for k_, v_ in zip(s_.value.keys, s_.value.values):
                    if isinstance(k_, ast.Constant) and isinstance(k_.value, str):
                        bundles_.setdefault(t_.id, {}).setdefault(k_.value, []).append(v_)
            elif isinstance(t_, ast.Subscript) and isinstance(t_.value, ast.Name) and isinstance(t_.slice, ast.Constant) and \
                    isinstance(t_.slice.value, str):
                bundles_.setdefault(t_.value.id, {}).setdefault(t_.slice.value, []).append(s_.value)
    n_an = 0
    for c_ in walk_no_nested(mainf.node):
        if not isinstance(c_, ast.Call):
            continue
        # the callee as the call graph resolves it (receiver types), else a name that is unique in the closure
        cands_ = [ed_.callee for ed_ in ctx.program.edges.get(mainf.qual, []) if ed_.node is c_ and ed_.kind in ("call", "ctor")]
        if not cands_:
            nm_ = c_.func.attr if isinstance(c_.func, ast.Attribute) else (c_.func.id if isinstance(c_.func, ast.Name) else None)
            cands_ = [g_ for g_ in m.all_funcs() if g_.name == nm_ and g_.qual in closure] if nm_ else []
        if len(cands_) != 1:
            continue
        g_ = cands_[0]
        asserted = set()
        for a_ in walk_no_nested(g_.node):
            if isinstance(a_, ast.Assert):
                for x_ in ast.walk(a_.test):
                    if isinstance(x_, ast.Compare) and len(x_.ops) == 1 and isinstance(x_.ops[0], ast.IsNot) and \
                       isinstance(x_.left, ast.Name) and x_.left.id in g_.all_params and \
                       isinstance(x_.comparators[0], ast.Constant) and x_.comparators[0].value is None:
                        asserted.add(x_.left.id)
        if not asserted:
            continue
        given = {}
        params_ = g_.bound_params() if g_.cls is not None else list(g_.params)
        for i_, a_ in enumerate(c_.args):
            if i_ < len(params_):
                given.setdefault(params_[i_], []).append(a_)
        for k_ in c_.keywords:
            if k_.arg is not None:
                given.setdefault(k_.arg, []).append(k_.value)
            elif isinstance(k_.value, ast.Name) and k_.value.id in bundles_:
                for kk_, vs_ in bundles_[k_.value.id].items():
                    given.setdefault(kk_, []).extend(vs_)
        for p_ in sorted(asserted):
            n_an += 1
            bad_ = [v_ for v_ in given.get(p_, []) if option_none(v_)]
            ck.ob('R-EXC.assert-none', '%s|%s' % (g_.qual, p_), not bad_, mainf.loc(c_),
                  '%s asserts `%s is not None`; main passes %s, which is None when the option is not given: AssertionError '
                  'escapes main (no report, no diagnostic)' % (g_.qual, p_, norm(bad_[0])) if bad_ else
                  '%s asserts `%s is not None`; main passes %s' % (g_.qual, p_, [norm(v_) for v_ in given.get(p_, [])] or 'nothing (the default)'))
    ck.info('asserted_not_none_parameters_called_from_main', n_an)

    # ---------------------------------------------------------------- none-sentinel contradictions
    ck.rule('R-BELIEF.none-sentinel', 'a parameter meaning "not given" when None is never branched on by truth value elsewhere')
    from ._sentinel import check_none_sentinel
    n_opt = check_none_sentinel(ctx, ck, 'R-BELIEF.none-sentinel', [m.funcs[q_] for q_ in closure if q_ in m.funcs])
    ck.floor('optional parameters tested for None in the closure of main', n_opt, 10)

    # ---------------------------------------------------------------- D4 handler shapes
    n_h = 0
    for h in [x for x in walk_no_nested(mainf.node) if isinstance(x, ast.ExceptHandler)]:
        np_, r23 = handler_outcome(h)
        n_h += 1
        key = 'main|except %s|%s' % (norm(h.type) if h.type is not None else '<bare>',
                                     norm(h.body[0])[:50] if h.body else '')
        ck.ob('R-EXC.handler-shape', key, np_ == 1 and r23 and h.type is not None, mainf.loc(h),
              'handler prints %d diagnostic(s) and %s' % (np_, 'returns 23' if r23 else 'does NOT return 23'))
    # handlers in the module-level helpers main delegates option parsing to: one diagnostic, then the
    # helper reports the failure to main by its return value
    def text_result(v):
        """a diagnostic text: a string literal, a %-format of one, an f-string, str.format"""
        if isinstance(v, ast.Constant) and isinstance(v.value, str):
            return True
        if isinstance(v, ast.JoinedStr):
            return True
        if isinstance(v, ast.BinOp) and isinstance(v.op, (ast.Mod, ast.Add)):
            return text_result(v.left)
        if isinstance(v, ast.Call) and isinstance(v.func, ast.Attribute) and v.func.attr == 'format':
            return text_result(v.func.value)
        return False

    def caller_prints_text(g_):
        """every call of the helper in main is `r = helper(...)` followed by `if isinstance(r, str): print(r ...); return 23`"""
        sites = [c for c in ast.walk(mainf.node) if isinstance(c, ast.Call) and isinstance(c.func, ast.Name) and c.func.id == g_.name]
        if not sites:
            return False
        for c in sites:
            st = enclosing_stmt(c)
            if not (isinstance(st, ast.Assign) and len(st.targets) == 1 and isinstance(st.targets[0], ast.Name) and st.value is c):
                return False
            r_ = st.targets[0].id
            blk = None
            p_ = parent(st)
            for fld in ('body', 'orelse', 'finalbody'):
                lst = getattr(p_, fld, None)
                if isinstance(lst, list) and any(y is st for y in lst):
                    blk = lst
            if blk is None:
                return False
            k = [i for i, y in enumerate(blk) if y is st][0]
            nxt = blk[k + 1] if k + 1 < len(blk) else None
            if not (isinstance(nxt, ast.If) and norm(nxt.test) in ('isinstance(%s, str)' % r_, 'type(%s) is str' % r_)):
                return False
            prints = [x for s_ in nxt.body for x in ast.walk(s_) if isinstance(x, ast.Call) and isinstance(x.func, ast.Name)
                      and x.func.id == 'print' and any(isinstance(a_, ast.Name) and a_.id == r_ for a_ in x.args)]
            lastb = nxt.body[-1] if nxt.body else None
            if len(prints) != 1 or not (isinstance(lastb, ast.Return) and isinstance(lastb.value, ast.Constant) and lastb.value.value == 23):
                return False
        return True
    def main_reports(exc_name):
        """main has a handler for the package exception class (or one of its package bases) that prints one
        diagnostic and returns 23"""
        names = {exc_name}
        ci = m.classes.get(exc_name)
        if ci is not None:
            names |= {c_.name for c_ in ci.mro}
        for h_ in [x for x in walk_no_nested(mainf.node) if isinstance(x, ast.ExceptHandler)]:
            types_ = h_.type.elts if isinstance(h_.type, ast.Tuple) else ([h_.type] if h_.type is not None else [])
            if any((dotted(t_) or '').split('.')[-1] in names for t_ in types_):
                np2, r232 = handler_outcome(h_)
                if np2 == 1 and r232:
                    return True
        return False
    for q_ in sorted(ea.entry_helpers()):
        g_ = m.funcs[q_]
        for h in [x for x in walk_no_nested(g_.node) if isinstance(x, ast.ExceptHandler)]:
            np_, r23 = handler_outcome(h)
            last = h.body[-1] if h.body else None
            n_h += 1
            key = '%s|except %s|%s' % (g_.name, norm(h.type) if h.type is not None else '<bare>',
                                       norm(h.body[0])[:50] if h.body else '')
            if not isinstance(last, ast.Return) and not any(isinstance(x_, (ast.Continue, ast.Break, ast.Raise))
                                                            for s_ in h.body for x_ in ast.walk(s_)):
                # the handler falls out of a try whose next statement is the closing return of the helper
                t_ = parent(h)
                body_ = getattr(parent(t_), 'body', None) if t_ is not None else None
                if isinstance(t_, ast.Try) and not t_.finalbody and parent(t_) is g_.node and body_ and t_ in body_:
                    i_ = body_.index(t_)
                    if i_ + 1 < len(body_) and isinstance(body_[i_ + 1], ast.Return):
                        last = body_[i_ + 1]
            ok_h = np_ == 1 and isinstance(last, ast.Return) and h.type is not None
            how_ = 'handler prints %d diagnostic(s) and %s' % (np_, 'returns to main' if isinstance(last, ast.Return)
                                                               else 'does NOT return')
            if not ok_h and np_ == 0 and isinstance(last, ast.Return) and h.type is not None and text_result(last.value) and \
               caller_prints_text(g_):
                # the other accepted shape: the helper hands the text of the diagnostic back, main prints it and returns 23
                ok_h, how_ = True, 'handler returns the diagnostic text; main prints it and returns 23'
            if not ok_h and np_ == 0 and isinstance(last, ast.Raise) and h.type is not None and \
               isinstance(last.exc, ast.Call) and isinstance(last.exc.func, ast.Name) and last.exc.func.id in m.classes and \
               last.exc.args and text_result(last.exc.args[0]) and main_reports(last.exc.func.id):
                # third accepted shape: the diagnostic travels in an exception class of the package that main
                # catches in a handler of the usual shape (one print, return 23); that it cannot escape is R-EXC.explicit-raise
                ok_h, how_ = True, 'handler raises %s with the diagnostic text; main prints it and returns 23' % last.exc.func.id
            if not ok_h and len(h.body) == 1 and isinstance(last, ast.Raise) and last.exc is None and h.type is not None and \
               not isinstance(h.type, ast.Tuple) and main_reports((dotted(h.type) or '').split('.')[-1]):
                ok_h, how_ = True, 'handler hands the diagnostic exception on to main unchanged'
            ck.ob('R-EXC.handler-shape', key, ok_h, g_.loc(h), how_)
    ck.floor('exception handlers in main', n_h, 20)
    # sorting records: `sorted(X)` / `X.sort()` without a key compares whole entries; when two entries tie
    # on their first field the next fields are compared - bound methods, arrays, None - and TypeError /
    # ValueError escapes main.  Every sort of a sequence of records (tuples of several fields, objects) in
    # main or the helpers it parses the options with must name its key, or be inside a handler for it.
    ck.rule('R-EXC.sort-key', 'records are sorted by an explicit key (ties never compare unorderable fields)')
    n_sorts = 0
    for g_ in [mainf] + [m.funcs[q_] for q_ in sorted(ea.entry_helpers())]:
        for c_ in walk_no_nested(g_.node):
            if not isinstance(c_, ast.Call):
                continue
            seq = None
            if isinstance(c_.func, ast.Name) and c_.func.id == 'sorted' and c_.args:
                seq = c_.args[0]
            elif isinstance(c_.func, ast.Attribute) and c_.func.attr == 'sort' and not c_.args:
                seq = c_.func.value
            if seq is None:
                continue
            n_sorts += 1
            has_key = any(k_.arg == 'key' for k_ in c_.keywords)
            # what the entries are: tuples / objects put into the sequence in this function
            names_ = {n_.id for n_ in ast.walk(seq) if isinstance(n_, ast.Name)}
            records = []
            for s_ in walk_no_nested(g_.node):
                e_ = None
                if isinstance(s_, ast.Call) and isinstance(s_.func, ast.Attribute) and s_.func.attr in ('append', 'add', 'insert') and \
                   isinstance(s_.func.value, ast.Name) and s_.func.value.id in names_ and s_.args:
                    e_ = s_.args[-1]
                elif isinstance(s_, ast.Assign) and any(isinstance(t_, ast.Name) and t_.id in names_ for t_ in s_.targets) and \
                        isinstance(s_.value, (ast.List, ast.Tuple, ast.ListComp, ast.GeneratorExp)):
                    e_ = s_.value.elt if isinstance(s_.value, (ast.ListComp, ast.GeneratorExp)) else (
                        s_.value.elts[0] if s_.value.elts else None)
                if e_ is not None and ((isinstance(e_, ast.Tuple) and len(e_.elts) >= 2) or
                                       (isinstance(e_, ast.Call) and isinstance(e_.func, ast.Name) and e_.func.id[:1].isupper())):
                    records.append(e_)
            caught = ea.caught_locally(g_, c_, 'TypeError') is not None
            ok_ = has_key or caught or not records
            ck.ob('R-EXC.sort-key', '%s|%s' % (g_.qual, norm(c_)[:60]), ok_, g_.loc(c_),
                  'sorted by an explicit key' if has_key else ('inside a handler' if caught else 'entries are plain values')
                  if ok_ else 'entries like %s are sorted without a key: entries that tie on the first field compare their '
                  'remaining fields (methods, arrays, None) and TypeError / ValueError escapes main' % norm(records[0])[:60])
    ck.floor('sort calls in main and its option helpers', n_sorts, 1)
    rets = [r for r in walk_no_nested(mainf.node) if isinstance(r, ast.Return)]
    mfl_ = ctx.flow(mainf)

    def helper_result(name_node, at):
        """the entry helper whose result the local holds (single definition `x = helper(...)`), or None"""
        if not isinstance(name_node, ast.Name) or name_node.id not in mfl_.rd.names:
            return None
        ds = mfl_.def_exprs(name_node.id, at)
        gs = set()
        for d in ds:
            if d[0] not in ('assign', 'unpack') or not isinstance(d[1], ast.Call) or not isinstance(d[1].func, ast.Name):
                return None
            q_ = '%s.%s' % (mainf.module.name, d[1].func.id)
            if q_ not in ea.entry_helpers():
                return None
            gs.add(q_)
            if d[0] == 'unpack':
                # `status, geo = helper(...)`: the status is one position of the tuples the helper returns
                if d[3] is None:
                    return None
                positions.setdefault(q_, set()).add(d[3])
        return m.funcs[sorted(gs)[0]] if len(gs) == 1 else None

    positions = {}

    def helper_codes(g_, ints_only=False, depth=0):
        """the values a helper can hand back as its exit code (constants), None if one is not a constant.
        ints_only: main hands the value on only when it is an int (`if isinstance(x, int): return x`), so results
        that are built objects / tuples / lists are not exit codes; a local that holds the code of another entry
        helper stands for that helper's codes"""
        out = []
        gfl_ = ctx.flow(g_)
        for x_ in walk_no_nested(g_.node):
            if isinstance(x_, ast.Return) and x_.value is not None:
                v_ = x_.value
                pos_ = positions.get(g_.qual)
                if pos_:
                    if not (isinstance(v_, ast.Tuple) and len(pos_) == 1 and max(pos_) < len(v_.elts)):
                        return None
                    v_ = v_.elts[next(iter(pos_))]
                if isinstance(v_, ast.Name) and depth < 3 and v_.id in gfl_.rd.names:
                    ds_ = gfl_.def_exprs(v_.id, gfl_.node_id_of(x_))
                    subs_ = []
                    for d_ in ds_:
                        if d_[0] == 'assign' and isinstance(d_[1], ast.Call) and isinstance(d_[1].func, ast.Name):
                            q2_ = '%s.%s' % (g_.module.name, d_[1].func.id)
                            if q2_ in ea.entry_helpers() and q2_ != g_.qual:
                                subs_.append(m.funcs[q2_])
                                continue
                        if d_[0] == 'assign' and isinstance(d_[1], ast.Constant):
                            out.append(d_[1].value)
                            continue
                        subs_ = None
                        break
                    if subs_ is not None:
                        for h_ in subs_:
                            c2_ = helper_codes(h_, ints_only or int_guarded(x_, v_.id, g_.node), depth + 1)
                            if c2_ is None:
                                return None
                            out += c2_
                        continue
                if not isinstance(v_, ast.Constant):
                    def not_int(e_, at_, d_=0):
                        if isinstance(e_, (ast.Tuple, ast.List, ast.Dict, ast.ListComp, ast.DictComp, ast.Set)):
                            return True
                        if isinstance(e_, ast.Constant):
                            return e_.value is None
                        if isinstance(e_, ast.Call):
                            nm_ = (dotted(e_.func) or '').split('.')[-1]
                            return nm_ in m.classes or nm_ in ('list', 'dict', 'tuple', 'set', 'sorted')
                        if isinstance(e_, ast.BoolOp):
                            return all(not_int(x__, at_, d_ + 1) for x__ in e_.values)
                        if isinstance(e_, ast.Name) and d_ < 3 and e_.id in gfl_.rd.names:
                            dd_ = gfl_.def_exprs(e_.id, at_)
                            dd_ = [y_ for y_ in dd_ if y_[0] != 'weak']      # (x.append(..) keeps x what it is)
                            return bool(dd_) and all(y_[0] == 'assign' and not_int(y_[1], y_[2], d_ + 1) for y_ in dd_)
                        return False
                    if ints_only and not_int(v_, gfl_.node_id_of(x_)):
                        continue
                    return None
                out.append(v_.value)
        return out

    def int_guarded(r_, name_, root_=None):
        """the return sits under `if isinstance(<name>, int):`"""
        root_ = root_ or mainf.node
        p_ = parent(r_)
        while p_ is not None and p_ is not root_:
            if isinstance(p_, ast.If) and any(r_ is s_ or any(r_ is y_ for y_ in ast.walk(s_)) for s_ in p_.body):
                t_ = p_.test
                if isinstance(t_, ast.Call) and isinstance(t_.func, ast.Name) and t_.func.id == 'isinstance' and \
                        len(t_.args) == 2 and norm(t_.args[0]) == name_ and norm(t_.args[1]) == 'int':
                    return True
            p_ = parent(p_)
        return False

    def helper_reports(g_, lenient=False):
        """every failing return of the helper (a constant other than a normal result) follows a diagnostic print"""
        for r_ in walk_no_nested(g_.node):
            if isinstance(r_, ast.Return) and (r_.value is None or isinstance(r_.value, ast.Constant)):
                if r_.value is not None and r_.value.value not in (None, 23, 0) and g_.qual not in positions:
                    return False
        return any(isinstance(c_, ast.Call) and isinstance(c_.func, ast.Name) and c_.func.id == 'print'
                   for c_ in walk_no_nested(g_.node))
    for r in rets:
        v = r.value
        ok = v is None or (isinstance(v, ast.Constant) and v.value == 23) or \
            (isinstance(v, ast.Name) and v.id == 'm')
        if not ok and isinstance(v, ast.Name):
            # `rc = helper(...); if rc is not None: return rc`: the helper's own exit code
            g_ = helper_result(v, mfl_.node_id_of(r))
            ig_ = int_guarded(r, v.id)
            codes_ = helper_codes(g_, ints_only=ig_) if g_ is not None else None
            ok = g_ is not None and helper_reports(g_, lenient=ig_) and codes_ is not None and all(
                c_ in (None, 23) or (c_ == 0 and c_ is not False) for c_ in codes_)
            if ok:
                continue
        if not ok:
            ck.ob('R-EXC.handler-shape', 'main|return %s' % norm(v), False, mainf.loc(r), 'unexpected return value')
        elif isinstance(v, ast.Constant):
            # the statement before `return 23` in the same block is the diagnostic print
            blk = parent(r)
            body = None
            for fld in ('body', 'orelse', 'finalbody'):
                b = getattr(blk, fld, None)
                if isinstance(b, list) and r in b:
                    body = b
            i = body.index(r) if body else 0
            prev = body[i - 1] if body and i > 0 else None
            okp = isinstance(prev, ast.Expr) and isinstance(prev.value, ast.Call) and \
                isinstance(prev.value.func, ast.Name) and prev.value.func.id == 'print'
            if not okp and isinstance(blk, ast.If):
                # `x = helper(...); if x is None: return 23`: the helper printed the diagnostic
                for n_ in ast.walk(blk.test):
                    g_ = helper_result(n_, mfl_.cfg.node_of(blk)) if isinstance(n_, ast.Name) else None
                    if g_ is not None and helper_reports(g_):
                        okp = True
            if not okp:
                ck.ob('R-EXC.handler-shape', 'main|return-23-without-diagnostic|%s' % norm(blk)[:40], False,
                      mainf.loc(r), '`return 23` is not preceded by a diagnostic print')
    ck.ob('R-EXC.handler-shape', 'main|returns', True, mainf.loc(),
          '%d return statements: 23 after a diagnostic, the model object, or None' % len(rets))

    # ---------------------------------------------------------------- D5
    fl = ctx.flow(mainf)
    und = possibly_undefined(fl)
    seen_n = set()
    for name, use, nid in und:
        if name in seen_n:
            continue
        seen_n.add(name)
        ck.ob('R-DEFASSIGN.main', 'main|%s' % name, False, mainf.loc(use),
              'local `%s` is read here but assigned only under a different condition: '
              'UnboundLocalError on that path' % name)
    ck.ob('R-DEFASSIGN.main', 'main|locals', True, mainf.loc(),
          '%d locals of main analysed with correlated-guard path feasibility' % len(fl.rd.names))
    # a constructor that refuses its arguments has not yet changed the object it was given: the geo object computes
    # its radius from an attached insulation load, so a load attached before its own radius was validated makes the
    # validation itself run on garbage (division by zero, complex comparison) instead of raising the ValueError main reports
    ck.rule('R-ORDER.validate-before-attach', 'a load constructor stores nothing into the geo object it is given on a path that ends in a refusal')
    from ..symx import SymExec as _SX2
    n_vb = 0
    for ci_ in sorted(m.classes.values(), key=lambda c_: c_.name):
        if not any(b_.name in ('_Load', 'Distributed_Load') for b_ in ci_.mro[1:]):
            continue
        g_ = ci_.methods.get('__init__')
        if g_ is None:
            continue
        params_ = set(g_.params[1:])
        sx2 = _SX2(ctx, g_, effects=True, depth=3, max_paths=2000)
        sx2.self_cls = ci_.name
        bad_ = None
        npaths_ = 0
        for p_ in sx2.run():
            npaths_ += 1
            if p_.end != 'raise':
                continue
            foreign = [ev_ for ev_ in p_.events if ev_[0] == 'store' and ev_[1].split('.')[0] in params_ and '.' in ev_[1]]
            if foreign:
                bad_ = bad_ or foreign[0][1]
        n_vb += 1
        ck.ob('R-ORDER.validate-before-attach', g_.qual, bad_ is None, g_.loc(),
              'every refusal comes before the geo object is touched (%d paths)' % npaths_ if bad_ is None else
              '%s is stored on a path that then refuses the arguments: the remaining checks (and the caller) see an object '
              'that is already changed - Geobj.r is computed from an attached insulation load' % bad_)
    ck.floor('load constructors', n_vb, 2)
    # a degenerate wire is refused with a diagnostic wherever it can arise: every operation that moves the end points
    # of a wire re-runs the zero-length validation (its ValueError is what main turns into "Invalid geo-scale option")
    ck.rule('R-VALID.revalidate', 'every Wire method that changes p1 / p2 reaches the zero-length validation')
    from ..rules import self_closure
    V_ = {g_.qual for g_ in m.all_funcs() for x_ in walk_no_nested(g_.node)
          if isinstance(x_, ast.Raise) and x_.exc is not None and any(
              isinstance(c_, ast.Constant) and isinstance(c_.value, str) and 'zero length' in c_.value.lower()
              for c_ in ast.walk(x_.exc))}
    if not V_:
        raise AnalysisError('anchor vanished: no function raises the "Zero length wire" error')
    n_rv = 0
    wire_ = m.classes.get('Wire')
    if wire_ is None:
        raise AnalysisError('anchor vanished: class Wire')
    for g_ in sorted(wire_.methods.values(), key=lambda x: x.qual):
        if g_.name.startswith('_') and g_.name != '__init__':
            continue        # (helpers are judged through the public methods that use them)
        cl_ = self_closure(ctx, g_)
        moves_ = any((isinstance(x_, ast.Attribute) and isinstance(x_.ctx, ast.Store) and x_.attr in ('p1', 'p2') and norm(x_.value) == 'self')
                     or (isinstance(x_, ast.Subscript) and isinstance(x_.ctx, ast.Store) and norm(x_.value) in ('self.p1', 'self.p2'))
                     for h_ in cl_ for x_ in walk_no_nested(h_.node))
        if not moves_ or not (g_.name in ('__init__', 'compute_ground') or 'scale' in g_.name):
            continue        # (the constructor, scaling and the snap to the ground plane can make a wire degenerate;
            #                  rigid motions and whatever else moves both ends alike keep the length)
        n_rv += 1
        ok_ = any(h_.qual in V_ for h_ in cl_)
        ck.ob('R-VALID.revalidate', g_.qual, ok_, g_.loc(),
              're-validates the wire after moving its ends' if ok_ else
              '%s changes the end points without reaching the zero-length validation (%s): a wire collapsed by the '
              'operation (scale factor 0) goes on into segmentation and ends in an uncaught exception' % (g_.qual, sorted(V_)))
    ck.floor('Wire methods that can change the length of the wire', n_rv, 2)
    ck.undecided += ['implicit exceptions of numeric origin (ZeroDivisionError, LinAlgError, overflow)',
                     'NaN / infinity in the output', 'None-valued options reaching arithmetic '
                     '(--radial-count without --radial-radius)']


def _ancestors(n, stop):
    p = parent(n)
    while p is not None and p is not stop:
        yield p
        p = parent(p)
